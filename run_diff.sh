#!/bin/sh
# usage: run_diff.sh <prefix> <dir>
# Feeds every <dir>/<prefix>.cases.<k>.txt to the extracted model (ocaml/driver.exe)
# and compares with the implementation's answers <dir>/<prefix>.impl.<k>.txt.
HERE=$(cd "$(dirname "$0")" && pwd)
P=$1; D=$2; bad=0; n=0
for f in "$D"/"$P".cases.*.txt; do
  k=${f##*.cases.}; k=${k%.txt}
  if ! "$HERE"/ocaml/_build/default/driver.exe < "$f" | cmp -s - "$D/$P.impl.$k.txt"; then
    echo "DISAGREE shard $k"; bad=$((bad+1))
  fi
  n=$((n+1))
done
echo "shards=$n disagreeing=$bad"
[ $bad -eq 0 ]
