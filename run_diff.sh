#!/bin/sh
# usage: run_diff.sh <prefix> <dir>   compares driver output with impl answers for every shard
P=$1; D=$2; bad=0; n=0
for f in $D/$P.cases.*.txt; do
  k=${f##*.cases.}; k=${k%.txt}
  if ! /work/c12/ocaml/_build/default/driver.exe < $f | cmp -s - $D/$P.impl.$k.txt; then
    echo "DISAGREE shard $k"; bad=$((bad+1))
  fi
  n=$((n+1))
done
echo "shards=$n disagreeing=$bad"
