#!/bin/sh
# compile one file of the project; prints EXIT <code> when coqc did not succeed (124 = timeout)
cd $(dirname $0)/../coq
timeout ${2:-900} coqc -Q . RV -w -notation-overridden,-deprecated-hint-without-locality,-deprecated-instance-without-locality "$1" > /tmp/cq.out 2>&1
rc=$?
grep -v "^WARNING conda" /tmp/cq.out | head -${3:-60}
[ $rc -ne 0 ] && echo "EXIT $rc"
exit 0
