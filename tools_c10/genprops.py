#!/usr/bin/env python3
# Generate the pinned statements of Props/C10.v from the proof files: the statement text is
# copied verbatim (binders turned into a forall), so Props/C10.v states every theorem in full.
import re,sys
def extract(path, names):
    s=open(path).read()
    out={}
    for n in names:
        m=re.search(r'^(?:Theorem|Corollary|Lemma) '+re.escape(n)+r'\b([^:]*?):(.*?)\nProof\.', s, re.S|re.M)
        if not m: raise SystemExit("missing "+n)
        binders=m.group(1).strip(); body=m.group(2).strip()
        assert body.endswith('.'), n
        body=body[:-1]
        if binders: body="forall "+binders+",\n  "+body
        else: body="  "+body
        out[n]=body
    return out
if __name__=="__main__":
    spec=sys.argv[1]  # file with lines: path name | comment lines starting with '#' copied as Coq comments
    res=[]
    for line in open(spec):
        line=line.rstrip('\n')
        if not line.strip(): res.append(""); continue
        if line.startswith('#'):
            res.append("(* "+line[1:].strip()+" *)"); continue
        if line.startswith('!'):
            res.append(line[1:]); continue
        path,name=line.split()
        st=extract(path,[name])[name]
        res.append("Theorem C10_%s :\n  %s.\nProof. exact %s. Qed.\nPrint Assumptions C10_%s.\n"%(name,st,name,name))
    print("\n".join(res))
