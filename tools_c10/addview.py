#!/usr/bin/env python3
# insert the chunk given on stdin before the final "End View." of M/RaftProofsC10Star.v
import sys
p='/work/c10c/coq/M/RaftProofsC10Star.v'
s=open(p).read().rstrip()
assert s.endswith("End View.")
s=s[:-len("End View.")].rstrip()+"\n"+sys.stdin.read().rstrip()+"\n\nEnd View.\n"
open(p,'w').write(s)
