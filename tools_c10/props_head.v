(* C10 — Progress after stabilisation: leader elected, logs converge, proposals commit.
   Only pinned statements (generated verbatim from the proof files by
   tools_c10/genprops.py) and non-vacuity Examples; proofs live in M/RaftProofsC10.v,
   M/RaftProofsC10Pair.v, M/RaftProofsC10Star.v and M/RaftProofsC10Prop.v.  The models M/Raft.v, M/Progress.v, M/Inflights.v, M/RaftLog.v
   are taken as given.

   WHAT THE PROPERTY SAYS AND WHAT CAN BE A THEOREM.
   "Within a bounded number of election timeouts exactly one leader exists" depends on the
   DISTRIBUTION of the randomized election timeouts: two candidates may draw equal timeouts
   for ever, so no statement over ALL oracle sequences [r_draws] has that conclusion.  It is
   NOT provable as stated and NOT proved here.  What is deterministic - and proved, per
   step, for every state and every input, or for the pair schedule of section 6 - are the
   mechanisms that exclude a permanent stall.

   PROVED.
   1. heartbeat_response_unsticks (+ heartbeat_response_eq): for a tracked peer, after
      handle_heartbeat_response: paused = false, recent_active = true; in Replicate with a
      full window free_first_one was applied: the count strictly decreases, and the window
      is not full afterwards when no capacity shrink is pending and the capacity is
      positive (free_first_one_spec / _unfull; exactly the head is freed under the
      Inflights invariant with increasing contents: free_first_one_exactly_one); so
      is_paused = false unless the state is Snapshot; maybe_send_append is attempted with
      allow_empty = true iff matched < last_index or a snapshot is requested; every other
      peer and every other field is untouched except the read-index bookkeeping.
      probe_resumes: a Probe peer, PAUSED OR NOT, that answers a heartbeat while behind
      gets the exact MsgAppend (index next_idx-1, its term, the entries from next_idx,
      the commit index) appended to the queue in that same step, provided the two log
      lookups succeed (stated without batch_append; with batching the append is merged
      into a queued MsgAppend for the peer: maybe_send_append_facts).
      probe_resumes_snapshot: if instead the entries / the probe term are compacted away
      or a snapshot was requested, and the storage can produce a snapshot, the MsgSnapshot
      is queued in that step and the peer is tracked in Snapshot state.  (If the snapshot
      is temporarily unavailable nothing is sent but the peer stays un-paused: clause
      "b = false -> pr' = pr1" of maybe_send_append_facts.)
      REMARK (degenerate, not a defect of normal use): with Inflights capacity 0
      (adjust_max_inflight_msgs(_, 0), which the Rust does not validate) a Replicate peer
      is paused for ever: full = (count = cap) holds with count = 0 and free_first_one has
      nothing to free.  With a pending shrink to c < count the window needs
      count - c + 1 heartbeat responses to open.
   2. reject_repairs_next: handle_append_response with m_reject = true, plain (no snapshot
      request).  Probe (or Snapshot) state: the rejection is non-stale iff
      next_idx - 1 = m_index; then next_idx := max (min m_index (npi+1)) (matched+1),
      paused := false, and send_append_to runs at once (reject_repairs_next_probe;
      exact message: reject_reprobes); otherwise only recent_active / committed_index
      change.  repaired_next_bounds: the new next_idx is > matched, never above the old
      one, STRICTLY below it whenever next_idx > matched + 1, equal to matched + 1
      otherwise; the probed index is <= the leader-side hint npi or equals matched.
      Replicate state: non-stale iff m_index > matched; the peer becomes Probe with
      next_idx = matched + 1, empty window, not paused, and an append is sent at once
      (reject_repairs_next_replicate).  Hints: reject_npi_spec (npi <= m_reject_hint; it is
      the largest index <= hint whose leader term is <= the hint term) and
      follower_reject_hint (the follower's hint index is <= min (probed index, own last
      index), carries the own term there, which is <= the leader's term at the probed
      index), both from RaftLog find_conflict_by_term_spec.
      NOT PROVED: the "at most one rejection per term" bound (it needs terms to be
      monotone along both logs, a cluster invariant); the bound proved is linear:
      next_idx - matched strictly decreases.
   3. no Progress state is absorbing: ack_raises_matched (a successful acknowledgement
      above matched sets matched to the acknowledged index in every state, Probe ->
      Replicate, Snapshot -> Probe once the pending snapshot is reached, and the tail of
      the handler never changes matched of any peer), snapshot_state_exits (MsgSnapStatus,
      either result: Snapshot -> paused Probe, un-paused by the next heartbeat response,
      clause 1), unreachable_leaves_replicate, no_progress_state_absorbing (summary).
      (C15 already pins snapshot_resume / snapshot_ack; they are reused.)
   4. election_timeout_fires: on a promotable non-leader that receives nothing, the counter
      goes up by one per tick (tick_election_waits) and after exactly
      max 1 (randomized_election_timeout - election_elapsed) ticks - at most
      max 1 randomized_election_timeout (election_timeout_bound) - the counter is cleared and
      hup runs (tick_election_fires).  hup_campaigns: hup on a promotable (fix 8deb47c) non-leader whose window scan
      (C09 hup_scan, the window of fix a8252b4) finds no unapplied membership change ends
      as PreCandidate (pre_vote), as Candidate of term+1 that voted
      for itself, or as Leader of term+1 (own vote = quorum); never as Follower (the own
      vote cannot lose: vote_result_not_lost).  randomized_timeout_range: reset installs
      the oracle's next draw as randomized_election_timeout and clears both counters
      (model-side fact; the draws are the values thread_rng produced in
      [min_election_timeout, max_election_timeout)).
      The events that set election_elapsed (read off M/Raft.v): reset (every become_X function),
      step_follower on MsgAppend / MsgHeartbeat / MsgSnapshot, granting a MsgRequestVote,
      handle_transfer_leader on the leader, tick_election when it fires, tick_heartbeat
      at the election timeout.  NOT PROVED as a theorem: that no other path changes it.
   5. checkquorum_stepdown: at election_elapsed + 1 >= election_timeout a leader tick
      clears the counter; with check_quorum it steps down (Follower, same term, no leader)
      iff the recently-active set - itself included - is not a quorum
      (active_quorum_spec: a majority of each non-empty half of the joint configuration),
      and otherwise clears every recent_active flag but its own and aborts a pending
      leader transfer.  leader_heartbeats + bcast_heartbeat_eq: when heartbeat_elapsed + 1
      reaches heartbeat_timeout the counter is cleared and exactly one MsgHeartbeat per
      other tracked peer is queued (commit = min (matched, committed), the pending
      read-index context).
   6. pair_convergence (M/RaftProofsC10Pair.v): ONE leader L and ONE follower F of the
      same term under the deterministic lock-step schedule [pair_round]:
        (i) everything L has queued for F is delivered to F, in order, through Raft::step;
        (ii) everything F has queued for L is delivered to L, in order, through Raft::step;
        (iii) both nodes tick once.
      ASSUMED (all stated in the theorem): L's log is well formed (RaftLogProofs.RepInv),
      its entries have non-zero terms, and L still holds it from [matched] on (no compaction
      past what F acknowledged, so no snapshot is needed); no batch_append, no pending
      leader transfer, check_quorum off (with only F answering L would otherwise step down
      when {L,F} is not a quorum), no pending read-index request, heartbeat_timeout >= 1;
      NOTHING IS IN FLIGHT at the start (L has nothing queued for F, F's queue is empty);
      L's Progress for F is Probe or Replicate - paused or not, any next_idx with
      matched < next_idx <= last_index + 1, any window contents - with no snapshot request,
      no pending window shrink and positive window capacity (a Snapshot peer enters this
      set by one status report, clause 3); F's log agrees with L's on [matched, a] and
      holds no entry of L's log above a (a = the exact agreement frontier; F may hold any
      divergent tail; by Raft's Log Matching property the maximal agreeing prefix of a
      follower's log has exactly this form - Log Matching itself is a cluster invariant
      and is not proved here), commit index <= a, no snapshot request pending; F's election timer is
      not due before the first heartbeat (or F is not promotable).  PERSISTENCE is not
      modelled and not needed: at Raft level (below RawNode) replies are queued at once and
      nothing in the exchange reads [persisted].  NO PROPOSAL arrives during the run (L's
      log only moves its commit index).
      CONCLUSION: if (heartbeat_timeout + 2) * ((last - matched) * (last + 3) + last + 2)
      rounds run without a panic (last = last_index L), then L's Progress for F has
      matched = last_index L, F's log agrees with L's up to last_index L, L is still the
      leader and F still a follower of that term.  Mechanism of the proof: a measure
      (last - matched, then Replicate above every Probe value, then next_idx - matched)
      never increases, and goes down within heartbeat_timeout + 2 rounds: a heartbeat is
      queued, its response makes L send an append (clause 1), the append is accepted
      (matched grows) or rejected (next_idx shrinks, or Replicate falls back to Probe:
      clause 2).  Non-vacuity: xp_converges_probe / xp_converges_repl instantiate every
      hypothesis on a concrete pair (paused Probe at next_idx 5; Replicate with a FULL
      window of stale indexes), and xp_run_* compute the 188 rounds: no panic,
      matched = 5, F's log and commit index reach 5.

   7. star_convergence / star_commit_all (M/RaftProofsC10Star.v): the pair theorem lifted to
      ONE leader L and a LIST of followers Fs (distinct ids, voters or learners, all tracked
      by L, same term) under the lock-step schedule [star_round]:
        (i) every message L has queued is delivered to its addressee among Fs, in order;
        (ii) the replies of each follower go back to L, follower after follower in list
             order; (iii) everybody ticks once.
      star_frame (the independence lemma): while L handles a response of ANOTHER follower,
      follower f's Progress keeps its state, its matched and - while probing - its
      next_idx, and the invariant of the pair proof; whatever L queues for f meanwhile is a
      sound MsgAppend, built from (L's log, f's Progress) only.  The stronger wording "never
      changes f's next_idx / window" is FALSE and is refuted by a concrete witness
      (other_response_moves_next_refuted: an acknowledgement of follower 2 advances the
      commit index, bcast_append sends entries 3..5 to the replicating follower 3, whose
      next_idx goes 3 -> 6 and whose window fills); this is harmless: the measure of the
      pair proof ignores next_idx while replicating.  Hence every follower's measure goes
      down independently, every heartbeat_timeout + 2 rounds.
      star_convergence: under the hypotheses of pair_convergence for L (star_leader) and
      for each follower (star_start: nothing in flight, Progress Probe or Replicate in any
      pause / window state, log agreeing up to its frontier, log of L not compacted past its
      matched, ...), if N0 rounds run without a panic, N0 >= (heartbeat_timeout + 2) *
      pair_measure_bound last_index matched_F for EVERY follower F (the MAXIMUM of the pair
      bounds, not their sum), then for every follower: matched = last_index L and its log
      agrees with L's up to last_index L; L is still the leader.
      star_commit_all (the commit clause): if in addition the last entry of L's log has L's
      term (the no-op of become_leader), L's own Progress has matched = last_index (its log
      is persisted - persistence itself is not modelled, this is assumed of the start state
      and is preserved), the voters are L and (some of) the followers, and L's commit index
      is consistent with the Progress map at the start (CommitInv: <= last_index, and
      = last_index if every voter's matched already is), then at the end of the N0 rounds
      committed L = last_index, and after heartbeat_timeout + 1 more rounds every follower's
      commit index is last_index too (heartbeats carry min (matched, committed)).  Quorum
      fact used: when every voter's matched is q, the quorum index of the (joint, with or
      without group commit) configuration is q (mci_all_at); the commit then happens in the
      maybe_commit of the acknowledgement that made the last voter reach q
      (leader_step_CommitInv).  follower_steps_commit: a follower's commit index never goes
      back and reaches the commit index of every heartbeat it handles.
      Non-vacuity: sp_commit_applies instantiates every hypothesis on a 3-node star (leader,
      a follower tracked as a PAUSED probe with a divergent entry, a follower tracked as
      Replicate with a FULL window of stale indexes); sp_run computes the 191 rounds: no
      panic, everybody has the 5 entries and commit index 5.

   8. star_propose_all (M/RaftProofsC10Prop.v): the PROPOSAL clause, at Raft level.  Two
      steps are added to the schedule: the application steps one MsgPropose with a normal
      entry into the leader (prop_msg; step_propose: for a leader that tracks itself, has no
      transfer pending and no uncommitted-size limit, Raft::step appends the stamped entry
      and runs bcast_append), and the leader PERSISTS its unstable entries - what the
      application does with the Ready that carries them - persist_leader =
      MemStorage::append, RaftLog::stable_entries, Raft::on_persist_entries (the three model
      functions, in that order; propose_persist_parts decomposes the two steps and shows
      the log keeps its representation invariant; on_persist_own: the leader's own Progress
      gets matched = last_index + 1).  The followers' persistence is abstracted as in the
      pair theorem.
      star_propose_all: a star that starts as in star_convergence runs its N0 rounds and
      reaches a converged state in which, in addition (all stated as hypotheses on that
      state): the leader's log is well formed with no pending snapshot, it has no
      uncommitted-size limit, its own matched = last_index, EVERY FOLLOWER'S LOG ENDS AT
      THE LEADER'S LAST INDEX (it holds nothing above it - true of a converged follower
      whose last_index equals the leader's; without it an old entry above last_index could
      sit where the new one goes, and the agreement invariant says nothing about it), the
      voters are the leader and some followers, at least one follower is a voter (so that
      the all-voters form of the quorum argument applies: the commit happens when the last
      voter acknowledges).  After propose + persist and N1 + K more star rounds
      (N1 = (heartbeat_timeout + 2) * pair_measure_bound (last_index + 1) matched0 for every
      follower, K >= heartbeat_timeout + 1): committed L = last_index + 1, and for every
      follower matched = last_index + 1, its log agrees with the leader's NEW log up to
      last_index + 1 (same term at the new index) and its commit index is last_index + 1.
      The invariant form (from any state satisfying the star invariant) is star_propose in
      the proof file.  Agreement is on (index, term); that the DATA of the entry is the
      proposed one follows from Raft's Log Matching and is shown on the example only.
      Non-vacuity: C10_propose_applies instantiates every hypothesis on the 3-node star
      after its 191 rounds; C10_propose_run computes propose + persist + 251 rounds: entry 6
      with data [42] is in all three logs and committed everywhere.
      HAND-OUT (remark, not re-proved here): once the commit index has moved, RawNode::ready
      hands the application exactly the committed, persisted, not yet applied entries
      (C07_handout_range, C07_handout_abs, C07_handout_persisted_only, C07_handout_bound),
      so the new entry is handed out on every member at its next Ready.

   NOT PROVED (beyond the items marked above).
   * the probabilistic clause: eventually exactly one leader (see top);
   * whole-cluster convergence BEYOND the star: the followers only talk to the leader
     (no second leader, no candidate, no message between followers);
   * the proposal clause with a majority only (a voter that never answers): the commit
     argument used is the all-voters form; with several proposals in flight; with an
     uncommitted-size limit; with conf-change entries; the equality of the entry DATA on
     the followers (only index and term are tracked); the RawNode-level schedule
     (Ready / persist / advance / apply) - the hand-out is cited from C07, not composed
     with the run;
   * the pair / star theorems with messages already in flight at the start, with
     batch_append, with check_quorum, with pending read-index requests, with a compacted
     leader log (snapshot path inside the run), with a pending window shrink;
   * "within a bounded number of ELECTION timeouts": the bounds are in rounds (ticks),
     quadratic in last_index; no attempt at the tight bound. *)
From RV Require Import Base.Prelude Base.IdSet M.Util M.Proto M.MemStorage M.MemStorageProofs
  M.Inflights M.InflightsProofs M.Progress M.RaftLog M.RaftLogProofs M.Quorum M.ConfChange
  M.Msg M.Raft M.RaftProofs M.RaftProofsC15 M.RaftProofsC09 M.RaftProofsC10 M.RaftProofsC10Pair
  M.RaftProofsC10Star M.RaftProofsC10Prop.
From RV Require M.QuorumProofs.
From RecordUpdate Require Import RecordSet.
Import RecordSetNotations.
Local Open Scope N_scope.

