
(* ---- non-vacuity ---- *)

(* 6: every hypothesis of pair_convergence holds of a concrete pair: leader 1 (term 2,
   entries 1..5 of terms 1,1,2,2,2) and follower 2 (entries 1..3 of terms 1,1,1: entry 3
   diverges, agreement frontier 2), the leader tracking the follower as a PAUSED probe at
   next_idx 5 ... *)
Example C10_pair_convergence_applies_probe :
  forall L' F', rounds 188 (xp_L xp_pr_probe) xp_F = Ok (L', F') ->
  exists pr', get_pr L' 2 = Some pr' /\ matched pr' = 5 /\
    Agree (abs xp_logL) (abs (r_log F')) 0 5 /\ r_state L' = Leader /\ r_state F' = Follower.
Proof. exact xp_converges_probe. Qed.

(* ... or as Replicate with a full window of stale indexes and an optimistic next_idx *)
Example C10_pair_convergence_applies_replicate :
  forall L' F', rounds 188 (xp_L xp_pr_repl) xp_F = Ok (L', F') ->
  exists pr', get_pr L' 2 = Some pr' /\ matched pr' = 5 /\
    Agree (abs xp_logL) (abs (r_log F')) 0 5 /\ r_state L' = Leader /\ r_state F' = Follower.
Proof. exact xp_converges_repl. Qed.

(* and the 188 rounds do run without a panic (computed): matched = 5, the follower's log
   and commit index reach 5 *)
Example C10_pair_run_probe :
  exists L' F' pr', rounds 188 (xp_L xp_pr_probe) xp_F = Ok (L', F') /\
    get_pr L' 2 = Some pr' /\ matched pr' = 5 /\ pr_state pr' = Replicate /\
    last_index (r_log F') = 5 /\ committed (r_log F') = 5.
Proof. exact xp_run_probe. Qed.

Example C10_pair_run_replicate :
  exists L' F' pr', rounds 188 (xp_L xp_pr_repl) xp_F = Ok (L', F') /\
    get_pr L' 2 = Some pr' /\ matched pr' = 5 /\ pr_state pr' = Replicate /\
    last_index (r_log F') = 5 /\ committed (r_log F') = 5.
Proof. exact xp_run_repl. Qed.

(* 1: a paused Probe peer answers a heartbeat: the append goes out in that step *)
Example C10_probe_resumes_example :
  exists r' x,
    handle_heartbeat_response (xp_L xp_pr_probe)
      (msg_default <| m_type := MsgHeartbeatResponse |> <| m_from := 2 |> <| m_to := 1 |>
                   <| m_term := 2 |>) = Ok r' /\
    r_msgs r' = [x] /\ m_type x = MsgAppend /\ m_to x = 2 /\ m_index x = 4 /\ m_log_term x = 2 /\
    length (m_entries x) = 1%nat /\
    option_map paused (get_pr r' 2) = Some true.
Proof. vm_compute. do 2 eexists. repeat split; reflexivity. Qed.

(* 1: a Replicate peer with a full window answers a heartbeat: one slot is freed *)
Example C10_full_window_example :
  exists r' p,
    handle_heartbeat_response (xp_L xp_pr_repl)
      (msg_default <| m_type := MsgHeartbeatResponse |> <| m_from := 2 |> <| m_to := 1 |>
                   <| m_term := 2 |>) = Ok r' /\
    Inflights.full (ins xp_pr_repl) = true /\
    get_pr r' 2 = Some p /\ pr_state p = Replicate /\ length (r_msgs r') = 1%nat.
Proof. vm_compute. do 2 eexists. repeat split; reflexivity. Qed.

(* 2: a non-stale rejection in Probe state lowers next_idx from 5 to 3 (hint 2) and
   re-probes at index 2 in the same step *)
Example C10_reject_example :
  exists r' x p,
    handle_append_response (xp_L (resume xp_pr_probe))
      (msg_default <| m_type := MsgAppendResponse |> <| m_from := 2 |> <| m_to := 1 |>
                   <| m_term := 2 |> <| m_index := 4 |> <| m_reject := true |>
                   <| m_reject_hint := 3 |> <| m_log_term := 1 |>) = Ok r' /\
    r_msgs r' = [x] /\ m_type x = MsgAppend /\ m_index x = 2 /\
    get_pr r' 2 = Some p /\ next_idx p = 3 /\ paused p = true.
Proof. vm_compute. do 3 eexists. repeat split; reflexivity. Qed.

(* 4: fifteen ticks on the follower (randomized timeout 15) end in a campaign *)
Example C10_election_timeout_example :
  exists r', ticks 15 (xp_F <| r_draws := [17] |>) = Ok r' /\ r_state r' = Candidate /\ r_term r' = 3 /\
             r_randomized_election_timeout r' = 17.
Proof. vm_compute. eexists. repeat split; reflexivity. Qed.

(* 5: a leader with check_quorum whose peer has not been heard from steps down at the
   election timeout *)
Example C10_checkquorum_example :
  exists r' b,
    tick (xp_L xp_pr_probe <| r_check_quorum := true |> <| r_election_elapsed := 9 |>
                           <| r_draws := [12] |>) = Ok (r', b) /\
    r_state r' = Follower /\ r_term r' = 2 /\ r_leader_id r' = 0.
Proof. vm_compute. do 2 eexists. repeat split; reflexivity. Qed.

(* 5: a leader tick that reaches heartbeat_timeout queues the heartbeat *)
Example C10_heartbeat_example :
  exists r' b x,
    tick (xp_L xp_pr_probe <| r_heartbeat_elapsed := 1 |>) = Ok (r', b) /\
    r_msgs r' = [x] /\ m_type x = MsgHeartbeat /\ m_to x = 2 /\ r_heartbeat_elapsed r' = 0.
Proof. vm_compute. do 3 eexists. repeat split; reflexivity. Qed.

(* 7: every hypothesis of star_commit_all holds of a concrete 3-node star: leader 1 (term 2,
   entries 1..5 of terms 1,1,2,2,2, nothing committed), follower 2 (entries 1..3, entry 3
   diverging) tracked as a PAUSED probe at next_idx 5, follower 3 (entries 1..2) tracked
   as Replicate with a FULL window of stale indexes;
   191 = (heartbeat_timeout + 2) * pair_measure_bound 5 0 + heartbeat_timeout + 1 *)
Example C10_star_commit_applies :
  forall L' Fs', star_rounds (188 + 3) sp_L [sp_F2; sp_F3] = Ok (L', Fs') ->
  committed (r_log L') = 5 /\
  Forall2 (fun F F' => star_done sp_L L' F F' /\ committed (r_log F') = 5) [sp_F2; sp_F3] Fs'.
Proof. exact sp_commit_applies. Qed.

(* and the 191 rounds do run without a panic (computed): everybody has the whole log and
   has committed it *)
Example C10_star_run :
  exists L' F2' F3' p2 p3,
    star_rounds (188 + 3) sp_L [sp_F2; sp_F3] = Ok (L', [F2'; F3']) /\
    committed (r_log L') = 5 /\
    get_pr L' 2 = Some p2 /\ matched p2 = 5 /\ get_pr L' 3 = Some p3 /\ matched p3 = 5 /\
    last_index (r_log F2') = 5 /\ committed (r_log F2') = 5 /\
    last_index (r_log F3') = 5 /\ committed (r_log F3') = 5.
Proof. exact sp_run. Qed.

(* 8: the 3-node star, continued: after its 191 rounds (state pp_Lc, pp_Fsc) every hypothesis
   of star_propose_all holds; 251 = (heartbeat_timeout + 2) * pair_measure_bound 6 0 +
   heartbeat_timeout + 1 *)
Example C10_propose_applies :
  forall L2 L' Fs',
  propose_persist pp_Lc [42] = Ok L2 ->
  star_rounds (248 + 3) L2 pp_Fsc = Ok (L', Fs') ->
  committed (r_log L') = last_index (r_log sp_L) + 1 /\
  Forall2 (prop_done sp_L pp_Lc [42] L') pp_Fsc Fs'.
Proof. exact pp_applies. Qed.

(* and it all runs (computed): the first run, propose + persist, the second run; the proposed
   entry (data [42]) is entry 6 of all three logs and everybody has committed it *)
Example C10_propose_run :
  star_rounds (188 + 3) sp_L [sp_F2; sp_F3] = Ok (pp_Lc, pp_Fsc) /\
  propose_persist pp_Lc [42] = Ok pp_L2 /\
  star_rounds (248 + 3) pp_L2 pp_Fsc = Ok pp_end /\
  committed (r_log (fst pp_end)) = 6 /\
  map (fun F => log_entries (r_log F) 6 None) (fst pp_end :: snd pp_end) =
    [Ok (SOk [mkEntry EntryNormal 2 6 [42] []]); Ok (SOk [mkEntry EntryNormal 2 6 [42] []]);
     Ok (SOk [mkEntry EntryNormal 2 6 [42] []])] /\
  map (fun F => committed (r_log F)) (snd pp_end) = [6; 6] /\
  map r_id (snd pp_end) = [2; 3].
Proof. split; [exact pp_mid_ok|]. split; [exact pp_L2_ok|exact pp_run]. Qed.
