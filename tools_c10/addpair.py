#!/usr/bin/env python3
# insert the chunk given on stdin before the final "End Pair." of M/RaftProofsC10Pair.v
import sys
p='/work/c10c/coq/M/RaftProofsC10Pair.v'
s=open(p).read().rstrip()
assert s.endswith("End Pair.")
s=s[:-len("End Pair.")].rstrip()+"\n"+sys.stdin.read().rstrip()+"\n\nEnd Pair.\n"
open(p,'w').write(s)
