#!/bin/sh
# compile one file of the project
cd /work/c10/coq && timeout ${2:-900} coqc -Q . RV -w -notation-overridden,-deprecated-hint-without-locality,-deprecated-instance-without-locality "$1" 2>&1 | grep -v "^WARNING conda" | head -${3:-60}
