"""Per-property check specifications."""

TB_COMMON = [
    "Coq 8.16.1 kernel (coqc, full .vo builds); vm_compute used for Examples and the in-Coq correspondence sample; native_compute not used",
    "no axioms: every pinned theorem prints 'Closed under the global context' (checked on every run)",
    "hand-written Gallina model tied to /repo by differential execution on every run (not a translation of the Rust)",
    "extraction: Extraction Language OCaml + ExtrOcamlBasic only (bool, option, unit, list, prod, sumbool mapped to OCaml's); no Extract Constant / Extract Inductive of ours; OCaml 4.13.1; ocaml/driver.ml (decimal text <-> extracted N)",
    "Rust harness /verif/harness (drivers, catch_unwind, panic-message -> site mapping), built against /repo's working tree with --cfg tikv_raft_rs_verif",
]

NOT_YET = {}

SPECS = {
    "C18": {
        "id": "C18", "kind": "component", "component": "inflights",
        "run_module": "Run.RunInflights", "runfun": "run_inflights",
        "gens": [
            {"prefix": "inflights-exh", "args": {"quick": ["--mode", "exhaustive", "--depth", "5"],
                                                  "thorough": ["--mode", "exhaustive", "--depth", "6"]}},
            {"prefix": "inflights-rnd", "args": {"quick": ["--mode", "random", "--count", "600", "--len", "300"],
                                                  "thorough": ["--mode", "random", "--count", "6000", "--len", "400"]}},
        ],
        "incoq": {"quick": 150, "thorough": 600},
        "nontrivial_tokens": 7,
        "rule": "cases = every operation sequence (add next index | free_to k for all k up to last+1 | free_first_one | reset | set_cap 0..4 | maybe_free_buffer) of length <= depth from capacities 0..3 (prefix-closed, exhaustive for that scope), plus seeded random length-300 sequences with capacities <= 12 biased to fill and wrap the ring; a case is non-trivial when it has >= 2 operations; distinct = distinct case lines; every case compares the full private state (start,count,cap,incoming_cap,allocated,buffer) and full() of raft::Inflights with the model, panics included",
        "explanation": "Theorems (all capacities, all histories, unbounded): Props/C18.v. Tie: lockstep differential of M/Inflights.v (extracted) against raft::Inflights on every run, plus a vm_compute re-evaluation of a sample inside Coq.",
        "trusted_base": TB_COMMON + ["Inflights private fields read from its derived Debug output; buffer_is_allocated()/full()/count() public accessors",
                                     "modelled not verified: src/tracker/inflights.rs (all of it). Vec capacity modelled as a boolean (allocated)"],
        "manifest": {
            "technique": "machine-checked proof in Coq (refinement of a bounded-FIFO spec, induction over histories) + model/implementation correspondence by differential execution",
            "text": "Props/C18.v: for every capacity and every operation history (unbounded) the Inflights model never panics (add only when not full), keeps its representation invariant and refines a bounded FIFO with deferred shrink: count/full match, free_to removes exactly the longest prefix <= to, resizing/releasing loses or reorders nothing, a reduced capacity governs fullness at once and is installed when the window drains. The model is tied to src/tracker/inflights.rs on every run by an exhaustive small-scope + random lockstep differential over the full private state, panics included.",
            "design_ref": "DESIGN.md section 7, C18",
            "note": "Trusted: Coq kernel; hand-written model validated against the code by differential execution (not a translation); extraction (ExtrOcamlBasic) + OCaml driver cross-checked by vm_compute; Rust harness; debug-build semantics. No axioms.",
        },
        "assumptions": ["debug-build semantics (debug_assert! active)", "add is only called on a non-full window (documented precondition); the panic when full is modelled and compared"],
    },
    "C11": {
        "id": "C11", "kind": "component", "component": "quorum",
        "run_module": "Run.RunQuorum", "runfun": "run_quorum",
        "gens": [
            {"prefix": "quorum-exh", "args": {"quick": ["--mode", "exhaustive", "--depth", "3"],
                                               "thorough": ["--mode", "exhaustive", "--depth", "4"]}},
            {"prefix": "quorum-rnd", "args": {"quick": ["--mode", "random", "--count", "60000"],
                                               "thorough": ["--mode", "random", "--count", "600000"]}},
        ],
        "incoq": {"quick": 150, "thorough": 600},
        "nontrivial_tokens": 8,
        "rule": "cases = (exhaustive) every incoming/outgoing voter subset of {1..4} with every overlap and empty halves, acked indexes 0..3, groups 0..2, missing acks, vote maps over {yes,no,missing}, up to the tier's depth; (random) 0-9 ids per half (the >7-voter heap path), indexes incl. 0, u64::MAX, ties, groups 0..3; each case evaluates MajorityConfig / JointConfig / ProgressTracker commit index (group commit off and on), vote_result, tally_votes, has_quorum on the real types in the implementation's own hash iteration order and compares with the model; non-trivial = at least one voter; distinct = distinct case lines",
        "explanation": "Theorems for voter lists of any size: Props/C11.v (46 statements: exact commit index for simple and joint configs, permutation invariance, vote results, quorum intersection, group commit characterisation). Tie: lockstep differential of M/Quorum.v against raft::{MajorityConfig, JointConfig, ProgressTracker} on every run + vm_compute sample.",
        "trusted_base": TB_COMMON + ["hash iteration order is passed from the implementation (raw_slice / to_conf_state) to the model as the voter list order; theorems hold for every order",
                                     "modelled not verified: src/quorum/majority.rs, src/quorum/joint.rs, util::majority, ProgressTracker::{maximal_committed_index,tally_votes,vote_result,has_quorum,record_vote}; the MaybeUninit stack array of committed_index is memory-level and outside the model"],
        "manifest": {
            "technique": "machine-checked proof in Coq (counting/pigeonhole over lists, stable-sort lemmas, permutation invariance) + model/implementation correspondence by differential execution",
            "text": "Props/C11.v (46 pinned theorems, voter sets of any size): the computed commit index is exactly the largest index acknowledged by a majority of each non-empty half (simple and joint), invariant under the hash iteration order; vote results are won/lost/pending exactly by the majority counts, joint = both/either; two deciding quorums intersect (also vote-quorum vs commit-witness); group commit never exceeds the plain index and is fully characterised (all-grouped: largest plain-bounded index spanning two groups). The model M/Quorum.v is tied to src/quorum/*.rs and the ProgressTracker tallies on every run by exhaustive small-scope + random differential in the implementation's own iteration order.",
            "design_ref": "DESIGN.md section 7, C11",
            "note": "Trusted: Coq kernel; hand-written model validated by differential execution; extraction + OCaml driver cross-checked by vm_compute; Rust harness. The MaybeUninit stack array in committed_index is memory-level and not modelled. No axioms.",
        },
        "assumptions": ["u64 indexes (<= 2^64-1) for the joint 'largest' statement"],
    },
    "C14": {
        "id": "C14", "kind": "component", "component": "raftlog",
        "run_module": "Run.RunRaftLog", "runfun": "run_raftlog",
        "gens": [
            {"prefix": "raftlog-exh", "args": {"quick": ["--mode", "exhaustive", "--depth", "4"],
                                                "thorough": ["--mode", "exhaustive", "--depth", "5"]}},
            {"prefix": "raftlog-rnd", "args": {"quick": ["--mode", "random", "--count", "2000", "--len", "150"],
                                                "thorough": ["--mode", "random", "--count", "20000", "--len", "200"]}},
        ],
        "incoq": {"quick": 120, "thorough": 500},
        "nontrivial_tokens": 10,
        "rule": "cases = (exhaustive) breadth-first over every distinct full state (RaftLog pub fields + MemStorage contents) reachable within depth-1 operations from 5 initial stores (empty, 2-3 entries with terms <= 3, snapshot points), log length <= 5; from every such state one case per operation of the full alphabet (append / maybe_append with agreeing and conflicting entries at every index from first-1 to last+2, i.e. every position relative to unstable.offset / persisted / committed; commit_to, maybe_commit, applied_to, stable_entries, stable_snap, restore, maybe_persist, maybe_persist_snap, storage append/apply_snapshot/compact/commit_to, restart, raw Unstable::truncate_and_append, non-contiguous and out-of-contract arguments) and a query battery (term, match_term, find_conflict, find_conflict_by_term for every index and term 0..3, is_up_to_date, slice for every lo<=hi with size limits 0 / each prefix-sum boundary -1,+0,+1 / NO_LIMIT, entries, next_entries* under limits 0,1,u64::MAX-1,u64::MAX, snapshot, commit_info, Unstable::{maybe_term,slice,must_check_outofbounds}); (random) seeded Ready-contract sequences of 150-200 operations with data lengths 0..160 (two thirds fully valid, one third with occasional invalid choices) + a malformed stream (u64::MAX / 2^63 arguments). Every case compares each operation's result (value / storage error code / panic site) and after every mutator the full state dump incl. all logical entries via slice; non-trivial = at least one operation; distinct = distinct case lines",
        "explanation": "Theorems for all states and all operation sequences (unbounded): Props/C14.v (72 statements: abs/RepInv, every query = plain-sequence definition, every mutator = list operation preserving RepInv, slice = limit_size of the plain range with the non-empty maximal prefix property, committed_immutable with the exact fatal cases, persisted_sound, history invariants, refuted variants with witnesses). Tie: lockstep differential of M/RaftLog.v (over M/MemStorage.v) against raft::RaftLog<MemStorage> on every run + vm_compute sample; independent plain-sequence monitor (vharness raftlog --mode monitor) used for searching a failing input.",
        "trusted_base": TB_COMMON + ["RaftLog/Unstable pub fields and MemStorage public API read directly; panic sites identified by message text and enclosing function of the panic location",
                                     "modelled not verified: src/raft_log.rs, src/log_unstable.rs (all pub methods; scan specialised), util::limit_size, entry compute_size; model assumption: indexes held in the log are < 2^64-1-length so the unchecked index+1 / offset+len additions do not wrap (caller-supplied arithmetic is modelled with overflow sites)"],
        "manifest": {
            "technique": "machine-checked proof in Coq (abstraction function to a plain sequence, representation invariant, per-operation refinement, induction over histories) + model/implementation correspondence by differential execution",
            "text": "Props/C14.v (72 pinned theorems, all states / all operation sequences): with abs = storage entries below unstable.offset ++ unstable entries (base from the pending snapshot else the storage) and a representation invariant established by RaftLog::new, every query (term, first/last index, match_term, find_conflict, find_conflict_by_term incl. termination of its loop, is_up_to_date, slice, entries, next_entries_since, commit_info) equals its plain-sequence definition; append / maybe_append / commit_to / maybe_commit / applied_to / restore / stable_entries+storage append / stable_snap+apply_snapshot / maybe_persist(_snap) / compaction <= applied act as the obvious list operations and preserve the invariant, so along every history applied <= committed <= last, persisted <= storage last with matching terms, commit index and base are monotone and no entry at or below any earlier commit index changes; size-limited reads return a non-empty maximal prefix; the fatal cases are exactly append-below-commit and conflict-at-or-below-commit. Refuted (with witnesses): a raw truncating append at or below persisted keeps persisted; maybe_persist_snap before the snapshot reached the storage; stable_entries before the storage write; persisted+limit overflow. The model is tied to src/raft_log.rs + src/log_unstable.rs on every run by exhaustive small-scope + random differential over results, panic sites and full state.",
            "design_ref": "DESIGN.md section 7, C14",
            "note": "Trusted: Coq kernel; hand-written model validated by differential execution; extraction + OCaml driver cross-checked by vm_compute; Rust harness; debug-build semantics; MemStorage as the conforming Storage (its model is C19's). No axioms.",
        },
        "assumptions": ["debug-build semantics", "stored indexes < 2^64-1-length (no wrap of index+1)", "storage test triggers (trigger_log_unavailable / trigger_snap_unavailable) off", "Ready contract order: storage write before stable_entries / stable_snap (the async order is outside the invariant; witness stable_before_write_refuted)"],
    },
}
