"""Per-property check specifications."""

TB_COMMON = [
    "Coq 8.16.1 kernel (coqc, full .vo builds); vm_compute used for Examples and the in-Coq correspondence sample; native_compute not used",
    "no axioms: every pinned theorem prints 'Closed under the global context' (checked on every run)",
    "hand-written Gallina model tied to /repo by differential execution on every run (not a translation of the Rust)",
    "extraction: Extraction Language OCaml + ExtrOcamlBasic only (bool, option, unit, list, prod, sumbool mapped to OCaml's); no Extract Constant / Extract Inductive of ours; OCaml 4.13.1; ocaml/driver.ml (decimal text <-> extracted N)",
    "Rust harness /verif/harness (drivers, catch_unwind, panic-message -> site mapping), built against /repo's working tree with --cfg tikv_raft_rs_verif",
]

SPECS = {
    "C18": {
        "id": "C18", "kind": "component", "component": "inflights",
        "run_module": "Run.RunInflights", "runfun": "run_inflights",
        "gens": [
            {"prefix": "inflights-exh", "args": {"quick": ["--mode", "exhaustive", "--depth", "5"],
                                                  "thorough": ["--mode", "exhaustive", "--depth", "6"]}},
            {"prefix": "inflights-rnd", "args": {"quick": ["--mode", "random", "--count", "600", "--len", "300"],
                                                  "thorough": ["--mode", "random", "--count", "6000", "--len", "400"]}},
        ],
        "incoq": {"quick": 150, "thorough": 600},
        "nontrivial_tokens": 7,
        "rule": "cases = every operation sequence (add next index | free_to k for all k up to last+1 | free_first_one | reset | set_cap 0..4 | maybe_free_buffer) of length <= depth from capacities 0..3 (prefix-closed, exhaustive for that scope), plus seeded random length-300 sequences with capacities <= 12 biased to fill and wrap the ring; a case is non-trivial when it has >= 2 operations; distinct = distinct case lines; every case compares the full private state (start,count,cap,incoming_cap,allocated,buffer) and full() of raft::Inflights with the model, panics included",
        "explanation": "Theorems (all capacities, all histories, unbounded): Props/C18.v. Tie: lockstep differential of M/Inflights.v (extracted) against raft::Inflights on every run, plus a vm_compute re-evaluation of a sample inside Coq.",
        "trusted_base": TB_COMMON + ["Inflights private fields read from its derived Debug output; buffer_is_allocated()/full()/count() public accessors",
                                     "modelled not verified: src/tracker/inflights.rs (all of it). Vec capacity modelled as a boolean (allocated)"],
        "assumptions": ["debug-build semantics (debug_assert! active)", "add is only called on a non-full window (documented precondition); the panic when full is modelled and compared"],
    },
}
