"""Per-property check specifications."""

TB_COMMON = [
    "Coq 8.16.1 kernel (coqc, full .vo builds); vm_compute used for Examples and the in-Coq correspondence sample; native_compute not used",
    "no axioms: every pinned theorem prints 'Closed under the global context' (checked on every run)",
    "hand-written Gallina model tied to /repo by differential execution on every run (not a translation of the Rust)",
    "extraction: Extraction Language OCaml + ExtrOcamlBasic only (bool, option, unit, list, prod, sumbool mapped to OCaml's); no Extract Constant / Extract Inductive of ours; OCaml 4.13.1; ocaml/driver.ml (decimal text <-> extracted N)",
    "Rust harness /verif/harness (drivers, catch_unwind, panic-message -> site mapping), built against /repo's working tree with --cfg tikv_raft_rs_verif",
]

NOT_YET = {}
# specs present but not claimed right now (proofs under repair after a cross-branch model change)
DISABLED = set()

SPECS = {
    "C18": {
        "id": "C18", "kind": "component", "component": "inflights",
        "run_module": "Run.RunInflights", "runfun": "run_inflights",
        "gens": [
            {"prefix": "inflights-exh", "args": {"quick": ["--mode", "exhaustive", "--depth", "5"],
                                                  "thorough": ["--mode", "exhaustive", "--depth", "6"]}},
            {"prefix": "inflights-rnd", "args": {"quick": ["--mode", "random", "--count", "600", "--len", "300"],
                                                  "thorough": ["--mode", "random", "--count", "6000", "--len", "400"]}},
        ],
        "incoq": {"quick": 150, "thorough": 600},
        "nontrivial_tokens": 7,
        "rule": "cases = every operation sequence (add next index | free_to k for all k up to last+1 | free_first_one | reset | set_cap 0..4 | maybe_free_buffer) of length <= depth from capacities 0..3 (prefix-closed, exhaustive for that scope), plus seeded random length-300 sequences with capacities <= 12 biased to fill and wrap the ring; a case is non-trivial when it has >= 2 operations; distinct = distinct case lines; every case compares the full private state (start,count,cap,incoming_cap,allocated,buffer) and full() of raft::Inflights with the model, panics included",
        "explanation": "Theorems (all capacities, all histories, unbounded): Props/C18.v. Tie: lockstep differential of M/Inflights.v (extracted) against raft::Inflights on every run, plus a vm_compute re-evaluation of a sample inside Coq.",
        "trusted_base": TB_COMMON + ["Inflights private fields read from its derived Debug output; buffer_is_allocated()/full()/count() public accessors",
                                     "modelled not verified: src/tracker/inflights.rs (all of it). Vec capacity modelled as a boolean (allocated)"],
        "manifest": {
            "technique": "machine-checked proof in Coq (refinement of a bounded-FIFO spec, induction over histories) + model/implementation correspondence by differential execution",
            "text": "Props/C18.v: for every capacity and every operation history (unbounded) the Inflights model never panics (add only when not full), keeps its representation invariant and refines a bounded FIFO with deferred shrink: count/full match, free_to removes exactly the longest prefix <= to, resizing/releasing loses or reorders nothing, a reduced capacity governs fullness at once and is installed when the window drains. The model is tied to src/tracker/inflights.rs on every run by an exhaustive small-scope + random lockstep differential over the full private state, panics included.",
            "design_ref": "DESIGN.md section 7, C18",
            "note": "Trusted: Coq kernel; hand-written model validated against the code by differential execution (not a translation); extraction (ExtrOcamlBasic) + OCaml driver cross-checked by vm_compute; Rust harness; debug-build semantics. No axioms.",
        },
        "assumptions": ["debug-build semantics (debug_assert! active)", "add is only called on a non-full window (documented precondition); the panic when full is modelled and compared"],
    },
    "C11": {
        "id": "C11", "kind": "component", "component": "quorum",
        "run_module": "Run.RunQuorum", "runfun": "run_quorum",
        "gens": [
            {"prefix": "quorum-exh", "args": {"quick": ["--mode", "exhaustive", "--depth", "3"],
                                               "thorough": ["--mode", "exhaustive", "--depth", "4"]}},
            {"prefix": "quorum-rnd", "args": {"quick": ["--mode", "random", "--count", "60000"],
                                               "thorough": ["--mode", "random", "--count", "600000"]}},
        ],
        "incoq": {"quick": 150, "thorough": 600},
        "nontrivial_tokens": 8,
        "rule": "cases = (exhaustive) every incoming/outgoing voter subset of {1..4} with every overlap and empty halves, acked indexes 0..3, groups 0..2, missing acks, vote maps over {yes,no,missing}, up to the tier's depth; (random) 0-9 ids per half (the >7-voter heap path), indexes incl. 0, u64::MAX, ties, groups 0..3; each case evaluates MajorityConfig / JointConfig / ProgressTracker commit index (group commit off and on), vote_result, tally_votes, has_quorum on the real types in the implementation's own hash iteration order and compares with the model; non-trivial = at least one voter; distinct = distinct case lines",
        "explanation": "Theorems for voter lists of any size: Props/C11.v (46 statements: exact commit index for simple and joint configs, permutation invariance, vote results, quorum intersection, group commit characterisation). Tie: lockstep differential of M/Quorum.v against raft::{MajorityConfig, JointConfig, ProgressTracker} on every run + vm_compute sample.",
        "trusted_base": TB_COMMON + ["hash iteration order is passed from the implementation (raw_slice / to_conf_state) to the model as the voter list order; theorems hold for every order",
                                     "modelled not verified: src/quorum/majority.rs, src/quorum/joint.rs, util::majority, ProgressTracker::{maximal_committed_index,tally_votes,vote_result,has_quorum,record_vote}; the MaybeUninit stack array of committed_index is memory-level and outside the model"],
        "manifest": {
            "technique": "machine-checked proof in Coq (counting/pigeonhole over lists, stable-sort lemmas, permutation invariance) + model/implementation correspondence by differential execution",
            "text": "Props/C11.v (46 pinned theorems, voter sets of any size): the computed commit index is exactly the largest index acknowledged by a majority of each non-empty half (simple and joint), invariant under the hash iteration order; vote results are won/lost/pending exactly by the majority counts, joint = both/either; two deciding quorums intersect (also vote-quorum vs commit-witness); group commit never exceeds the plain index and is fully characterised (all-grouped: largest plain-bounded index spanning two groups). The model M/Quorum.v is tied to src/quorum/*.rs and the ProgressTracker tallies on every run by exhaustive small-scope + random differential in the implementation's own iteration order.",
            "design_ref": "DESIGN.md section 7, C11",
            "note": "Trusted: Coq kernel; hand-written model validated by differential execution; extraction + OCaml driver cross-checked by vm_compute; Rust harness. The MaybeUninit stack array in committed_index is memory-level and not modelled. No axioms.",
        },
        "assumptions": ["u64 indexes (<= 2^64-1) for the joint 'largest' statement"],
    },
    "C14": {
        "id": "C14", "kind": "component", "component": "raftlog",
        "run_module": "Run.RunRaftLog", "runfun": "run_raftlog",
        "gens": [
            {"prefix": "raftlog-exh", "args": {"quick": ["--mode", "exhaustive", "--depth", "4"],
                                                "thorough": ["--mode", "exhaustive", "--depth", "5"]}},
            {"prefix": "raftlog-rnd", "args": {"quick": ["--mode", "random", "--count", "2000", "--len", "150"],
                                                "thorough": ["--mode", "random", "--count", "20000", "--len", "200"]}},
        ],
        "incoq": {"quick": 120, "thorough": 500},
        "nontrivial_tokens": 10,
        "rule": "cases = (exhaustive) breadth-first over every distinct full state (RaftLog pub fields + MemStorage contents) reachable within depth-1 operations from 5 initial stores (empty, 2-3 entries with terms <= 3, snapshot points), log length <= 5; from every such state one case per operation of the full alphabet (append / maybe_append with agreeing and conflicting entries at every index from first-1 to last+2, i.e. every position relative to unstable.offset / persisted / committed; commit_to, maybe_commit, applied_to, stable_entries, stable_snap, restore, maybe_persist, maybe_persist_snap, storage append/apply_snapshot/compact/commit_to, restart, raw Unstable::truncate_and_append, non-contiguous and out-of-contract arguments) and a query battery (term, match_term, find_conflict, find_conflict_by_term for every index and term 0..3, is_up_to_date, slice for every lo<=hi with size limits 0 / each prefix-sum boundary -1,+0,+1 / NO_LIMIT, entries, next_entries* under limits 0,1,u64::MAX-1,u64::MAX, snapshot, commit_info, Unstable::{maybe_term,slice,must_check_outofbounds}); (random) seeded Ready-contract sequences of 150-200 operations with data lengths 0..160 (two thirds fully valid, one third with occasional invalid choices) + a malformed stream (u64::MAX / 2^63 arguments). Every case compares each operation's result (value / storage error code / panic site) and after every mutator the full state dump incl. all logical entries via slice; non-trivial = at least one operation; distinct = distinct case lines",
        "explanation": "Theorems for all states and all operation sequences (unbounded): Props/C14.v (72 statements: abs/RepInv, every query = plain-sequence definition, every mutator = list operation preserving RepInv, slice = limit_size of the plain range with the non-empty maximal prefix property, committed_immutable with the exact fatal cases, persisted_sound, history invariants, refuted variants with witnesses). Tie: lockstep differential of M/RaftLog.v (over M/MemStorage.v) against raft::RaftLog<MemStorage> on every run + vm_compute sample; independent plain-sequence monitor (vharness raftlog --mode monitor) used for searching a failing input.",
        "trusted_base": TB_COMMON + ["RaftLog/Unstable pub fields and MemStorage public API read directly; panic sites identified by message text and enclosing function of the panic location",
                                     "modelled not verified: src/raft_log.rs, src/log_unstable.rs (all pub methods; scan specialised), util::limit_size, entry compute_size; model assumption: indexes held in the log are < 2^64-1-length so the unchecked index+1 / offset+len additions do not wrap (caller-supplied arithmetic is modelled with overflow sites)"],
        "manifest": {
            "technique": "machine-checked proof in Coq (abstraction function to a plain sequence, representation invariant, per-operation refinement, induction over histories) + model/implementation correspondence by differential execution",
            "text": "Props/C14.v (72 pinned theorems, all states / all operation sequences): with abs = storage entries below unstable.offset ++ unstable entries (base from the pending snapshot else the storage) and a representation invariant established by RaftLog::new, every query (term, first/last index, match_term, find_conflict, find_conflict_by_term incl. termination of its loop, is_up_to_date, slice, entries, next_entries_since, commit_info) equals its plain-sequence definition; append / maybe_append / commit_to / maybe_commit / applied_to / restore / stable_entries+storage append / stable_snap+apply_snapshot / maybe_persist(_snap) / compaction <= applied act as the obvious list operations and preserve the invariant, so along every history applied <= committed <= last, persisted <= storage last with matching terms, commit index and base are monotone and no entry at or below any earlier commit index changes; size-limited reads return a non-empty maximal prefix; the fatal cases are exactly append-below-commit and conflict-at-or-below-commit. Refuted (with witnesses): a raw truncating append at or below persisted keeps persisted; maybe_persist_snap before the snapshot reached the storage; stable_entries before the storage write; persisted+limit overflow. The model is tied to src/raft_log.rs + src/log_unstable.rs on every run by exhaustive small-scope + random differential over results, panic sites and full state.",
            "design_ref": "DESIGN.md section 7, C14",
            "note": "Trusted: Coq kernel; hand-written model validated by differential execution; extraction + OCaml driver cross-checked by vm_compute; Rust harness; debug-build semantics; MemStorage as the conforming Storage (its model is C19's). No axioms.",
        },
        "assumptions": ["debug-build semantics", "stored indexes < 2^64-1-length (no wrap of index+1)", "storage test triggers (trigger_log_unavailable / trigger_snap_unavailable) off", "Ready contract order: storage write before stable_entries / stable_snap (the async order is outside the invariant; witness stable_before_write_refuted)"],
    },
}

SPECS["C12"] = {
    "id": "C12", "kind": "component", "component": "confchange",
    "run_module": "Run.RunConfChange", "runfun": "run_confchange",
    "gens": [
        {"prefix": "confchange-exh", "args": {"quick": ["--mode", "exhaustive", "--ids", "3", "--len", "2"],
                                               "thorough": ["--mode", "exhaustive", "--ids", "4", "--len", "3"]}},
        {"prefix": "confchange-rst", "args": {"quick": ["--mode", "restore", "--ids", "3"],
                                               "thorough": ["--mode", "restore", "--ids", "4"]}},
        {"prefix": "confchange-rnd", "args": {"quick": ["--mode", "random", "--count", "8000"],
                                               "thorough": ["--mode", "random", "--count", "100000", "--len", "40"]}},
    ],
    "incoq": {"quick": 60, "thorough": 300},
    "nontrivial_tokens": 6,
    "rule": "cases = breadth-first walk over the distinct reachable (configuration, progress ids) states from 16 bootstrap ConfStates (incl. invalid, duplicated and id-0 ones), every op from every state (simple / enter_joint(auto) / leave_joint with all change lists over the id universe up to the tier's length, restore round-trip through Raft::new, Raft::apply_conf_change on V1/V2 with the classification), plus a sweep over all ConfStates of the universe through Raft::new, plus seeded random op sequences with ids 0..7; results, configuration, progress ids and change lists compared (hash-ordered vectors sorted on both sides); non-trivial = at least one op; distinct = distinct case lines",
    "explanation": "Theorems for all ids/lists/configurations: Props/C12.v (30 statements: invariants preserved by simple/enter_joint/leave_joint, simple delta <= 1, joint shape, restore round-trip for every reachable configuration, quorum overlap before/after a change, V2 classification, zero/unknown ids). Tie: lockstep differential of M/ConfChange.v against Changer/ProgressTracker/Raft::new/Raft::apply_conf_change on every run + vm_compute sample.",
    "trusted_base": TB_COMMON + ["HashSet iteration order not modelled: leave_joint's Remove list and ConfState vectors compared as sets",
                                 "modelled not verified: src/confchange/changer.rs, src/confchange/restore.rs, tracker::Configuration/apply_conf/to_conf_state, proto/src/confchange.rs classification, proto/src/confstate.rs conf_state_eq"],
    "manifest": {
        "technique": "machine-checked proof in Coq (set algebra over sorted id lists, refinement of the changer to a set-level spec, pigeonhole for quorum overlap) + model/implementation correspondence by differential execution",
        "text": "Props/C12.v (30 pinned theorems, all ids / change lists / configurations): every successful simple, enter-joint or leave-joint change from a valid tracker yields a valid one (voters and learners disjoint, staged learners inside outgoing voters, at least one voter, progress for exactly the members); simple changes alter the voter set by at most one member; joint shapes; rejected changes apply nothing and only the documented errors occur; restoring the ConfState of any reachable configuration reproduces it (any vector order); any deciding quorum before a change intersects any after it; ConfChangeV2 classification. Tied to the code on every run by exhaustive small-scope + random differential through Changer, ProgressTracker, Raft::new and Raft::apply_conf_change.",
        "design_ref": "DESIGN.md section 7, C12",
        "note": "Trusted: Coq kernel; hand-written model validated by differential execution; extraction + OCaml driver cross-checked by vm_compute; Rust harness. overlap needs >= 1 voter before the change (bootstrap from the empty configuration is refuted with a witness and excluded). No axioms.",
    },
    "assumptions": ["overlap theorems require a non-empty voter set before the change (C12_overlap_bootstrap_refuted shows why)"],
}

SPECS["C19"] = {
    "id": "C19", "kind": "component", "component": "memstorage",
    "run_module": "Run.RunMemStorage", "runfun": "run_memstorage",
    "gens": [
        {"prefix": "memstorage-exh", "args": {"quick": ["--mode", "exhaustive", "--depth", "3"],
                                               "thorough": ["--mode", "exhaustive", "--depth", "4"]}},
        {"prefix": "memstorage-rnd", "args": {"quick": ["--mode", "random", "--count", "3000"],
                                               "thorough": ["--mode", "random", "--count", "30000"]}},
    ],
    "incoq": {"quick": 60, "thorough": 300},
    "nontrivial_tokens": 5,
    "rule": "cases = every sequence of MemStorage mutations (append of 1-2 entries at every position incl. overwriting and illegal gap/compacted positions, compact(idx) for all idx to last+2, apply_snapshot at several (index, term) incl. out-of-date, commit_to, hard-state/conf-state updates, trigger flags) up to the tier's depth over indexes <= 6 / terms <= 3, each followed by a battery of queries (term(i) around the window, entries(lo,hi,max) for all lo<=hi incl. empty ranges and one beyond, max in {0, boundary sizes, NO_LIMIT}, snapshot(request_index)); plus seeded random sequences of length 60 with payload lengths crossing varint boundaries; results, errors, panic sites and the observable state compared; non-trivial = at least one operation; distinct = distinct case lines",
    "explanation": "Theorems for all histories: Props/C19.v (40 statements: representation invariant, every mutator refines the sequence model under its documented precondition and panics/errs as documented outside it, first/last/term/entries characterised incl. non-empty maximal prefix under the size limit, snapshot at the commit index, history theorem). Tie: lockstep differential of M/MemStorage.v against raft::storage::MemStorage on every run + vm_compute sample. The empty-range read on an empty store was a genuine defect, fixed in /repo (see known_findings.txt).",
    "trusted_base": TB_COMMON + ["private snapshot_metadata observed by probing term(); conf_state through initial_state()",
                                 "modelled not verified: src/storage.rs MemStorageCore/MemStorage, util::limit_size, Entry::compute_size (exact protobuf size function re-derived by hand from the generated code)",
                                 "the RwLock of MemStorage (thread interleavings) is outside the model"],
    "manifest": {
        "technique": "machine-checked proof in Coq (refinement of MemStorage to a snapshot-point + contiguous-entries sequence model, induction over histories) + model/implementation correspondence by differential execution",
        "text": "Props/C19.v (40 pinned theorems, all operation histories): under the documented preconditions every MemStorage mutator preserves the representation invariant and acts as the obvious operation on a snapshot point followed by contiguous entries; first/last index, term and entries equal the model's answers, with Compacted/Unavailable exactly outside the held range, size-limited reads returning a non-empty maximal prefix, the empty in-range read returning Ok([]) (after the fix of the genuine defect found here), and a snapshot taken at the stored commit index carrying that index's term, the stored configuration and an index >= the requested one; outside the preconditions the documented panics. Tied to src/storage.rs on every run by exhaustive small-scope + random differential.",
        "design_ref": "DESIGN.md section 7, C19",
        "note": "Trusted: Coq kernel; hand-written model validated by differential execution; extraction + OCaml driver cross-checked by vm_compute; Rust harness; exact protobuf entry size transcribed by hand. No axioms.",
    },
    "assumptions": ["mutations within their documented preconditions for the refinement statements; byte lengths < 2^32"],
}

TB_NODE = TB_COMMON + [
    "hooks in /repo under cfg(tikv_raft_rs_verif): read-only views of private RaftCore/RawNode fields; election-timeout recorder/override (the drawn value is an oracle input of the model)",
    "cluster simulator /verif/harness/src/sim.rs (event alphabet, contract-abiding application, SimStorage = MemStorage with the application's own snapshot); dump/encode code harness/src/node.rs; outbound messages compared after a stable sort by destination (hash iteration order not modelled)",
    "model-only oracle m_ccinfo: what the real protobuf decoder says about a conf-change entry's data (computed by the harness)",
    "modelled not verified: src/raft.rs, src/raw_node.rs, src/raft_log.rs, src/log_unstable.rs, src/read_only.rs, src/tracker*.rs as ported in coq/M (debug-build semantics); not modelled: logging, Status, protobuf codec, rand, memory safety",
]


def node_spec(pid, projection, monitor, text, partial, design_ref, explanation, extra_assumptions=(), acceptor=None):
    return {
        "id": pid, "kind": "node", "projection": projection, "monitor": monitor, "acceptor": acceptor,
        "incoq": {"quick": 40, "thorough": 200},
        "trusted_base": TB_NODE,
        "explanation": explanation,
        "assumptions": ["debug-build semantics", "the simulated application follows the documented Ready/advance contract (DESIGN.md 4.2)"] + list(extra_assumptions),
        "manifest": {
            "technique": "machine-checked proof in Coq about the executable node model (per-step theorems) + pointwise model/implementation correspondence on simulated cluster executions",
            "text": text + (" PARTIAL: " + partial if partial else ""),
            "design_ref": design_ref,
            "note": "Trusted: Coq kernel; hand-written node model (M/Raft.v, M/RawNode.v, ...) validated against the code on every run by pointwise differential execution from the implementation's own pre-states (extracted OCaml + in-Coq vm_compute sample); hooks; simulator and dump code. No axioms.",
        },
    }


SPECS["C16"] = node_spec(
    "C16", ["hard", "timers", "msgs.vote"], "prevote",
    "Props/C16.v: for every node state and every message, handling a pre-vote request leaves term and vote unchanged (all paths), and under the check-quorum lease a higher-term (pre)vote request that is not a forced transfer changes nothing and emits nothing. The node model is tied to src/raft.rs by the pointwise differential on term/vote/role/leader/timers and vote traffic of every simulated call.",
    "the pre-candidate term clause and the cluster-level non-disruption window theorem are not yet proved; they are exercised only by the differential and the monitor.",
    "DESIGN.md section 7, C16",
    "Theorems: Props/C16.v (per-step, unbounded over states and messages). Tie: pointwise differential of M/Raft.v against RawNode on simulated executions, projection hard+timers+vote traffic.")

SPECS["C03"] = node_spec(
    "C03", ["hard", "msgs.vote", "log"], "vote_restriction",
    "Props/C03.v: for every node state and every vote or pre-vote request, a non-rejecting response is emitted only if the candidate's last (term, index) is at least the voter's own and the priority tie-break holds (the election restriction), proved on the node model for all states/messages; tied to src/raft.rs + src/raft_log.rs by the pointwise differential on vote handling.",
    "leader completeness over executions (invariant LC) is not yet proved.",
    "DESIGN.md section 7, C03",
    "Theorems: Props/C03.v. Tie: pointwise differential, projection hard+log+vote traffic.")

P_NOTE = " The abstract protocol P/Election.v is tied to the code by the executable acceptor P/ElectionAccept.v (proved sound: an accepted trace is a P execution), run on the P-level event trace (per-call term/vote/role, hard-state hand-out and fsync, released vote requests/grants/leader traffic, crashes, restarts) of every simulated execution up to its first applied membership change."

SPECS["C02"] = node_spec(
    "C02", [], "election_safety",
    "Props/C02.v: in every execution of the abstract election protocol (any interleaving of campaigns, grants, hand-out/fsync of hard states, releases, duplicated/delayed/reordered messages, crashes at any point, restarts from the durable image; pre-vote/check-quorum/priority/transfer over-approximated by free choice) at most one node ever takes the leader role in a term when no single node is a quorum, and for every configuration (single-voter groups included) leaders with a durable own vote are unique per term and at most one node ever releases traffic as leader of a term; the role-level statement is refuted with an explicit witness for a single voter whose own vote need not be durable (the defect F1 found and fixed in /repo)." + P_NOTE,
    "the voter configuration is fixed within an execution: elections racing single-step or joint membership changes are not covered by the theorems (only by the pointwise differential and the monitor).",
    "DESIGN.md section 7, C02; section 2.2-2.3",
    "Theorems: Props/C02.v over P/Election.v. Deciding tie: (B) acceptor on P-level traces (the pointwise differential (A) is diagnostic only for this property: a behaviour change that P still allows does not fail it).",
    acceptor="pelection")

SPECS["C06"] = node_spec(
    "C06", ["result", "rawnode"], "persist_before_send",
    "Props/C06.v: in every execution of the abstract election protocol a node grants at most one candidate its vote in any term, ever (across crashes and restarts); every released vote grant, vote request and leader message is covered by the sender's durable (term, vote) and by its volatile state, so a restart from stable storage is never behind what it told others; within an incarnation the term never decreases." + P_NOTE + " The Ready-level release discipline (which messages a Ready holds back until persistence) is tied by the pointwise differential on Ready contents and RawNode bookkeeping.",
    "append acknowledgements and the log part of 'never behind' need the log layer of P and are not yet proved.",
    "DESIGN.md section 7, C06; section 2.2-2.3",
    "Theorems: Props/C06.v over P/Election.v. Ties: (B) acceptor on P-level traces; (A) pointwise differential on Ready contents, records, hard state.",
    acceptor="pelection")

SPECS["C15"] = node_spec(
    "C15", ["log", "conf", "progress", "msgs.repl", "msgs.resp"], "snapshot",
    "Props/C15.v (21 pinned theorems, every node state and message): a snapshot is installed only if it is not behind the commit index, the node is a follower and a member of the snapshot's configuration, and it is not a matching unrequested one; the exact effect of an install (commit = snapshot index, boundary term, unstable snapshot, next index, persisted rule, configuration = restore of the snapshot's ConfState with exactly its members tracked, promotable flag, request cleared; term/vote/role untouched); a matching snapshot that the node did not request (none pending, or below the requested index) only advances the commit index and discards nothing; the three rejection cases; the reply; the leader emits a snapshot only if the peer is recently active and either asked for one or the term/entries lookup failed (compacted), entering Snapshot state at the sent index; resumption after a status report or a caught-up acknowledgement; compaction of applied entries leaves every RaftLog query at or above the compaction point unchanged. The defect F2 found here (a delayed older snapshot truncating acknowledged entries while a request was pending) was fixed in /repo; a regression guard is pinned.",
    "the cross-node clause (installed state equals that of a node that applied the log to the snapshot index), the application state, and the step-level frame of compaction are not proved.",
    "DESIGN.md section 7, C15",
    "Theorems: Props/C15.v over M/Raft.v, M/RaftLog.v, M/MemStorage.v. Tie: pointwise differential, projection log+conf+progress+replication/response traffic.")

SPECS["C09"] = node_spec(
    "C09", ["conf", "hard", "log", "result"], "conf_change",
    "Props/C09.v (46 pinned theorems, every node state and input): the proposal filter is characterised completely (a conf-change entry is kept iff nothing is pending and it fits the joint state, otherwise replaced by an empty normal entry; a decode error drops the proposal; at most one survives a proposal); the leader invariant 'every conf-change entry above applied is at or below pending_conf_index' is established by become_leader and preserved by every function of the Raft and RawNode models; no node campaigns (timeout, MsgHup, MsgTimeoutNow) while has_unapplied_conf_changes answers true, and a (pre-)candidate that learns a committed conf change through vote traffic steps down; a non-promotable node never campaigns by tick or MsgTimeoutNow and promotable = voter after every configuration switch; a rejected apply_conf_change leaves the node untouched and a successful one yields exactly the ConfChange model's configuration (C12); auto-leave is proposed once.",
    "the cross-node clause (nodes at the same applied index have identical configurations, also after restart) and the literal whole-log 'at most one conf entry beyond applied' are protocol-level and not proved (the latter is refuted for a restarted node whose applied index lags, with a witness); Raft::new is not in the model.",
    "DESIGN.md section 7, C09",
    "Theorems: Props/C09.v over M/Raft.v, M/RawNode.v. Tie: pointwise differential, projection conf+hard+log+results.")

SPECS["C09"]["incoq"] = {"quick": 40, "thorough": 200}
