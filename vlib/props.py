"""Per-property check specifications."""

TB_COMMON = [
    "Coq 8.16.1 kernel (coqc, full .vo builds); vm_compute used for Examples and the in-Coq correspondence sample; native_compute not used",
    "no axioms: every pinned theorem prints 'Closed under the global context' (checked on every run)",
    "hand-written Gallina model tied to /repo by differential execution on every run (not a translation of the Rust)",
    "extraction: Extraction Language OCaml + ExtrOcamlBasic only (bool, option, unit, list, prod, sumbool mapped to OCaml's); no Extract Constant / Extract Inductive of ours; OCaml 4.13.1; ocaml/driver.ml (decimal text <-> extracted N)",
    "Rust harness /verif/harness (drivers, catch_unwind, panic-message -> site mapping), built against /repo's working tree with --cfg tikv_raft_rs_verif",
]

NOT_YET = {}
# specs present but not claimed right now (proofs under repair after a cross-branch model change)
DISABLED = set()

SPECS = {
    "C18": {
        "id": "C18", "kind": "component", "component": "inflights",
        "run_module": "Run.RunInflights", "runfun": "run_inflights",
        "gens": [
            {"prefix": "inflights-exh", "args": {"quick": ["--mode", "exhaustive", "--depth", "5"],
                                                  "thorough": ["--mode", "exhaustive", "--depth", "6"]}},
            {"prefix": "inflights-rnd", "args": {"quick": ["--mode", "random", "--count", "600", "--len", "300"],
                                                  "thorough": ["--mode", "random", "--count", "6000", "--len", "400"]}},
        ],
        "incoq": {"quick": 150, "thorough": 600},
        "nontrivial_tokens": 7,
        "rule": "cases = every operation sequence (add next index | free_to k for all k up to last+1 | free_first_one | reset | set_cap 0..4 | maybe_free_buffer) of length <= depth from capacities 0..3 (prefix-closed, exhaustive for that scope), plus seeded random length-300 sequences with capacities <= 12 biased to fill and wrap the ring; a case is non-trivial when it has >= 2 operations; distinct = distinct case lines; every case compares the full private state (start,count,cap,incoming_cap,allocated,buffer) and full() of raft::Inflights with the model, panics included",
        "explanation": "Theorems (all capacities, all histories, unbounded): Props/C18.v. Tie: lockstep differential of M/Inflights.v (extracted) against raft::Inflights on every run, plus a vm_compute re-evaluation of a sample inside Coq.",
        "trusted_base": TB_COMMON + ["Inflights private fields read from its derived Debug output; buffer_is_allocated()/full()/count() public accessors",
                                     "modelled not verified: src/tracker/inflights.rs (all of it). Vec capacity modelled as a boolean (allocated)"],
        "manifest": {
            "technique": "machine-checked proof in Coq (refinement of a bounded-FIFO spec, induction over histories) + model/implementation correspondence by differential execution",
            "text": "Props/C18.v: for every capacity and every operation history (unbounded) the Inflights model never panics (add only when not full), keeps its representation invariant and refines a bounded FIFO with deferred shrink: count/full match, free_to removes exactly the longest prefix <= to, resizing/releasing loses or reorders nothing, a reduced capacity governs fullness at once and is installed when the window drains. The model is tied to src/tracker/inflights.rs on every run by an exhaustive small-scope + random lockstep differential over the full private state, panics included.",
            "design_ref": "DESIGN.md section 7, C18",
            "note": "Trusted: Coq kernel; hand-written model validated against the code by differential execution (not a translation); extraction (ExtrOcamlBasic) + OCaml driver cross-checked by vm_compute; Rust harness; debug-build semantics. No axioms.",
        },
        "assumptions": ["debug-build semantics (debug_assert! active)", "add is only called on a non-full window (documented precondition); the panic when full is modelled and compared"],
    },
    "C11": {
        "id": "C11", "kind": "component", "component": "quorum",
        "run_module": "Run.RunQuorum", "runfun": "run_quorum",
        "gens": [
            {"prefix": "quorum-exh", "args": {"quick": ["--mode", "exhaustive", "--depth", "3"],
                                               "thorough": ["--mode", "exhaustive", "--depth", "4"]}},
            {"prefix": "quorum-rnd", "args": {"quick": ["--mode", "random", "--count", "60000"],
                                               "thorough": ["--mode", "random", "--count", "600000"]}},
        ],
        "incoq": {"quick": 150, "thorough": 600},
        "nontrivial_tokens": 8,
        "rule": "cases = (exhaustive) every incoming/outgoing voter subset of {1..4} with every overlap and empty halves, acked indexes 0..3, groups 0..2, missing acks, vote maps over {yes,no,missing}, up to the tier's depth; (random) 0-9 ids per half (the >7-voter heap path), indexes incl. 0, u64::MAX, ties, groups 0..3; each case evaluates MajorityConfig / JointConfig / ProgressTracker commit index (group commit off and on), vote_result, tally_votes, has_quorum on the real types in the implementation's own hash iteration order and compares with the model; non-trivial = at least one voter; distinct = distinct case lines",
        "explanation": "Theorems for voter lists of any size: Props/C11.v (46 statements: exact commit index for simple and joint configs, permutation invariance, vote results, quorum intersection, group commit characterisation). Tie: lockstep differential of M/Quorum.v against raft::{MajorityConfig, JointConfig, ProgressTracker} on every run + vm_compute sample.",
        "trusted_base": TB_COMMON + ["hash iteration order is passed from the implementation (raw_slice / to_conf_state) to the model as the voter list order; theorems hold for every order",
                                     "modelled not verified: src/quorum/majority.rs, src/quorum/joint.rs, util::majority, ProgressTracker::{maximal_committed_index,tally_votes,vote_result,has_quorum,record_vote}; the MaybeUninit stack array of committed_index is memory-level and outside the model"],
        "manifest": {
            "technique": "machine-checked proof in Coq (counting/pigeonhole over lists, stable-sort lemmas, permutation invariance) + model/implementation correspondence by differential execution",
            "text": "Props/C11.v (46 pinned theorems, voter sets of any size): the computed commit index is exactly the largest index acknowledged by a majority of each non-empty half (simple and joint), invariant under the hash iteration order; vote results are won/lost/pending exactly by the majority counts, joint = both/either; two deciding quorums intersect (also vote-quorum vs commit-witness); group commit never exceeds the plain index and is fully characterised (all-grouped: largest plain-bounded index spanning two groups). The model M/Quorum.v is tied to src/quorum/*.rs and the ProgressTracker tallies on every run by exhaustive small-scope + random differential in the implementation's own iteration order.",
            "design_ref": "DESIGN.md section 7, C11",
            "note": "Trusted: Coq kernel; hand-written model validated by differential execution; extraction + OCaml driver cross-checked by vm_compute; Rust harness. The MaybeUninit stack array in committed_index is memory-level and not modelled. No axioms.",
        },
        "assumptions": ["u64 indexes (<= 2^64-1) for the joint 'largest' statement"],
    },
    "C14": {
        "id": "C14", "kind": "component", "component": "raftlog",
        "run_module": "Run.RunRaftLog", "runfun": "run_raftlog",
        "gens": [
            {"prefix": "raftlog-exh", "args": {"quick": ["--mode", "exhaustive", "--depth", "4"],
                                                "thorough": ["--mode", "exhaustive", "--depth", "5"]}},
            {"prefix": "raftlog-rnd", "args": {"quick": ["--mode", "random", "--count", "2000", "--len", "150"],
                                                "thorough": ["--mode", "random", "--count", "20000", "--len", "200"]}},
        ],
        "incoq": {"quick": 120, "thorough": 500},
        "nontrivial_tokens": 10,
        "rule": "cases = (exhaustive) breadth-first over every distinct full state (RaftLog pub fields + MemStorage contents) reachable within depth-1 operations from 5 initial stores (empty, 2-3 entries with terms <= 3, snapshot points), log length <= 5; from every such state one case per operation of the full alphabet (append / maybe_append with agreeing and conflicting entries at every index from first-1 to last+2, i.e. every position relative to unstable.offset / persisted / committed; commit_to, maybe_commit, applied_to, stable_entries, stable_snap, restore, maybe_persist, maybe_persist_snap, storage append/apply_snapshot/compact/commit_to, restart, raw Unstable::truncate_and_append, non-contiguous and out-of-contract arguments) and a query battery (term, match_term, find_conflict, find_conflict_by_term for every index and term 0..3, is_up_to_date, slice for every lo<=hi with size limits 0 / each prefix-sum boundary -1,+0,+1 / NO_LIMIT, entries, next_entries* under limits 0,1,u64::MAX-1,u64::MAX, snapshot, commit_info, Unstable::{maybe_term,slice,must_check_outofbounds}); (random) seeded Ready-contract sequences of 150-200 operations with data lengths 0..160 (two thirds fully valid, one third with occasional invalid choices) + a malformed stream (u64::MAX / 2^63 arguments). Every case compares each operation's result (value / storage error code / panic site) and after every mutator the full state dump incl. all logical entries via slice; non-trivial = at least one operation; distinct = distinct case lines",
        "explanation": "Theorems for all states and all operation sequences (unbounded): Props/C14.v (182 statements: node-level lifting of RepInv to every Raft/RawNode function and to traces from RawNode::new; abs/RepInv, every query = plain-sequence definition, every mutator = list operation preserving RepInv, slice = limit_size of the plain range with the non-empty maximal prefix property, committed_immutable with the exact fatal cases, persisted_sound, history invariants, refuted variants with witnesses). Tie: lockstep differential of M/RaftLog.v (over M/MemStorage.v) against raft::RaftLog<MemStorage> on every run + vm_compute sample; independent plain-sequence monitor (vharness raftlog --mode monitor) used for searching a failing input.",
        "trusted_base": TB_COMMON + ["RaftLog/Unstable pub fields and MemStorage public API read directly; panic sites identified by message text and enclosing function of the panic location",
                                     "modelled not verified: src/raft_log.rs, src/log_unstable.rs (all pub methods; scan specialised), util::limit_size, entry compute_size; model assumption: indexes held in the log are < 2^64-1-length so the unchecked index+1 / offset+len additions do not wrap (caller-supplied arithmetic is modelled with overflow sites)"],
        "manifest": {
            "technique": "machine-checked proof in Coq (abstraction function to a plain sequence, representation invariant, per-operation refinement, induction over histories) + model/implementation correspondence by differential execution",
            "text": "Props/C14.v (182 pinned theorems; component level, all states / all operation sequences): with abs = storage entries below unstable.offset ++ unstable entries (base from the pending snapshot else the storage) and a representation invariant established by RaftLog::new, every query (term, first/last index, match_term, find_conflict, find_conflict_by_term incl. termination of its loop, is_up_to_date, slice, entries, next_entries_since, commit_info) equals its plain-sequence definition; append / maybe_append / commit_to / maybe_commit / applied_to / restore / stable_entries+storage append / stable_snap+apply_snapshot / maybe_persist(_snap) / compaction <= applied act as the obvious list operations and preserve the invariant, so along every history applied <= committed <= last, persisted <= storage last with matching terms, commit index and base are monotone and no entry at or below any earlier commit index changes; size-limited reads return a non-empty maximal prefix; the fatal cases are exactly append-below-commit and conflict-at-or-below-commit. Refuted (with witnesses): a raw truncating append at or below persisted keeps persisted; maybe_persist_snap before the snapshot reached the storage; stable_entries before the storage write; persisted+limit overflow. NODE LEVEL (110 of the theorems): the invariant is preserved by every function of the Raft and RawNode models that touches the log (step, tick, restore, on_persist_*, commit_apply, every rn_* entry point) under explicit preconditions on messages (contiguous entries, index bounds) that are shown necessary by witnesses, and by the application's storage writes when it writes exactly what a Ready told it; hence along any non-panicking trace of RawNode calls and storage writes from RawNode::new: committed <= last_index, persisted <= storage last, and applied <= committed from the first point where it holds (the restart window only closes). The model is tied to src/raft_log.rs + src/log_unstable.rs on every run by exhaustive small-scope + random differential over results, panic sites and full state.",
            "design_ref": "DESIGN.md section 7, C14",
            "note": "Trusted: Coq kernel; hand-written model validated by differential execution; extraction + OCaml driver cross-checked by vm_compute; Rust harness; debug-build semantics; MemStorage as the conforming Storage (its model is C19's). No axioms.",
        },
        "assumptions": ["debug-build semantics", "stored indexes < 2^64-1-length (no wrap of index+1)", "storage test triggers (trigger_log_unavailable / trigger_snap_unavailable) off", "Ready contract order: storage write before stable_entries / stable_snap (the async order is outside the invariant; witness stable_before_write_refuted)"],
    },
}

SPECS["C12"] = {
    "id": "C12", "kind": "component", "component": "confchange",
    "run_module": "Run.RunConfChange", "runfun": "run_confchange",
    "gens": [
        {"prefix": "confchange-exh", "args": {"quick": ["--mode", "exhaustive", "--ids", "3", "--len", "2"],
                                               "thorough": ["--mode", "exhaustive", "--ids", "4", "--len", "3"]}},
        {"prefix": "confchange-rst", "args": {"quick": ["--mode", "restore", "--ids", "3"],
                                               "thorough": ["--mode", "restore", "--ids", "4"]}},
        {"prefix": "confchange-rnd", "args": {"quick": ["--mode", "random", "--count", "8000"],
                                               "thorough": ["--mode", "random", "--count", "100000", "--len", "40"]}},
    ],
    "incoq": {"quick": 60, "thorough": 300},
    "nontrivial_tokens": 6,
    "rule": "cases = breadth-first walk over the distinct reachable (configuration, progress ids) states from 16 bootstrap ConfStates (incl. invalid, duplicated and id-0 ones), every op from every state (simple / enter_joint(auto) / leave_joint with all change lists over the id universe up to the tier's length, restore round-trip through Raft::new, Raft::apply_conf_change on V1/V2 with the classification), plus a sweep over all ConfStates of the universe through Raft::new, plus seeded random op sequences with ids 0..7; results, configuration, progress ids and change lists compared (hash-ordered vectors sorted on both sides); non-trivial = at least one op; distinct = distinct case lines",
    "explanation": "Theorems for all ids/lists/configurations: Props/C12.v (30 statements: invariants preserved by simple/enter_joint/leave_joint, simple delta <= 1, joint shape, restore round-trip for every reachable configuration, quorum overlap before/after a change, V2 classification, zero/unknown ids). Tie: lockstep differential of M/ConfChange.v against Changer/ProgressTracker/Raft::new/Raft::apply_conf_change on every run + vm_compute sample.",
    "trusted_base": TB_COMMON + ["HashSet iteration order not modelled: leave_joint's Remove list and ConfState vectors compared as sets",
                                 "modelled not verified: src/confchange/changer.rs, src/confchange/restore.rs, tracker::Configuration/apply_conf/to_conf_state, proto/src/confchange.rs classification, proto/src/confstate.rs conf_state_eq"],
    "manifest": {
        "technique": "machine-checked proof in Coq (set algebra over sorted id lists, refinement of the changer to a set-level spec, pigeonhole for quorum overlap) + model/implementation correspondence by differential execution",
        "text": "Props/C12.v (30 pinned theorems, all ids / change lists / configurations): every successful simple, enter-joint or leave-joint change from a valid tracker yields a valid one (voters and learners disjoint, staged learners inside outgoing voters, at least one voter, progress for exactly the members); simple changes alter the voter set by at most one member; joint shapes; rejected changes apply nothing and only the documented errors occur; restoring the ConfState of any reachable configuration reproduces it (any vector order); any deciding quorum before a change intersects any after it; ConfChangeV2 classification. Tied to the code on every run by exhaustive small-scope + random differential through Changer, ProgressTracker, Raft::new and Raft::apply_conf_change.",
        "design_ref": "DESIGN.md section 7, C12",
        "note": "Trusted: Coq kernel; hand-written model validated by differential execution; extraction + OCaml driver cross-checked by vm_compute; Rust harness. overlap needs >= 1 voter before the change (bootstrap from the empty configuration is refuted with a witness and excluded). No axioms.",
    },
    "assumptions": ["overlap theorems require a non-empty voter set before the change (C12_overlap_bootstrap_refuted shows why)"],
}

SPECS["C19"] = {
    "id": "C19", "kind": "component", "component": "memstorage",
    "run_module": "Run.RunMemStorage", "runfun": "run_memstorage",
    "gens": [
        {"prefix": "memstorage-exh", "args": {"quick": ["--mode", "exhaustive", "--depth", "3"],
                                               "thorough": ["--mode", "exhaustive", "--depth", "4"]}},
        {"prefix": "memstorage-rnd", "args": {"quick": ["--mode", "random", "--count", "3000"],
                                               "thorough": ["--mode", "random", "--count", "30000"]}},
    ],
    "incoq": {"quick": 60, "thorough": 300},
    "nontrivial_tokens": 5,
    "rule": "cases = every sequence of MemStorage mutations (append of 1-2 entries at every position incl. overwriting and illegal gap/compacted positions, compact(idx) for all idx to last+2, apply_snapshot at several (index, term) incl. out-of-date, commit_to, hard-state/conf-state updates, trigger flags) up to the tier's depth over indexes <= 6 / terms <= 3, each followed by a battery of queries (term(i) around the window, entries(lo,hi,max) for all lo<=hi incl. empty ranges and one beyond, max in {0, boundary sizes, NO_LIMIT}, snapshot(request_index)); plus seeded random sequences of length 60 with payload lengths crossing varint boundaries; results, errors, panic sites and the observable state compared; non-trivial = at least one operation; distinct = distinct case lines",
    "explanation": "Theorems for all histories: Props/C19.v (40 statements: representation invariant, every mutator refines the sequence model under its documented precondition and panics/errs as documented outside it, first/last/term/entries characterised incl. non-empty maximal prefix under the size limit, snapshot at the commit index, history theorem). Tie: lockstep differential of M/MemStorage.v against raft::storage::MemStorage on every run + vm_compute sample. The empty-range read on an empty store was a genuine defect, fixed in /repo (see known_findings.txt).",
    "trusted_base": TB_COMMON + ["private snapshot_metadata observed by probing term(); conf_state through initial_state()",
                                 "modelled not verified: src/storage.rs MemStorageCore/MemStorage, util::limit_size, Entry::compute_size (exact protobuf size function re-derived by hand from the generated code)",
                                 "the RwLock of MemStorage (thread interleavings) is outside the model"],
    "manifest": {
        "technique": "machine-checked proof in Coq (refinement of MemStorage to a snapshot-point + contiguous-entries sequence model, induction over histories) + model/implementation correspondence by differential execution",
        "text": "Props/C19.v (40 pinned theorems, all operation histories): under the documented preconditions every MemStorage mutator preserves the representation invariant and acts as the obvious operation on a snapshot point followed by contiguous entries; first/last index, term and entries equal the model's answers, with Compacted/Unavailable exactly outside the held range, size-limited reads returning a non-empty maximal prefix, the empty in-range read returning Ok([]) (after the fix of the genuine defect found here), and a snapshot taken at the stored commit index carrying that index's term, the stored configuration and an index >= the requested one; outside the preconditions the documented panics. Tied to src/storage.rs on every run by exhaustive small-scope + random differential.",
        "design_ref": "DESIGN.md section 7, C19",
        "note": "Trusted: Coq kernel; hand-written model validated by differential execution; extraction + OCaml driver cross-checked by vm_compute; Rust harness; exact protobuf entry size transcribed by hand. No axioms.",
    },
    "assumptions": ["mutations within their documented preconditions for the refinement statements; byte lengths < 2^32"],
}

TB_NODE = TB_COMMON + [
    "hooks in /repo under cfg(tikv_raft_rs_verif): read-only views of private RaftCore/RawNode fields; election-timeout recorder/override (the drawn value is an oracle input of the model)",
    "cluster simulator /verif/harness/src/sim.rs (event alphabet, contract-abiding application, SimStorage = MemStorage with the application's own snapshot); dump/encode code harness/src/node.rs; outbound messages compared after a stable sort by destination (hash iteration order not modelled)",
    "model-only oracle m_ccinfo: what the real protobuf decoder says about a conf-change entry's data (computed by the harness)",
    "modelled not verified: src/raft.rs, src/raw_node.rs, src/raft_log.rs, src/log_unstable.rs, src/read_only.rs, src/tracker*.rs as ported in coq/M (debug-build semantics); not modelled: logging, Status, protobuf codec, rand, memory safety",
]


def node_spec(pid, projection, monitor, text, partial, design_ref, explanation, extra_assumptions=(), acceptor=None):
    return {
        "id": pid, "kind": "node", "projection": projection, "monitor": monitor, "acceptor": acceptor,
        "incoq": {"quick": 40, "thorough": 200},
        "trusted_base": TB_NODE,
        "explanation": explanation,
        "assumptions": ["debug-build semantics", "the simulated application follows the documented Ready/advance contract (DESIGN.md 4.2)"] + list(extra_assumptions),
        "manifest": {
            "technique": ("machine-checked proof in Coq about the abstract protocol P (invariants by induction over all executions) + executable acceptor proved sound in Coq and run on the implementation's P-level traces (refinement correspondence) + pointwise node-model/implementation correspondence on simulated cluster executions"
                          if acceptor else
                          "machine-checked proof in Coq about the executable node model (per-step and invariant theorems) + pointwise model/implementation correspondence on simulated cluster executions"),
            "text": text + (" PARTIAL: " + partial if partial else ""),
            "design_ref": design_ref,
            "note": "Trusted: Coq kernel; hand-written node model (M/Raft.v, M/RawNode.v, ...) validated against the code on every run by pointwise differential execution from the implementation's own pre-states (extracted OCaml + in-Coq vm_compute sample); hooks; simulator and dump code. No axioms.",
        },
    }


PL_NOTE = " The abstract protocol P/Log.v (superposed on P/Election.v) is tied to the code by the executable acceptor P/LogAccept.v (proved sound: an accepted trace is a P execution), run on the P-level event trace of every simulated execution up to its first applied membership change: per API call the acting node's full (ghost, never compacted) log, commit index and the append acknowledgements it created; every change of a node's durable log; every released acknowledgement; plus the election-layer events. Each observed log change must be explained by a P rule (a leader appends, a follower adopts a prefix of its term's leader log, acknowledgements only for prefixes shared with that log and released only once durable, commits only by the quorum rule or up to a commit point, a log image becomes durable only after the hard state of its entries' terms)."

SPECS["C16"] = node_spec(
    "C16", ["hard", "timers", "msgs.vote"], "prevote",
    "Props/C16.v (68 pinned statements, every node state and every message unless said otherwise): handling a pre-vote request never changes term or vote (all paths), with the four paths given exactly (lease drop; lower-term explicit reject; grant = one response, no vote recorded, election timer not reset, role and leader untouched; reject + commit fast-forward); the pre-vote campaign leaves term and vote unchanged and queues exactly one MsgRequestPreVote (term+1, last index/term) per other voter; a COMPLETE case analysis of when the term changes over one step for every role and message (unchanged | raised by one by the node itself in three listed situations | a higher message term adopted, for every type except pre-vote requests, granted pre-vote responses and lease-dropped requests), read off for a PreCandidate, and in trace form: over any sequence of steps and ticks that are 'quiet' in the states they meet (no adoptable higher term, no transfer, no pre-vote quorum) the term never changes, whatever roles the node passes through; a rejected pre-vote response with a higher term makes the receiver a follower of that term; inside the check-quorum lease any number of higher-term non-transfer (pre-)vote requests leaves the state identical (trace form); a leader never changes term on messages of its own or a lower term, and steps down only at an election-timeout boundary with no quorum recently active (trace form); a majority follower whose leader's heartbeats arrive on schedule keeps term, vote, leader and lease whatever (pre-)vote requests arrive in between. CLUSTER-LEVEL WINDOW (clause 8, model-level composition over a lock-step star schedule with arbitrary adversarial deliveries before each round): from a start state in which a check-quorum leader L of term t and followers Fs forming a quorum with it exchange heartbeats on schedule (timing hypotheses stated on the model's fields), for ANY number of rounds and ANY lists of adversarial messages from outsiders - pre-vote requests of any term and context, anything with a term below t, anything non-leader with a term at most t - L stays leader of t and every F stays a follower of t with leader L and unchanged vote, still inside its lease (C16_window_rounds_safe); every window member answers a higher-term non-transfer (pre-)vote request with 'state unchanged, nothing queued' (C16_window_members_deny), which is why outsiders cannot gather a pre-vote quorum. One requested statement is REFUTED with a witness (a Candidate/PreCandidate receiver of a pre-vote request may abandon its campaign through the commit fast-forward when that reveals an unapplied membership change; term and vote still unchanged; intentional per the source comment).",
    "the window theorem is against a SPECIFIED adversary class and a lock-step schedule inside the majority: the closing step (outsiders that never win a pre-vote only ever emit messages of that class, as a closed-cluster theorem including crash and restart) is proved per node but not composed over a network model; loss/delay inside the majority and leadership transfer inside the window are excluded. The closed-cluster behaviour is exercised by the prevote monitor's isolate/campaign/crash/rejoin scenario in the search.",
    "DESIGN.md section 7, C16",
    "Theorems: Props/C16.v over M/Raft.v (per step, per tick, and over arbitrary input sequences). Tie: pointwise differential, projection hard+timers+vote traffic.")

SPECS["C03"] = node_spec(
    "C03", ["hard", "msgs.vote", "log"], "vote_restriction",
    "Props/C03.v: (node model, every state and every vote or pre-vote request) a non-rejecting response is emitted only if the candidate's last (term, index) is at least the voter's own and the priority tie-break holds; (abstract protocol P/Log.v, every execution with crashes, restarts, separate persistence of hard state and log, message loss/duplication/reordering) leader completeness: the log of every leader of a term >= T contains every commit point (T, k) of the leader of T with identical entries, every index any node reports committed is covered by such a commit point, and the grant rule enforces the election restriction against the log the candidate campaigned with." + PL_NOTE,
    "fixed voter configuration within an execution, no single-node quorum; snapshots only as forgotten committed prefixes (the ghost full log).",
    "DESIGN.md section 7, C03",
    "Theorems: Props/C03.v over M/Raft.v (per step) and P/Log.v (LogSafety.v). Ties: (A) pointwise differential, projection hard+log+vote traffic; (B) log-layer acceptor.",
    acceptor="plog")

P_NOTE = " The abstract protocol P/Election.v is tied to the code by the executable acceptor P/ElectionAccept.v (proved sound: an accepted trace is a P execution), run on the P-level event trace (per-call term/vote/role, hard-state hand-out and fsync, released vote requests/grants/leader traffic, crashes, restarts) of every simulated execution up to its first applied membership change."

SPECS["C05"] = node_spec(
    "C05", ["log"], "log_matching",
    "Props/C05.v: in every execution of the abstract protocol, any two logs (volatile logs with unpersisted entries, durable logs, log images in flight to storage) of any two nodes that hold the same term at an index are identical up to that index; a node in the leader role only appends to its log; over every step other than its own crash a node's commit index does not decrease and its log is unchanged up to the old commit index, and the commit index stays within the log; a crash falls back exactly to the durable log." + PL_NOTE + " The message-level mechanics (prev-index/term check, conflict search, truncation) are theorems of the RaftLog model (C14) and are tied by the pointwise differential on the log section.",
    "fixed voter configuration within an execution, no single-node quorum; compaction and snapshots appear only as forgetting a committed prefix (the acceptor observes the ghost full log, reconstructed from the committed history).",
    "DESIGN.md section 7, C05",
    "Theorems: Props/C05.v over P/Log.v (LogProofs.v). Ties: (B) log-layer acceptor; (A) pointwise differential on the log section.",
    acceptor="plog")

SPECS["C04"] = node_spec(
    "C04", ["log", "progress"], "commit_rule",
    "Props/C04.v: in the abstract protocol a commit point (T, k) is created only by a node in the leader role of term T whose entry k has term T and with a quorum (of every voter set, joint configurations included) in which every other member has a released acknowledgement >= k for term T - released only while its durable log covers it - and the leader counts itself only if its own durable log covers k; a node's commit index rises only by such a leader commit or up to an existing commit point its log agrees with; in every reachable state a non-zero commit index is covered by a commit point, and the entries of every commit point are in the durable log of a quorum." + PL_NOTE + " The arithmetic of the leader's commit computation (maybe_commit over the progress map, the own-term check, persisted-index accounting) is part of the node model and tied by the pointwise differential on log + progress.",
    "fixed voter configuration within an execution, no single-node quorum; the clause about commit_term-guarded follower commits (this fork's MsgAppend/heartbeat commit_term field) is covered by the acceptor's LCommitF guard, not by a separate theorem.",
    "DESIGN.md section 7, C04",
    "Theorems: Props/C04.v over P/Log.v (LogSafety.v). Ties: (B) log-layer acceptor; (A) pointwise differential on log + progress.",
    acceptor="plog")

SPECS["C01"] = node_spec(
    "C01", ["log.commit", "progress.matched"], "sm_safety",
    "Props/C01.v: in every execution of the abstract protocol, any two nodes agree on the entry at every index both report committed, and the entry a node reports committed at an index is the entry any node (the same node after crashes and restarts included) reports there in any later state; commit points are permanent and mutually consistent. The statement is shown FALSE (explicit execution, checked by computation) for the protocol without the guard that a log image becomes durable only after the hard state covering its entries' terms." + PL_NOTE + " Hand-off to the application (committed_entries of Ready, snapshots) is the subject of C07/C15 at node level.",
    "fixed voter configuration within an execution, no single-node quorum; 'applied through a snapshot' is represented by the ghost full log (a snapshot only forgets a committed prefix).",
    "DESIGN.md section 7, C01",
    "Theorems: Props/C01.v over P/Log.v (LogSafety.v). Deciding ties: (B) log-layer acceptor on P-level traces; of the pointwise differential (A) only what feeds commit decisions counts for this property: the commit index and the matched index the leader records per peer.",
    acceptor="plog")

SPECS["C02"] = node_spec(
    "C02", ["hard.role"], "election_safety",
    "Props/C02.v: in every execution of the abstract election protocol (any interleaving of campaigns, grants, hand-out/fsync of hard states, releases, duplicated/delayed/reordered messages, crashes at any point, restarts from the durable image; pre-vote/check-quorum/priority/transfer over-approximated by free choice) at most one node ever takes the leader role in a term when no single node is a quorum, and for every configuration (single-voter groups included) leaders with a durable own vote are unique per term and at most one node ever releases traffic as leader of a term; the role-level statement is refuted with an explicit witness for a single voter whose own vote need not be durable (the defect F1 found and fixed in /repo)." + P_NOTE,
    "the voter configuration is fixed within an execution: elections racing single-step or joint membership changes are not covered by the theorems (only by the pointwise differential and the monitor).",
    "DESIGN.md section 7, C02; section 2.2-2.3",
    "Theorems: Props/C02.v over P/Election.v. Deciding ties: (B) acceptor on P-level traces; of the pointwise differential (A) only the ROLE counts for this property (a call after which the implementation is candidate / pre-candidate / leader / follower where the model says otherwise: that also covers elections racing membership changes, where P traces end); other differences in term/vote handling that P still allows do not fail it.",
    acceptor="pelection")

SPECS["C06"] = node_spec(
    "C06", ["result", "rawnode"], "persist_before_send",
    "Props/C06.v: in every execution of the abstract election protocol a node grants at most one candidate its vote in any term, ever (across crashes and restarts); every released vote grant, vote request and leader message is covered by the sender's durable (term, vote) and by its volatile state, so a restart from stable storage is never behind what it told others; within an incarnation the term never decreases; an append acknowledgement is recorded as released only while the node's durable log covers it with the entries of that term's leader, and a crash falls back to exactly the durable log." + P_NOTE + PL_NOTE + " The Ready-level release discipline (which messages a Ready holds back until persistence) is tied by the pointwise differential on Ready contents and RawNode bookkeeping.",
    "fixed voter configuration within an execution; an acknowledged but uncommitted suffix may later be replaced by a newer leader's entries (that is Raft, not a lost promise).",
    "DESIGN.md section 7, C06; section 2.2-2.3",
    "Theorems: Props/C06.v over P/Election.v. Ties: (B) acceptor on P-level traces; (A) pointwise differential on Ready contents, records, hard state.",
    acceptor="plog")

SPECS["C15"] = node_spec(
    "C15", ["log", "conf", "progress", "msgs.repl", "msgs.resp"], "snapshot",
    "Props/C15.v (21 pinned theorems, every node state and message): a snapshot is installed only if it is not behind the commit index, the node is a follower and a member of the snapshot's configuration, and it is not a matching unrequested one; the exact effect of an install (commit = snapshot index, boundary term, unstable snapshot, next index, persisted rule, configuration = restore of the snapshot's ConfState with exactly its members tracked, promotable flag, request cleared; term/vote/role untouched); a matching snapshot that the node did not request (none pending, or below the requested index) only advances the commit index and discards nothing; the three rejection cases; the reply; the leader emits a snapshot only if the peer is recently active and either asked for one or the term/entries lookup failed (compacted), entering Snapshot state at the sent index; resumption after a status report or a caught-up acknowledgement; compaction of applied entries leaves every RaftLog query at or above the compaction point unchanged. The defect F2 found here (a delayed older snapshot truncating acknowledged entries while a request was pending) was fixed in /repo; a regression guard is pinned.",
    "the configuration part of the cross-node clause is proved (after an install the configuration and tracked ids equal those of the sender that applied the same changes: C15_install_same_conf); the application state is outside the library; the step-level frame of compaction is not proved.",
    "DESIGN.md section 7, C15",
    "Theorems: Props/C15.v over M/Raft.v, M/RaftLog.v, M/MemStorage.v. Tie: pointwise differential, projection log+conf+progress+replication/response traffic.")

SPECS["C17"] = node_spec(
    "C17", ["transfer", "hard", "timers", "result", "msgs.other", "msgs.vote"], "transfer",
    "Props/C17.v (47 pinned theorems, every node state and every input): a MsgTimeoutNow is queued only by a leader handling MsgAppendResponse or MsgTransferLeader, at most one per step, addressed to the pending transfer target whose matched index equals the leader's last index (every Raft step and every RawNode entry point); while a transfer is pending proposals and conf-change proposals return ProposalDropped with the state unchanged; the transfer timer: the tick at which election_elapsed reaches election_timeout clears the transfer, a leader step leaves (target, elapsed) alone, clears it, or starts a new transfer with elapsed 0, and any interleaving of RawNode calls containing enough ticks ends with no transfer pending (from every state reached from RawNode::new); every reset and the removal of the target from the voters clears it; requests naming an unknown node, a learner, the current target or the leader itself are exact no-ops / cancel only; the forced vote skips pre-vote, carries CAMPAIGN_TRANSFER and bypasses the check-quorum lease; a follower obeys MsgTimeoutNow only if promotable. COMPLETION (three voters, lock-step full-mesh schedule, all queues empty, equal logs, no timer due within three rounds): after the transfer request and three rounds the target is Leader of term+1 with its log = the old log plus its no-op (hence every entry the old leader had), the old leader and the third voter are Followers of term+1 that voted for the target, the transfer is cleared; after a fourth round both know the target as leader (C17_transfer_completes, C17_transfer_completes_log, with the per-node steps pinned: transfer_starts, target_campaigns, voter_grants_forced, candidate_wins, follower_adopts_leader).",
    "of the cluster-level clause the safety half is pinned from the abstract protocol (whoever leads a term - a transfer target included - holds every commit point of earlier terms with identical entries and is the only leader of its term: C17_new_leader_holds_committed, C17_one_leader_per_term; fixed configuration); completion is proved for exactly three voters under the lock-step schedule only (not for asynchronous, lossy or interleaved schedules, nor for lagging logs); expiry under an unbounded stream of new transfer requests is excluded by hypothesis.",
    "DESIGN.md section 7, C17",
    "Theorems: Props/C17.v over M/Raft.v, M/RawNode.v. Tie: pointwise differential, projection transfer+hard+timers+results+vote/other traffic.")

SPECS["C13"] = node_spec(
    "C13", ["progress", "msgs.repl", "uncommitted", "result", "log"], "flow_control",
    "Props/C13.v (59 pinned theorems, every node state and input): nothing is sent to a paused peer (snapshot outstanding, probe paused, window full), with the state unchanged; the exact shape of what maybe_send_append queues (one message; snapshot or append anchored at (next_idx-1, its term), entries as read from the log, commit = committed) and its effect on the progress (probe pauses after an entry-carrying append and stays paused on every later call; replicate consumes exactly one window slot, requires the window not full); entries of an emitted append are contiguous from the anchor, are the log's own entries, and respect max_size_per_msg unless a single entry (batching off); batching rewrites only the first queued append for the peer, keeps its anchor and contiguity (the defect found here, merging into an empty append anchored elsewhere, was fixed in /repo); the in-flight window invariant count <= cap is preserved by every Progress operation, by the whole Raft API and by every RawNode entry point, and no panic comes from the window; heartbeats carry commit = min(matched, committed); the uncommitted-size rule is characterised exactly (refused iff limited, non-empty payload, something outstanding and the sum exceeds the maximum); a proposal is dropped on a leader exactly for the four listed reasons; every queued append/heartbeat carries m_commit <= committed (invariant of the whole API).",
    "every MsgAppend in the queue, in a Ready or in a LightReady of any state reached from RawNode::new carries contiguous entries (queue invariant AppOK, batching on or off); that a queued MsgAppend stays a slice of the leader's CURRENT log across later steps needs leader-append-only (proved at P level, C05) and is not an invariant here (the log may be truncated while a message waits); cap = max_inflight_msgs at all times and the identification of window elements with unacknowledged messages are not proved; the size clause is stated with batching off, as in the property.",
    "DESIGN.md section 7, C13",
    "Theorems: Props/C13.v over M/Raft.v, M/Progress.v, M/Inflights.v, M/RaftLog.v. Tie: pointwise differential, projection progress+replication traffic+uncommitted+results+log.")

SPECS["C07"] = node_spec(
    "C07", ["result", "rawnode", "log"], "ready_contract",
    "Props/C07.v (54 pinned theorems over every RawNode state unless an invariant is named): has_ready is true exactly when ready() would be non-empty; must_sync iff entries, a snapshot or a term/vote change are included; a Ready carries exactly the unstable suffix, the hard/soft state iff changed (then current), number = max_number+1 and pushes exactly one record; committed entries handed out are, under the RaftLog representation invariant of C14, limit_size of the logical log between max(commit_since_index+1, first) and min(committed, persisted+limit): contiguous, equal to the log's entries, above commit_since_index, at most committed, and with limit 0 only persisted entries (the former overflow defect for limit u64::MAX, fixed in /repo, is pinned as now total); commit_since_index never decreases and moves to the last handed-out entry or the snapshot index (then no committed entries in that Ready); on_persist_ready removes exactly the records up to the number and reports the last snapshot / (index, term); commit_ready panics exactly on the three contract breaches; a Ready that changes term or vote carries no immediate message and immediate messages occur only for a leader with no such change outstanding (fix 4e5e493); advancing the Ready just produced cannot panic and the next Ready carries nothing twice; lifetime level: over any non-panicking sequence of RawNode calls and storage writes from RawNode::new, the committed entries handed out have exactly the indexes start+1 .. commit_since_index in order, restarting at the snapshot index after a snapshot Ready.",
    "the RaftLog representation invariant at hand-out points is now DERIVED along any trace from RawNode::new (C14 node level; handout_contiguous_from_new2), leaving one caller-side condition: the application does not compact beyond commit_since_index+1 between a ready and its advance; 'no altered entry over time' relies on committed-prefix immutability (C05/C01 at P level); the storage contents after each persisted Ready belong to the application.",
    "DESIGN.md section 7, C07",
    "Theorems: Props/C07.v over M/RawNode.v, M/Raft.v, M/RaftLog.v. Tie: pointwise differential, projection results (Ready/LightReady contents) + RawNode bookkeeping + log.")

SPECS["C08"] = node_spec(
    "C08", ["read", "result", "msgs.other", "msgs.resp"], "read_index",
    "Props/C08.v (61 pinned theorems, every node state and message): the ReadOnly queue behaves as a duplicate-free FIFO with one pending entry per context (add, ack, advance; advance pops exactly the prefix through the acknowledged context, never panics under the invariant); a leader without a commit in its own term drops read requests; in Safe mode a request is recorded with the leader's commit index and one ctx-tagged heartbeat goes to every peer; read states and MsgReadIndexResp are released in handle_heartbeat_response only for a pending context whose acknowledgements plus the sender form a quorum, and exactly the queue prefix is served with the recorded indexes; the complete account of where read states come from in step (three origins) and that every other message type leaves them alone; responses are routed to the originating node only; every reset (follower/candidate/leader transition, higher term) drops all pending reads; heartbeat responses echo the context at the follower's term, lower-term heartbeats get no ack; step never lowers the commit index; RawNode::new starts with no pending read. Defect found by the monitor and fixed in /repo (6a9ae91): a removed/demoted leader with one remaining voter answered locally through the single-voter shortcut - regression guard pinned (a Safe leader that is not a voter never answers at once). CLUSTER LEVEL (abstract protocol P/Read.v on top of P/Log.v; every execution with crashes, restarts, message loss/duplication/reordering): every served read carries an index at least as large as every commit point - hence every node's commit index - that existed when the request was recorded (C08_read_linearizable, C08_read_index_ge_commit); a leader whose request-time snapshot already contains a commit point of a later term never answers (C08_stale_leader_silent); reads are served only on the requesting leader while it still leads the same term; the guard that heartbeat acknowledgements count only if created after the request is shown NECESSARY by a refutation witness. Tied to the code by the acceptor P/ReadAccept.v (proved sound) run on the read-layer event trace of every simulated execution (requests recorded, heartbeat acknowledgements created, reads served; Safe mode runs).",
    "fixed voter configuration within an execution and no single-node quorum for the cluster-level theorems (a read racing a membership change is covered only by the node-level theorems, the pointwise differential and the monitor); request contexts are assumed unique per leader and term (a reused context is refused by the abstract rule).",
    "DESIGN.md section 7, C08",
    "Theorems: Props/C08.v over M/Raft.v (ReadOnly, step), M/RawNode.v. Ties: (A) pointwise differential, projection read-only state + read states + results + heartbeat/read traffic; (B) read-layer acceptor on P-level traces.",
    acceptor="pread")

SPECS["C10"] = node_spec(
    "C10", ["progress", "msgs.repl", "msgs.resp", "timers", "hard", "result"], "progress",
    "Props/C10.v (43 pinned theorems): the deterministic content of progress, for every node state and message: a heartbeat response un-pauses the peer, frees one in-flight slot of a full window and makes the leader send (the exact append or snapshot) in the same step; a rejection repairs next_idx (exact formula; strictly decreasing towards matched+1) and re-probes at once; a successful acknowledgement raises matched and moves Probe to Replicate / Snapshot to Probe; snapshot status reports and unreachable reports leave the Snapshot / Replicate state: no Progress state is absorbing; the election timer fires hup after exactly max(1, randomized_timeout - elapsed) ticks and hup on a promotable non-leader with no unapplied membership change always campaigns; at the election timeout a check-quorum leader steps down iff the recently active set is not a quorum; a leader queues exactly one heartbeat per peer every heartbeat_timeout ticks; and a convergence theorem for one leader and one follower of the same term under a lock-step round (deliver, reply, tick): within (heartbeat_timeout+2)*((last-matched)*(last+3)+last+2) rounds without a panic the follower's log equals the leader's and matched = last index, from any Probe/Replicate progress state (paused or not, any window contents) and any divergent follower tail; lifted to the whole cluster (star_convergence: a leader and ANY number of followers, lock-step star schedule, bound = the maximum of the per-follower bounds; the per-follower measures decrease independently - a frame lemma, with the naive 'another follower's response never moves next_idx' refuted by a witness) and with the commit clause (star_commit_all: if the leader's last entry has its term and its own log is persisted, then after the run the leader's commit index equals its last index, and after one more heartbeat period every follower's does).",
    "the cluster-level liveness statement itself (eventually exactly one leader - depends on the random timeouts; whole-cluster convergence; a new proposal applied everywhere) is not a theorem: it is only exercised by the progress monitor (fair fault-free suffix after a random fault prefix) in the search. The proposal clause (a new entry proposed after convergence is applied everywhere) is not proved (it needs the majority form of the quorum argument and RawNode-level persistence). The pair/star theorems exclude batching, check_quorum, read-index traffic, compaction past matched, a pending window shrink and proposals during the run. KNOWN FINDING (liveness, open): a follower's request_snapshot above the leader's commit index can stall a group that needs that follower for its quorum (known_findings.txt).",
    "DESIGN.md section 7, C10",
    "Theorems: Props/C10.v over M/Raft.v, M/Progress.v, M/Inflights.v. Tie: pointwise differential, projection progress + replication traffic + timers + hard state + results. The progress monitor runs on every check (known finding reported as KNOWN-FINDING).")
SPECS["C10"]["always_monitor"] = True

SPECS["C20"] = node_spec(
    "C20", ["panic", "result"], "no_panic",
    "Props/C20.v (341 pinned theorems; in the models every fatal!/assert!/panic!/unwrap/index/overflow of the Rust is a value `Panic site`, so 'no panic' is a statement about values): RawNode::step rejects the five local message types and responses of untracked peers with the documented errors and returns the node unchanged, passing everything else on unchanged; a SITE TABLE for every function of the Raft and RawNode models and the components they call (f args = Panic s -> s in an explicit list; exact 'fires iff' characterisations for the leaf functions and the state transitions); an invariant NodeInv (in-flight windows well formed, next_idx >= 1, ReadOnly queue = pending keys) that holds after Raft::new / RawNode::new and, for EVERY API function of Raft and RawNode, is preserved on Ok while on Panic the site is never one of the 14 node-local sites (Inflights, update_state, next_idx underflow, ReadOnly lookup, Progress unwrap); commit_ready directly after ready never panics; with the RaftLog representation invariant lifted to the node (C14 node level) a second family: for every Raft function and every RawNode entry point, under NodeInv and LogOK (and well-formed inbound messages), a Panic is none of 21 further log/storage-shape sites (unstable slice, term lookup, last_term, append range, slice bounds, next_entries, scan, MemStorage read sites), and the trace theorem: along any non-panicking trace of RawNode calls and application storage writes from RawNode::new, the NEXT call cannot panic at any of these 35 sites; every model panic site is classified in the header (proved unreachable / needs protocol or storage invariants not proved here / misuse only / known reachable). Witnesses (vm_compute) for the reachable panics found: one still open (a term-0 node rejecting a pre-vote by priority, KNOWN FINDING F9), five fixed in /repo during this work and pinned as regression guards (self-removed leader, campaign of a removed node, leader with an unpersisted tail, persisted+limit overflow, hup scanning compacted entries).",
    "the peer-dependent sites (append conflict below commit 1411, commit_to out of range 1412, restore mismatch, hint term, …) need protocol-level invariants about the messages of library peers; commit_info (1422) needs compaction strictly below the commit index and the MemStorage snapshot sites depend on the hard state the application wrote; they are classified (and characterised exactly where possible) but NOT proved unreachable: for those the property is only exercised by the no_panic monitor (run on every check) and the panic-site comparison of the pointwise differential.",
    "DESIGN.md section 7, C20",
    "Theorems: Props/C20.v over M/Raft.v, M/RawNode.v and components. Ties: pointwise differential on panic sites and results of every simulated call (adversarial runs included); structural: the syntactic panic sites of the modelled sources equal the committed inventory site_inventory.json; the no_panic monitor runs on every check.")
SPECS["C20"]["always_monitor"] = True
SPECS["C20"]["site_inventory"] = True

SPECS["C09"] = node_spec(
    "C09", ["conf", "hard", "log", "result"], "conf_change",
    "Props/C09.v (46 pinned theorems, every node state and input): the proposal filter is characterised completely (a conf-change entry is kept iff nothing is pending and it fits the joint state, otherwise replaced by an empty normal entry; a decode error drops the proposal; at most one survives a proposal); the leader invariant 'every conf-change entry above applied is at or below pending_conf_index' is established by become_leader and preserved by every function of the Raft and RawNode models; no node campaigns (timeout, MsgHup, MsgTimeoutNow) while has_unapplied_conf_changes answers true, and a (pre-)candidate that learns a committed conf change through vote traffic steps down; a non-promotable node never campaigns by tick or MsgTimeoutNow and promotable = voter after every configuration switch; a rejected apply_conf_change leaves the node untouched and a successful one yields exactly the ConfChange model's configuration (C12); auto-leave is proposed once.",
    "the cross-node clause is proved as: the configuration and tracked ids of a node are conf_after(initial ConfState, applied membership changes in order) - established by RawNode::new, extended by every successful apply, kept by every other entry point except snapshot install, reproduced by a restart from the stored ConfState and by a snapshot install - so two nodes with the same (initial ConfState, applied changes) have equal configurations; assumed of the application: it applies exactly the committed membership entries in log order and stores the returned ConfState; that equal applied indexes mean equal change lists is log matching (C05/C01). The literal whole-log 'at most one conf entry beyond applied' are protocol-level and not proved (the latter is refuted for a restarted node whose applied index lags, with a witness)",
    "DESIGN.md section 7, C09",
    "Theorems: Props/C09.v over M/Raft.v, M/RawNode.v. Tie: pointwise differential, projection conf+hard+log+results.")

SPECS["C09"]["incoq"] = {"quick": 40, "thorough": 200}

# The cluster-safety monitors (search only, implementation alone) also run on every check of C01-C05:
# they cover executions in which the membership changes, where the P-level traces end.
for _pid in ("C01", "C02", "C03", "C04", "C05"):
    SPECS[_pid]["always_monitor"] = True

# Component mechanics a node-level property's statement rests on: the component's own lockstep
# differential (cached, shared with the component property) is part of that property's tie.
for _pid, _comps in (("C05", ["C14"]), ("C03", ["C14"]), ("C07", ["C14"]), ("C15", ["C14"]),
                     ("C13", ["C18"]), ("C04", ["C11"]), ("C09", ["C12"])):
    SPECS[_pid]["components"] = _comps

# C08: the read-layer trace extraction recognises reads released by an acknowledgement counted for
# a re-recorded duplicate request (known finding); the read_index monitor and the scripted scenario
# run on every check
SPECS["C08"]["trace_findings"] = ["stale-read-by-duplicates"]
SPECS["C08"]["always_monitor"] = True
