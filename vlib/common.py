"""Shared plumbing for /verif checks: paths, locked builds, proof status,
component differential (impl vs extracted model vs in-Coq vm_compute), evidence."""
import fcntl, hashlib, json, os, random, re, subprocess, sys, time

ROOT = os.path.dirname(os.path.dirname(os.path.abspath(__file__)))
COQ = os.path.join(ROOT, "coq")
OCAML = os.path.join(ROOT, "ocaml")
HARNESS = os.path.join(ROOT, "harness")
BUILD = os.path.join(ROOT, "build")
TARGET = os.path.join(BUILD, "target")
VH = os.path.join(TARGET, "debug", "vharness")
DRIVER = os.path.join(OCAML, "_build", "default", "driver.exe")
GUARD = "tikv_raft_rs_verif"

FORBIDDEN = re.compile(
    r"\b(Admitted|admit|Axiom|Axioms|Parameter|Parameters|Conjecture|Hypothesis|Variable|Variables)\b"
    r"|Unset\s+Guard|bypass_check|Admit\s+Obligations|type-in-type|impredicative-set|Unset\s+Universe\s+Checking|Unset\s+Positivity")

# axioms a property theorem may depend on (must also be named in DESIGN.md section 9)
ALLOWED_AXIOMS = set()


def env_offline():
    e = dict(os.environ)
    e.update({"CARGO_NET_OFFLINE": "true", "CARGO_TARGET_DIR": TARGET,
              "RUSTFLAGS": "--cfg " + GUARD})
    return e


class Lock:
    def __init__(self, name):
        os.makedirs(BUILD, exist_ok=True)
        self.path = os.path.join(BUILD, name + ".lock")
    def __enter__(self):
        self.f = open(self.path, "w")
        fcntl.flock(self.f, fcntl.LOCK_EX)
    def __exit__(self, *a):
        fcntl.flock(self.f, fcntl.LOCK_UN)
        self.f.close()


def run(cmd, cwd=None, env=None, timeout=3600, inp=None):
    p = subprocess.run(cmd, cwd=cwd, env=env, timeout=timeout, input=inp,
                       stdout=subprocess.PIPE, stderr=subprocess.STDOUT, text=True)
    return p.returncode, p.stdout


def log(msg):
    print(msg, flush=True)


# ----------------------------------------------------------------------------
# builds

def build_coq(targets=None):
    """Full .vo build (never -vos) of the whole development or of some targets."""
    with Lock("coq"):
        if not os.path.exists(os.path.join(COQ, "Makefile")):
            rc, out = run(["coq_makefile", "-f", "_CoqProject", "-o", "Makefile"], cwd=COQ)
            if rc != 0:
                return False, out
        cmd = ["timeout", "3000", "make", "-j16"] + (targets or [])
        rc, out = run(cmd, cwd=COQ, timeout=3100)
        return rc == 0, out


def build_ocaml():
    """Copy the extracted model next to the driver and build it."""
    with Lock("ocaml"):
        for f in ("model.ml", "model.mli"):
            src = os.path.join(COQ, f)
            dst = os.path.join(OCAML, f)
            if not os.path.exists(src):
                return False, "extraction output %s missing" % src
            if not os.path.exists(dst) or open(src).read() != open(dst).read():
                with open(dst, "w") as o:
                    o.write(open(src).read())
        rc, out = run(["timeout", "900", "dune", "build", "./driver.exe"], cwd=OCAML)
        return rc == 0, out


def build_harness():
    """Rebuild the harness against /repo's current working tree (path dependency)."""
    with Lock("cargo"):
        lock_src = "/repo/Cargo.lock"
        lock_dst = os.path.join(HARNESS, "Cargo.lock")
        if not os.path.exists(lock_dst):
            with open(lock_dst, "w") as o:
                o.write(open(lock_src).read())
        rc, out = run(["timeout", "1800", "cargo", "build", "--offline"], cwd=HARNESS,
                      env=env_offline(), timeout=1900)
        return rc == 0, out


# ----------------------------------------------------------------------------
# proof status

def strip_comments(src):
    out, depth, i = [], 0, 0
    while i < len(src):
        if src.startswith("(*", i):
            depth += 1; i += 2
        elif src.startswith("*)", i) and depth > 0:
            depth -= 1; i += 2
        else:
            if depth == 0:
                out.append(src[i])
            i += 1
    return "".join(out)


def forbidden_scan():
    """No Admitted/admit/Axiom/... anywhere in the development."""
    hits = []
    for d, _, fs in os.walk(COQ):
        for f in fs:
            if f.endswith(".v"):
                p = os.path.join(d, f)
                code = strip_comments(open(p).read())
                # Section-local Variable/Hypothesis are allowed only inside Sections:
                for m in FORBIDDEN.finditer(code):
                    w = m.group(0)
                    if w in ("Hypothesis", "Variable", "Variables"):
                        before = code[:m.start()]
                        if before.count("Section ") > len(re.findall(r"\bEnd\s+\w+\s*\.", before)):
                            continue
                    line = code[:m.start()].count("\n") + 1
                    hits.append("%s:%d:%s" % (os.path.relpath(p, ROOT), line, w))
    return hits


PROPS_ALLOWED = re.compile(
    r"^\s*(From\s.*Require\s+Import.*|Require\s+Import.*|Import\s.*|Theorem\s|Proof\.|Qed\.|exact\s|Print\s+Assumptions\s|Check\s|Open\s+Scope|Local\s+Open\s+Scope|$)")


def proof_status(prop_id):
    """Compiles Props/<id>.v afresh (its dependencies via make), returns
    dict(obligations, discharged, theorems=[(name, assumptions)], problems=[...])."""
    res = {"obligations": 0, "discharged": 0, "theorems": [], "problems": []}
    pf = os.path.join(COQ, "Props", prop_id + ".v")
    if not os.path.exists(pf):
        res["problems"].append("no Props file")
        return res
    ok, out = build_coq(["Props/%s.vo" % prop_id])
    if not ok:
        res["problems"].append("coq build failed: " + out[-1500:])
    src = strip_comments(open(pf).read())
    names = re.findall(r"\bTheorem\s+(\w+)", src)
    res["obligations"] = len(names)
    # lint: statements only (Examples = non-vacuity witnesses with their own short proofs are allowed)
    src_lint = re.sub(r"\bExample\b.*?\bQed\.", "", src, flags=re.S)
    for sentence in re.split(r"(?<=\.)\s+", src_lint):
        s = sentence.strip()
        if not s:
            continue
        if re.match(r"^(From|Require|Import|Theorem|Proof\.|Qed\.|exact|Print Assumptions|Local Open Scope|Open Scope)", s):
            continue
        if s.startswith("Proof. exact"):
            continue
        res["problems"].append("Props/%s.v contains a sentence that is not a pinned statement: %s" % (prop_id, s[:80]))
        break
    if ok:
        os.makedirs(os.path.join(BUILD, "props"), exist_ok=True)
        tmp_vo = os.path.join(BUILD, "props", prop_id + ".vo")
        rc, out = run(["timeout", "900", "coqc", "-noglob", "-Q", ".", "RV", "-o", tmp_vo,
                       "Props/%s.v" % prop_id], cwd=COQ)
        if rc != 0:
            res["problems"].append("Props/%s.v does not compile: %s" % (prop_id, out[-1500:]))
        else:
            # Print Assumptions output blocks, in order of appearance
            blocks = re.split(r"(?=Closed under the global context|Axioms:)", out)
            blocks = [b for b in blocks if b.startswith("Closed") or b.startswith("Axioms:")]
            for i, n in enumerate(names):
                if i >= len(blocks):
                    res["theorems"].append((n, "no Print Assumptions output"))
                    res["problems"].append("theorem %s has no Print Assumptions" % n)
                    continue
                b = blocks[i]
                if b.startswith("Closed"):
                    res["theorems"].append((n, "Closed under the global context"))
                    res["discharged"] += 1
                else:
                    ax = re.findall(r"^\s*([\w.]+)\s*:", b[len("Axioms:"):], re.M)
                    bad = [a for a in ax if a not in ALLOWED_AXIOMS]
                    res["theorems"].append((n, "Axioms: " + ", ".join(ax)))
                    if bad:
                        res["problems"].append("theorem %s depends on non-allowlisted axioms %s" % (n, bad))
                    else:
                        res["discharged"] += 1
    hits = forbidden_scan()
    if hits:
        res["problems"].append("forbidden vernacular: " + "; ".join(hits[:10]))
        res["discharged"] = 0
    return res


# ----------------------------------------------------------------------------
# component differential

def shard_files(rundir, prefix, kind):
    fs = [f for f in os.listdir(rundir) if f.startswith(prefix + "." + kind + ".")]
    fs.sort(key=lambda f: int(f.split(".")[-2]))
    return [os.path.join(rundir, f) for f in fs]


def run_model_on_shards(rundir, prefix):
    """Runs the extracted model over every cases shard in parallel; returns
    (n_cases, first_disagreement or None) where a disagreement is
    dict(case=..., impl=..., model=..., file=..., line=...)."""
    cases = shard_files(rundir, prefix, "cases")
    procs = []
    for c in cases:
        m = c.replace(".cases.", ".model.")
        fin = open(c); fout = open(m, "w")
        procs.append((subprocess.Popen([DRIVER], stdin=fin, stdout=fout, stderr=subprocess.PIPE), c, m, fin, fout))
    total, first, ndis = 0, None, 0
    for p, c, m, fin, fout in procs:
        _, err = p.communicate()
        fin.close(); fout.close()
        i = c.replace(".cases.", ".impl.")
        if p.returncode != 0:
            return total, {"case": "model driver failed", "impl": "", "model": err.decode()[-500:], "file": c, "line": 0}, 1
        with open(c) as fc, open(i) as fi, open(m) as fm:
            for ln, (lc, li, lm) in enumerate(zip(fc, fi, fm), 1):
                total += 1
                if li != lm:
                    ndis += 1
                    if first is None:
                        first = {"case": lc.strip(), "impl": li.strip(), "model": lm.strip(), "file": c, "line": ln}
            # length mismatch
        n_c = sum(1 for _ in open(c)); n_m = sum(1 for _ in open(m))
        if n_c != n_m and first is None:
            first = {"case": "line count mismatch", "impl": str(n_c), "model": str(n_m), "file": c, "line": 0}
            ndis += 1
    return total, first, ndis


def incoq_sample(rundir, prefix, runfun, module, k, rng, maxlen=4000):
    """Re-evaluates a random sample of the cases inside Coq (vm_compute) and
    compares with the implementation's answers. Returns (n, problem or None)."""
    cases = shard_files(rundir, prefix, "cases")
    picked = []      # reservoir sample of size k (memory independent of the number of cases)
    seen = 0
    for c in cases:
        i = c.replace(".cases.", ".impl.")
        with open(c) as fc, open(i) as fi:
            for lc, li in zip(fc, fi):
                if len(lc) + len(li) <= maxlen:
                    seen += 1
                    if len(picked) < k:
                        picked.append((lc, li))
                    else:
                        j = rng.randrange(seen)
                        if j < k:
                            picked[j] = (lc, li)
    picked = [(lc.split()[1:], li.split()) for lc, li in picked]
    if not picked:
        return 0, None
    vf = os.path.join(rundir, prefix.replace("-", "_") + "_cases.v")
    def lst(xs):
        return "[" + "; ".join(xs) + "]%N"
    with open(vf, "w") as o:
        o.write("From RV Require Import Base.Prelude %s.\n" % module)
        for n, (inp, out) in enumerate(picked):
            o.write("Example s%d : %s %s = %s.\nProof. vm_compute. reflexivity. Qed.\n" % (n, runfun, lst(inp), lst(out)))
    rc, out = run(["timeout", "900", "coqc", "-noglob", "-Q", COQ, "RV", vf], cwd=rundir)
    if rc != 0:
        return len(picked), "in-Coq evaluation disagrees with the implementation: " + out[-800:]
    return len(picked), None


def write_evidence(prop_id, ev):
    d = os.path.join(ROOT, "evidence")
    os.makedirs(d, exist_ok=True)
    with open(os.path.join(d, prop_id + ".json"), "w") as o:
        json.dump(ev, o, indent=1, sort_keys=True)
        o.write("\n")


def repo_tree_hash():
    rc, out = run(["git", "-C", "/repo", "rev-parse", "HEAD"])
    rc2, diff = run(["git", "-C", "/repo", "diff", "HEAD"])
    return out.strip() + ("+" + hashlib.sha1(diff.encode()).hexdigest()[:10] if diff.strip() else "")


def write_replay(prop_id, seed, body):
    d = os.path.join(BUILD, "replays")
    os.makedirs(d, exist_ok=True)
    n = 0
    while os.path.exists(os.path.join(d, "%s-%s-%d.replay" % (prop_id, seed, n))):
        n += 1
    p = os.path.join(d, "%s-%s-%d.replay" % (prop_id, seed, n))
    with open(p, "w") as o:
        o.write(body)
    return p
