"""Check flow for node-level properties: pointwise differential of the Raft/RawNode
model against RawNode<SimStorage> on simulated cluster runs, compared per
projection (sections of the state dump / message classes)."""
import collections, hashlib, json, os, random, shutil, subprocess, sys, time
from . import common as C

BASE = 1 << 64
SECTIONS = {1: "result", 2: "hard", 3: "log", 4: "timers", 5: "progress", 6: "conf", 7: "msgs",
            8: "read", 9: "transfer", 10: "uncommitted", 11: "rawnode", 12: "config", 13: "store"}
MSG_MARK = BASE + 100
VOTE_T = {5, 6, 17, 18}
REPL_T = {3, 7, 8}
RESP_T = {4, 9}

TIERS = {
    "quick": ["--runs", "200", "--steps", "500"],
    "thorough": ["--runs", "1500", "--steps", "800"],
}


def msg_class(t):
    if t in VOTE_T:
        return "msgs.vote"
    if t in REPL_T:
        return "msgs.repl"
    if t in RESP_T:
        return "msgs.resp"
    return "msgs.other"


def split_sections(line):
    """token line -> dict key -> tuple of tokens. Messages are routed to message classes
    (wherever they occur: outbound queue or Ready/LightReady results)."""
    out = collections.defaultdict(list)
    toks = line.split()
    cur = "head"
    i = 0
    n = len(toks)
    while i < n:
        t = toks[i]
        if len(t) >= 20:
            v = int(t)
            if v >= BASE:
                k = v - BASE
                if k == 100:
                    # a message: runs to the next marker
                    j = i + 1
                    while j < n and not (len(toks[j]) >= 20 and int(toks[j]) >= BASE):
                        j += 1
                    body = toks[i + 1:j]
                    cls = msg_class(int(body[0])) if body else "msgs.other"
                    out[cls].append(" ".join(body))
                    i = j
                    continue
                cur = SECTIONS.get(k, "sec%d" % k)
                i += 1
                continue
        out[cur].append(t)
        i += 1
    res = {k: tuple(v) for k, v in out.items()}
    # derived key: the role alone (SEC_HARD = term vote role leader_id votes...)
    if len(res.get("hard", ())) >= 3:
        res["hard.role"] = (res["hard"][2],)
    # derived keys: the commit index alone; (id, matched) of every tracked peer alone
    if res.get("log"):
        res["log.commit"] = (res["log"][0],)
    # derived key: what every message says about commitment: (type, to, commit, commit_term)
    mc = []
    for cls in ("msgs.vote", "msgs.repl", "msgs.resp", "msgs.other"):
        for body in res.get(cls, ()):
            b = body.split()
            try:
                k = 6                                    # type to from term log_term index | entries…
                n_e = int(b[k]); k += 1
                for _ in range(n_e):
                    k += 3                               # type term index
                    k += 1 + int(b[k])                   # data
                    k += 1 + int(b[k])                   # context
                mc.append((b[0], b[1], b[k], b[k + 1]))
            except (IndexError, ValueError):
                mc.append(tuple(b))
    if mc:
        res["msgs.commit"] = tuple(sorted(mc))
    pr = res.get("progress")
    if pr:
        try:
            out_m = []
            k = 1
            for _ in range(int(pr[0])):
                out_m.append((pr[k], pr[k + 1]))        # id, matched
                k += 8                                   # id matched next state paused psnap preq active
                k += 3                                   # inflights: start count cap
                k += 2 if pr[k] != "0" else 1            # incoming cap option
                k += 1                                   # allocated
                k += 1 + int(pr[k])                      # buffer
                k += 2                                   # commit_group_id committed_index
            res["progress.matched"] = tuple(out_m)
        except (IndexError, ValueError):
            res["progress.matched"] = tuple(pr)
    return res


def diff_keys(model_line, impl_line):
    """Which projections differ between the model's and the implementation's answer."""
    mt = model_line.split(None, 3)
    it = impl_line.split(None, 3)
    mp = len(mt) > 1 and mt[1] == "999999"
    ip = len(it) > 1 and it[1] == "999999"
    if mp or ip or mt[:1] == ["888888"]:
        return {"panic"}
    a = split_sections(model_line)
    b = split_sections(impl_line)
    keys = set()
    for k in set(a) | set(b):
        if a.get(k) != b.get(k):
            keys.add(k)
    return keys


def cache_key(tier, seed):
    h = hashlib.sha1()
    h.update(C.repo_tree_hash().encode())
    for p in (C.VH, C.DRIVER):
        st = os.stat(p)
        h.update(("%s:%d:%d" % (p, st.st_mtime_ns, st.st_size)).encode())
    h.update(("v24:%s:%s" % (tier, seed)).encode())
    return h.hexdigest()[:16]


def run_differential(tier, seed):
    """Generates simulated runs on the implementation, runs the extracted model on every
    call, and returns a summary dict (cached per repo tree / binaries / tier / seed)."""
    key = cache_key(tier, seed)
    d = os.path.join(C.BUILD, "run", "node-" + key)
    summ = os.path.join(d, "summary.json")
    with C.Lock("nodecache"):
        if os.path.exists(summ):
            return json.load(open(summ)), d
        # drop older caches
        rd = os.path.join(C.BUILD, "run")
        os.makedirs(rd, exist_ok=True)
        for f in os.listdir(rd):
            if f.startswith("node-") and f != "node-" + key:
                shutil.rmtree(os.path.join(rd, f), ignore_errors=True)
        shutil.rmtree(d, ignore_errors=True)
        os.makedirs(d)
        # structural tie (escalation): functions of the modelled sources whose text differs from the
        # committed fingerprints get three times as many simulated executions (not an alarm by itself)
        rc_f, out_f = C.run([sys.executable, os.path.join(C.ROOT, "tools", "fn_fingerprints.py")])
        changed_fns = [l.strip() for l in out_f.splitlines() if "::" in l] if rc_f == 0 else []
        args = list(TIERS[tier])
        if changed_fns:
            k = args.index("--runs")
            args[k + 1] = str(int(args[k + 1]) * 3)
            C.log("[node] %d modelled function(s) changed (%s): %s simulated runs" % (len(changed_fns), ", ".join(changed_fns[:4]), args[k + 1]))
        rc, out = C.run([C.VH, "node"] + args + ["--seed", str(seed), "--out", d], timeout=6000)
        if rc != 0:
            raise RuntimeError("node simulator failed: " + out[-1500:])
        hist, panics, trace_findings = {}, {}, {}
        for line in out.splitlines():
            p = line.split(None, 2)
            if p and p[0] == "hist":
                hist[p[1]] = int(p[2])
            if p and p[0] == "panic":
                panics[p[2]] = int(p[1])
            if p and p[0] == "finding" and len(p) == 3:
                trace_findings[p[1]] = int(p[2])
        n, first, nd = C.run_model_on_shards(d, "node-sim")
        # sectional analysis of the disagreeing lines only
        dis = []
        classes = collections.Counter()
        for c in C.shard_files(d, "node-sim", "cases"):
            i = c.replace(".cases.", ".impl.")
            m = c.replace(".cases.", ".model.")
            me = c.replace(".cases.", ".meta.")
            with open(i) as fi, open(m) as fm, open(me) as fe:
                for ln, (li, lm, le) in enumerate(zip(fi, fm, fe), 1):
                    classes[" ".join(le.split()[:3])] += 1
                    if li != lm:
                        ks = set(diff_keys(lm, li))
                        # derived key: the role differs after a call made while a committed membership
                        # entry was unapplied (meta flag "ucc"): the campaign guards that keep a node's
                        # configuration at most one change behind its log - what the cluster-safety
                        # properties rest on under membership change
                        if "hard.role" in ks and le.rstrip().endswith(" ucc"):
                            ks.add("conf.guard")
                        dis.append({"file": c, "line": ln, "meta": le.strip(),
                                    "keys": sorted(ks)})
        # tie (B): the acceptors of P (election layer, log layer) over the P-level event traces of the same runs
        acc = {}
        for pref, key in (("pel-sim", "pelection"), ("plog-sim", "plog"), ("pread-sim", "pread")):
            pn, pfirst, pnd = C.run_model_on_shards(d, pref)
            prej = []
            for c in C.shard_files(d, pref, "cases"):
                m = c.replace(".cases.", ".model.")
                with open(m) as fm:
                    for ln, lm in enumerate(fm, 1):
                        if not lm.startswith("1 "):
                            prej.append({"file": c, "line": ln, "answer": lm.strip()})
            pev = 0
            for c in C.shard_files(d, pref, "impl"):
                with open(c) as f:
                    for l in f:
                        pev += int(l.split()[1])
            acc[key] = {"traces": pn, "events": pev, "rejects": prej[:200]}
        pn, pev, prej = acc["pelection"]["traces"], acc["pelection"]["events"], acc["pelection"]["rejects"]
        s = {"acceptors": acc, "pel_traces": pn, "pel_events": pev, "pel_rejects": prej[:200],
             "cases": n, "disagreements": len(dis), "dis": dis[:2000], "hist": hist, "panics": panics,
             "classes": len(classes), "class_hist": dict(classes.most_common(12)), "dir": d,
             "changed_functions": changed_fns, "trace_findings": trace_findings}
        json.dump(s, open(summ, "w"))
        return s, d


def get_line(path, ln):
    with open(path) as f:
        for k, l in enumerate(f, 1):
            if k == ln:
                return l.rstrip("\n")
    return ""


def check(spec, tier, seed, replay=None):
    t0 = time.time()
    pid = spec["id"]
    rng = random.Random(seed)
    comp_ties = []
    broken = []
    if replay:
        ok, out = C.build_harness()
        if not ok:
            print("harness build failed\n" + out[-2000:]); return 1
        args = None
        for line in open(replay):
            if line.startswith("replay-args: "):
                args = line[len("replay-args: "):].split()
        if not args:
            print("replay file has no concrete schedule (no-failing-input-found)"); return 1
        rc, out = C.run([C.VH, "monitor"] + args, timeout=3000)
        print(out[-4000:])
        return 1 if "FAIL" in out else 0

    C.log("[%s] proof status" % pid)
    ps = C.proof_status(pid, coqchk=(tier == "thorough"))
    for p in ps["problems"]:
        broken.append("proof: " + p)
    ok, out = C.build_coq()
    if not ok:
        broken.append("coq development does not build: " + out[-800:])
    ok, out = C.build_ocaml()
    if not ok:
        broken.append("extracted model does not build: " + out[-800:])
    C.log("[%s] building harness against /repo working tree" % pid)
    okh, out = C.build_harness()
    summ = {"cases": 0, "disagreements": 0, "dis": [], "hist": {}, "panics": {}, "classes": 0, "class_hist": {},
            "pel_traces": 0, "pel_events": 0, "pel_rejects": []}
    mine = []
    n_coq = 0
    rundir = None
    if not okh:
        broken.append("correspondence: harness does not build against /repo: " + out[-1500:])
    else:
        try:
            C.log("[%s] node differential (%s)" % (pid, tier))
            summ, rundir = run_differential(tier, seed)
            # (A) decides only on this property's projection; for protocol-level properties whose
            # theorems are about P the deciding tie is the acceptor (B) and (A) is diagnostic
            proj = (set(spec["projection"]) | {"panic"}) if spec["projection"] else set()
            mine = [d for d in summ["dis"] if proj & set(d["keys"])]
            if mine:
                d0 = mine[0]
                broken.append("correspondence: model M/Raft.v+RawNode.v and implementation disagree on %d of %d calls in this property's projection %s; first: %s differs in %s"
                              % (len(mine), summ["cases"], sorted(proj), d0["meta"], d0["keys"]))
            if spec.get("site_inventory"):
                # structural tie: the syntactic panic sites of the modelled sources are the committed inventory
                rc_i, out_i = C.run([sys.executable, os.path.join(C.ROOT, "tools", "site_inventory.py")])
                diffs = [l for l in out_i.splitlines() if l.split(" ", 1)[0] in ("ADDED", "REMOVED", "CHANGED")]
                if rc_i == 0 and diffs:
                    # only removed sites: the model keeps a panic site the code no longer has; not an alarm
                    C.log("[%s] note: %d panic site(s) of site_inventory.json no longer in the source: %s" % (pid, len(diffs), "; ".join(diffs[:4])))
                    summ.setdefault("notes", []).append("removed panic sites: " + "; ".join(diffs[:8]))
                if rc_i != 0:
                    broken.append("structure: the panic sites of the modelled sources differ from site_inventory.json (%d differences): %s"
                                  % (len(diffs), "; ".join(diffs[:6])))
            for cid in spec.get("components", []):
                # the lockstep differential of a component this property's statement rests on
                from . import component as CO, props as PR
                ct = CO.component_tie(PR.SPECS[cid], tier, seed)
                comp_ties.append(ct)
                if ct["disagreements"]:
                    broken.append("correspondence (component %s, shared with %s): model and implementation disagree on %d of %d cases; first: %s"
                                  % (ct["component"], cid, ct["disagreements"], ct["cases"], (ct["first"] or {}).get("case", "")[:300]))
            accname = spec.get("acceptor")
            if accname:
                a = summ.get("acceptors", {}).get(accname, {"traces": 0, "events": 0, "rejects": []})
                summ["pel_traces"], summ["pel_events"], summ["pel_rejects"] = a["traces"], a["events"], a["rejects"]
                pref, fun, mod = {"pelection": ("pel-sim", "run_pelection", "Run.RunPElection"),
                                  "plog": ("plog-sim", "run_plog", "Run.RunPLog"),
                                  "pread": ("pread-sim", "run_pread", "Run.RunPRead")}[accname]
                if a["rejects"]:
                    r0 = a["rejects"][0]
                    broken.append("refinement: %d of %d simulated executions are NOT executions of the abstract protocol P (acceptor %s); first: %s line %d answer '%s' (0 <event index> <reason 1 pre / 2 guard / 3 post> <event code>)"
                                  % (len(a["rejects"]), a["traces"], accname, r0["file"], r0["line"], r0["answer"]))
                k2, prob2 = C.incoq_sample(rundir, pref, fun, mod, 2, rng, maxlen=30000)
                if prob2:
                    broken.append("refinement (vm_compute): " + prob2)
            k, prob = C.incoq_sample(rundir, "node-sim", "run_node", "Run.RunNode", spec["incoq"][tier], rng, maxlen=60000)
            n_coq = k
            if prob and not mine:
                # an in-Coq disagreement is only this property's concern if the extracted run agreed
                broken.append("correspondence (vm_compute): " + prob)
        except Exception as e:
            broken.append("correspondence: " + str(e))

    violation = None
    known = []
    fail = None
    # patterns the trace extraction itself recognises (spec["trace_findings"]): a listed known finding
    # is reported as such, an unlisted one is a violation
    tf_known = []
    for name in spec.get("trace_findings", []):
        cnt = summ.get("trace_findings", {}).get(name, 0)
        if cnt:
            if any(kf.get("property") == pid and kf.get("signature") == name for kf in load_known()):
                tf_known.append({"reason": "signature=%s (seen %d times in the simulated executions of the correspondence run)" % (name, cnt), "signature": name})
            else:
                broken.append("refinement: %d occurrences of the trace pattern %s" % (cnt, name))
    # the model and the implementation disagree somewhere OUTSIDE this property's projection (or
    # modelled functions changed): not an alarm for this property, but a reason to search harder
    # for a failing input of THIS property on the implementation
    elsewhere = bool(summ.get("disagreements", 0)) or bool(summ.get("changed_functions"))
    if okh and (broken or elsewhere or spec.get("always_monitor")):
        C.log("[%s] running the property monitor on the implementation%s" % (pid, " (escalated)" if (broken or elsewhere) else ""))
        fail, known = run_monitor(spec, tier, seed, bool(broken) or elsewhere)
    if broken or fail:
        body = "property: %s\ntier: %s\nseed: %s\nrepo: %s\n" % (pid, tier, seed, C.repo_tree_hash())
        for b in broken:
            body += "broken: " + b.replace("\n", " ")[:1500] + "\n"
        if mine:
            d0 = mine[0]
            body += "first-disagreement: %s line %d (%s) keys %s\n" % (d0["file"], d0["line"], d0["meta"], d0["keys"])
            body += "case: %s\n" % get_line(d0["file"], d0["line"])[:20000]
        if fail:
            body += "replay-args: %s\nreason: %s\n" % (fail["args"], fail["reason"])
            body += "schedule:\n" + fail.get("trace", "") + "\n"
        rp = C.write_replay(pid, seed, body)
        violation = "VIOLATION property=%s replay=%s" % (pid, rp) + ("" if fail else " no-failing-input-found")

    samples = []
    if rundir:
        try:
            c0 = C.shard_files(rundir, "node-sim", "meta")[0]
            with open(c0) as f:
                for k, l in enumerate(f):
                    if k in (5, 50, 200):
                        samples.append({"call": l.strip()})
        except Exception:
            pass
    ev = {
        "property_id": pid, "tier": tier, "seed": seed, "level": spec["manifest"].get("category", "proof"),
        "coverage": {
            "obligations": ps["obligations"], "discharged": ps["discharged"],
            "checker_cmd": "cd /verif/coq && make Props/%s.vo && coqc -Q . RV Props/%s.v  (Print Assumptions under every theorem; forbidden-vernacular scan)" % (pid, pid),
            "theorems": [{"name": n, "assumptions": a} for n, a in ps["theorems"]],
            "coqchk_context_summary": ps.get("coqchk", "not run in this tier (thorough tier runs coqchk -o on the Props module)"),
            "trusted_base": spec["trusted_base"],
            "evaluations": summ["cases"], "distinct_nontrivial": summ["classes"],
            "rule": "every RawNode API call of seeded simulated cluster runs (1-5 voters, 0-2 learners, random knobs; ticks, deliveries with duplication/loss/reordering, proposals, conf changes, reads, transfers, sync/async Ready rounds, compaction, crash/restart) is one case: the model is started from the implementation's own pre-state dump and must reproduce the result and the post-state; distinct_nontrivial = distinct (call kind, role, message type) classes compared; a disagreement counts for this property only if it touches its projection " + str(sorted(spec["projection"])),
            "samples": samples or [{"note": "no cases"}],
            "programs": max(1, summ["cases"]), "disagreements_checked": len(mine),
            "traces_validated_against_impl": summ["cases"],
            "disagreements_any_projection": summ["disagreements"],
            "p_traces_accepted": (summ.get("pel_traces", 0) - len(summ.get("pel_rejects", []))) if spec.get("acceptor") else None,
            "p_traces_total": summ.get("pel_traces", 0) if spec.get("acceptor") else None,
            "p_events": summ.get("pel_events", 0) if spec.get("acceptor") else None,
            "incoq_vm_compute_cases": n_coq,
            "component_ties": comp_ties,
            "changed_functions_vs_fingerprints": summ.get("changed_functions", []),
            "call_histogram": summ["hist"], "class_histogram_top": summ["class_hist"],
            "implementation_panics_by_location": summ["panics"],
            "explanation": spec["explanation"],
        },
        "assumptions": spec["assumptions"],
        "wall_s": round(time.time() - t0, 2),
        "violations": 1 if violation else 0,
    }
    C.write_evidence(pid, ev)
    seen_sigs = set()
    for kf in tf_known + known:
        if kf.get("signature") and kf["signature"] in seen_sigs:
            continue
        seen_sigs.add(kf.get("signature"))
        print("KNOWN-FINDING: property=%s %s" % (pid, kf["reason"]))
    if violation:
        for b in broken:
            C.log("BROKEN: " + b[:600])
        print(violation)
        return 1
    C.log("[%s] ok: %d/%d theorems, %d calls agree on the projection (%d differ elsewhere), %d re-evaluated in Coq, %.1fs"
          % (pid, ps["discharged"], ps["obligations"], summ["cases"], summ["disagreements"], n_coq, time.time() - t0))
    return 0


def load_known():
    p = os.path.join(C.ROOT, "known_findings.txt")
    out = []
    if os.path.exists(p):
        for l in open(p):
            l = l.strip()
            if l.startswith("finding:"):
                kv = dict(x.split("=", 1) for x in l[len("finding:"):].split() if "=" in x)
                out.append(kv)
    return out


def parse_monitor(out):
    """(fail or None, {ignored substring: count}) from `vharness monitor` output."""
    fail = None
    ignored = {}
    lines = out.splitlines()
    for k, l in enumerate(lines):
        if l.startswith("FAIL ") and fail is None:
            reason = ""
            trace = []
            for m in lines[k + 1:]:
                if m.startswith("REASON "):
                    reason = m[7:]
                elif m.startswith("  "):
                    trace.append(m)
            fail = {"args": l[5:], "reason": reason, "trace": "\n".join(trace[-80:])}
        if l.startswith("IGNORED "):
            p = l.split(None, 2)
            if len(p) == 3:
                ignored[p[2].strip()] = int(p[1])
    return fail, ignored


def sig_match(sig, reason):
    return sig in reason or sig in reason.replace(" ", "_")


def run_monitor(spec, tier, seed, escalate):
    """Runs the Rust-side monitor of this property over simulated runs on the implementation
    alone. Listed known findings of the property are passed as --ignore (so they do not mask
    anything else); each one that is actually observed (in the search, or by its recorded
    replay) is returned in `known`. Returns (fail or None, [known finding dicts])."""
    mon = spec.get("monitor")
    if not mon:
        return None, []
    mine = [kf for kf in load_known() if kf.get("property") == spec["id"] and kf.get("signature")]
    runs = {"quick": 150, "thorough": 1500}[tier] * (4 if escalate else 1)
    # --learner-campaign: the simulated application may call campaign() on any node (a no-op on
    # non-voters since /repo 8deb47c; before that fix it broke C01/C20)
    cmd = [C.VH, "monitor", "--prop", mon, "--runs", str(runs), "--steps", "500", "--seed", str(seed), "--learner-campaign"]
    if mine:
        cmd += ["--ignore", ",".join(kf["signature"] for kf in mine)]
    rc, out = C.run(cmd, timeout=3000)
    fail, ignored = parse_monitor(out)
    known = []
    for kf in mine:
        seen = sum(n for sub, n in ignored.items() if sub == kf["signature"] or sub.replace(" ", "_") == kf["signature"])
        how = "seen %d times in %d simulated runs" % (seen, runs)
        if not seen and kf.get("replay"):
            # the recorded replay, with every OTHER known signature ignored
            others = [o["signature"] for o in mine if o is not kf]
            # replay arguments use '_' for spaces, but property names contain '_': restore them
            rcmd = [C.VH, "monitor"] + fix_replay_args(kf["replay"]) + (["--ignore", ",".join(others)] if others else [])
            rc2, out2 = C.run(rcmd, timeout=600)
            f2, _ = parse_monitor(out2)
            if f2 and sig_match(kf["signature"], f2["reason"]):
                seen = 1
                how = "reproduced by its recorded replay " + " ".join(fix_replay_args(kf["replay"]))
        if not seen and kf.get("scenario"):
            # deterministic scripted reproduction (harness/src/findings.rs)
            rc3, out3 = C.run([C.VH, "finding", kf["scenario"]], timeout=600)
            if out3.strip().startswith("REPRODUCED"):
                seen = 1
                how = "reproduced by the scripted scenario `vharness finding %s`: %s" % (kf["scenario"], out3.strip()[:200])
        if seen:
            known.append({"reason": "%s signature=%s (%s)" % (kf.get("site", ""), kf["signature"], how), "signature": kf["signature"]})
    if fail and any(sig_match(kf["signature"], fail["reason"]) for kf in mine):
        # belt and braces: a known signature that slipped through --ignore is not a new violation
        if not any(k["signature"] for k in known if sig_match(k["signature"], fail["reason"])):
            known.append({"reason": fail["reason"][:300], "signature": ""})
        fail = None
    return fail, known


def fix_replay_args(r):
    """'--prop_no_panic_--seed_1_--run_9' -> ['--prop','no_panic','--seed','1','--run','9']"""
    out = []
    for part in r.split("_--"):
        part = part if part.startswith("--") else "--" + part
        k, _, v = part.partition("_")
        out.append(k)
        if v:
            out.append(v)
    return out
