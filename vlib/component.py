"""Check flow for component-level properties (lockstep differential + proofs)."""
import os, random, shutil, sys, time, hashlib
from . import common as C


def generate(spec, tier, seed, rundir, extra_seed=None):
    """Runs the harness generators; returns total cases or raises."""
    total = 0
    for g in spec["gens"]:
        args = list(g["args"][tier])
        s = seed if extra_seed is None else extra_seed
        rc, out = C.run([C.VH, spec["component"]] + args + ["--seed", str(s), "--out", rundir], timeout=3000)
        if rc != 0:
            raise RuntimeError("harness generator failed: " + out[-800:])
        for tok in out.split():
            if tok.startswith("cases="):
                total += int(tok[6:])
    return total


def monitor(spec, rundir):
    """Runs the property's independent oracle over all generated cases on the
    implementation alone. Returns (fail_case, reason) or (None, None)."""
    files = []
    for g in spec["gens"]:
        files += C.shard_files(rundir, g["prefix"], "cases")
    if not files:
        return None, None
    rc, out = C.run([C.VH, spec["component"], "--mode", "monitor", "--cases", ",".join(files)], timeout=3000)
    fail, reason = None, None
    for line in out.splitlines():
        if line.startswith("FAIL "):
            fail = line[5:]
        if line.startswith("REASON "):
            reason = line[7:]
    return fail, reason


def stats(spec, rundir):
    """distinct non-trivial cases (measured): distinct case lines with >= min_len tokens."""
    seen = set()
    n = 0
    sample = []
    for g in spec["gens"]:
        for c in C.shard_files(rundir, g["prefix"], "cases"):
            i = c.replace(".cases.", ".impl.")
            with open(c) as fc, open(i) as fi:
                for lc, li in zip(fc, fi):
                    n += 1
                    if len(lc.split()) >= spec.get("nontrivial_tokens", 6):
                        h = hashlib.blake2b(lc.encode(), digest_size=8).digest()
                        if h not in seen:
                            seen.add(h)
                            if len(sample) < 3 and len(lc) < 400:
                                sample.append({"case": lc.strip(), "implementation_and_model_answer": li.strip()})
    return n, len(seen), sample


def check(spec, tier, seed, replay=None):
    t0 = time.time()
    pid = spec["id"]
    rundir = os.path.join(C.BUILD, "run", pid)
    shutil.rmtree(rundir, ignore_errors=True)
    os.makedirs(rundir, exist_ok=True)
    rng = random.Random(seed)
    broken = []          # what no longer checks (theorem / correspondence)
    first_dis = None

    # replay mode: run the monitor on the recorded case only
    if replay:
        case = None
        for line in open(replay):
            if line.startswith("case: "):
                case = line[6:].strip()
        ok, out = C.build_harness()
        if not ok:
            print("harness build failed\n" + out[-2000:]); return 1
        if case is None:
            print("replay file has no concrete case (no-failing-input-found)"); return 1
        cf = os.path.join(rundir, "replay.cases.0.txt")
        open(cf, "w").write(case + "\n")
        rc, out = C.run([C.VH, spec["component"], "--mode", "monitor", "--cases", cf])
        print(out)
        return 1 if "FAIL" in out else 0

    # 1. proof status
    C.log("[%s] proof status" % pid)
    ps = C.proof_status(pid, coqchk=(tier == "thorough"))
    for p in ps["problems"]:
        broken.append("proof: " + p)
    ok, out = C.build_coq()
    if not ok:
        broken.append("coq development does not build: " + out[-800:])
    ok, out = C.build_ocaml()
    if not ok:
        broken.append("extracted model does not build: " + out[-800:])

    # 2. build harness against the current tree
    C.log("[%s] building harness against /repo working tree" % pid)
    ok, out = C.build_harness()
    n_cases = n_dis = n_coq = 0
    if not ok:
        broken.append("correspondence: harness does not build against /repo: " + out[-1500:])
    else:
        # 3. differential
        C.log("[%s] generating cases (%s)" % (pid, tier))
        try:
            generate(spec, tier, seed, rundir)
            for g in spec["gens"]:
                n, first, nd = C.run_model_on_shards(rundir, g["prefix"])
                n_cases += n; n_dis += nd
                if first and first_dis is None:
                    first_dis = first
            if first_dis:
                broken.append("correspondence: model %s and implementation disagree on %d of %d cases; first: %s"
                              % (spec["runfun"], n_dis, n_cases, first_dis["case"][:300]))
            # 4. in-Coq sample
            for g in spec["gens"]:
                k, prob = C.incoq_sample(rundir, g["prefix"], spec["runfun"], spec["run_module"],
                                         spec["incoq"][tier], rng)
                n_coq += k
                if prob and not first_dis:
                    broken.append("correspondence (vm_compute): " + prob)
        except Exception as e:  # generator crashed
            broken.append("correspondence: " + str(e))

    evals, distinct, sample = (0, 0, [])
    if ok:
        evals, distinct, sample = stats(spec, rundir)

    violation = None
    if broken:
        # 5. search for a concrete failing input on the implementation
        C.log("[%s] something no longer checks; searching for a failing input" % pid)
        fail = reason = None
        if ok:
            fail, reason = monitor(spec, rundir)
            extra = 0
            while fail is None and extra < 4:
                extra += 1
                xdir = os.path.join(rundir, "search%d" % extra)
                os.makedirs(xdir, exist_ok=True)
                try:
                    generate(spec, "thorough" if extra > 2 else tier, seed, xdir, extra_seed=seed * 1000 + extra)
                    fail, reason = monitor(spec, xdir)
                except Exception as e:
                    break
        body = "property: %s\ntier: %s\nseed: %s\nrepo: %s\n" % (pid, tier, seed, C.repo_tree_hash())
        for b in broken:
            body += "broken: " + b.replace("\n", " ")[:1500] + "\n"
        if first_dis:
            body += "first-disagreement-case: %s\nimpl: %s\nmodel: %s\n" % (first_dis["case"], first_dis["impl"], first_dis["model"])
        if fail:
            body += "case: %s\nreason: %s\n" % (fail, reason)
        rp = C.write_replay(pid, seed, body)
        violation = "VIOLATION property=%s replay=%s" % (pid, rp) + ("" if fail else " no-failing-input-found")

    ev = {
        "property_id": pid, "tier": tier, "seed": seed, "level": "proof",
        "coverage": {
            "obligations": ps["obligations"], "discharged": ps["discharged"],
            "checker_cmd": "cd /verif/coq && make Props/%s.vo && coqc -Q . RV Props/%s.v  (Print Assumptions under every theorem; forbidden-vernacular scan)" % (pid, pid),
            "theorems": [{"name": n, "assumptions": a} for n, a in ps["theorems"]],
            "coqchk_context_summary": ps.get("coqchk", "not run in this tier (thorough tier runs coqchk -o on the Props module)"),
            "trusted_base": spec["trusted_base"],
            "evaluations": evals, "distinct_nontrivial": distinct,
            "rule": spec["rule"],
            "samples": sample if sample else [{"note": "no cases generated"}],
            "traces_validated_against_impl": n_cases,
            "disagreements": n_dis,
            "incoq_vm_compute_cases": n_coq,
            "exhaustive": False,
            "explanation": spec["explanation"],
        },
        "assumptions": spec["assumptions"],
        "wall_s": round(time.time() - t0, 2),
        "violations": 1 if violation else 0,
    }
    C.write_evidence(pid, ev)
    if violation:
        for b in broken:
            C.log("BROKEN: " + b[:600])
        print(violation)
        return 1
    C.log("[%s] ok: %d/%d theorems, %d cases agree (model=impl), %d re-evaluated in Coq, %.1fs"
          % (pid, ps["discharged"], ps["obligations"], n_cases, n_coq, time.time() - t0))
    return 0


def component_tie(comp_spec, tier, seed):
    """The lockstep differential of one component (cached per /repo tree, binaries, tier, seed),
    for node-level properties whose statement rests on that component's mechanics.
    Returns dict(component, cases, disagreements, first)."""
    import json
    h = hashlib.sha1()
    h.update(C.repo_tree_hash().encode())
    for p in (C.VH, C.DRIVER):
        st = os.stat(p)
        h.update(("%s:%d:%d" % (p, st.st_mtime_ns, st.st_size)).encode())
    h.update(("c1:%s:%s:%s" % (comp_spec["component"], tier, seed)).encode())
    key = h.hexdigest()[:16]
    rd = os.path.join(C.BUILD, "run")
    d = os.path.join(rd, "comp-%s-%s" % (comp_spec["component"], key))
    summ = os.path.join(d, "summary.json")
    with C.Lock("compcache-" + comp_spec["component"]):
        if os.path.exists(summ):
            return json.load(open(summ))
        os.makedirs(rd, exist_ok=True)
        for f in os.listdir(rd):
            if f.startswith("comp-%s-" % comp_spec["component"]) and f != os.path.basename(d):
                shutil.rmtree(os.path.join(rd, f), ignore_errors=True)
        shutil.rmtree(d, ignore_errors=True)
        os.makedirs(d)
        generate(comp_spec, tier, seed, d)
        n_cases = n_dis = 0
        first = None
        for g in comp_spec["gens"]:
            n, f1, nd = C.run_model_on_shards(d, g["prefix"])
            n_cases += n; n_dis += nd
            if f1 and first is None:
                first = f1
        res = {"component": comp_spec["component"], "cases": n_cases, "disagreements": n_dis,
               "first": ({"case": first["case"][:2000], "impl": first["impl"][:600], "model": first["model"][:600]} if first else None)}
        json.dump(res, open(summ, "w"))
        return res
