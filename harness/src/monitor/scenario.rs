//! Dedicated schedule generators: the adversarial-minority scenario of C16 and the fair
//! suffix (stuck detector) of C10.
use super::*;
use raft::eraftpb::MessageType as MT;

fn live(sim: &Sim, i: usize) -> bool {
    sim.nodes[i].driver.is_some()
}

fn role(sim: &Sim, i: usize) -> Option<(StateRole, u64)> {
    sim.nodes[i].driver.as_ref().map(|d| (d.node.raft.state, d.node.raft.term))
}

/// One lock-step round over the nodes in `who`: ready rounds, persistence, apply.
fn pump(sim: &mut Sim, who: &[usize]) {
    for &i in who {
        if sim.halted {
            return;
        }
        sim.ready_round(i);
        sim.persist_async(i);
        if sim.nodes[i].driver.as_ref().map_or(false, |d| d.last_rd.is_none()) {
            sim.apply_entries(i, true, true);
        }
    }
}

/// C16: pre_vote + check_quorum everywhere; a leader and a majority exchange heartbeats in
/// lock-step while the remaining nodes are partitioned away, campaign, crash, restart, rejoin.
pub fn prevote_scenario(sim: &mut Sim, steps: usize) {
    sim.force_prevote_cq = true;
    sim.boot();
    let nn = sim.nodes.len();
    let all: Vec<usize> = (0..nn).collect();
    // elect a leader and let everybody catch up
    let mut leader = None;
    for _ in 0..80 {
        sim.healthy_phase(1);
        if sim.halted {
            return;
        }
        if let Some(l) = sim.leader() {
            leader = Some(l);
            break;
        }
    }
    let l = match leader {
        Some(l) => l,
        None => {
            sim.with_mon(|m, _| m.note("prevote-scenario: no leader elected in 80 rounds"));
            return;
        }
    };
    for _ in 0..4 {
        sim.healthy_phase(1);
    }
    let l = match sim.leader() {
        Some(x) => x,
        None => l,
    };
    let (r, term) = match role(sim, l) {
        Some(x) => x,
        None => return,
    };
    if r != StateRole::Leader || sim.halted {
        return;
    }
    // every node must be alive and at the leader's term for the window to start
    if (0..nn).any(|i| role(sim, i).map_or(true, |x| x.1 != term)) {
        sim.with_mon(|m, _| m.note("prevote-scenario: cluster not settled"));
        return;
    }
    let need = nn / 2 + 1;
    let mut maj = vec![l];
    for i in 0..nn {
        if maj.len() < need && i != l {
            maj.push(i);
        }
    }
    maj.sort_unstable();
    let minority: Vec<usize> = (0..nn).filter(|i| !maj.contains(i)).collect();
    let w = Window { leader: l, term, maj: maj.clone() };
    sim.note(|| format!("window: leader idx {} term {} majority {:?} minority {:?}", l, term, w.maj, minority));
    if let Some(m) = sim.mon.as_mut() {
        m.window = Some(w);
        m.note("prevote-scenario: windows opened");
    }
    let rounds = (steps / 8).max(20);
    let mut connected = false;
    for _ in 0..rounds {
        if sim.halted {
            return;
        }
        if sim.rng.chance(1, 6) {
            connected = !connected;
            sim.note(|| format!("minority connected = {}", connected));
        }
        for &i in &maj {
            sim.call(i, Call::Tick);
        }
        for &i in &minority {
            if live(sim, i) {
                let k = sim.rng.below(4);
                for _ in 0..k {
                    sim.call(i, Call::Tick);
                }
                if sim.rng.chance(1, 6) {
                    sim.call(i, Call::Campaign);
                }
                if sim.rng.chance(1, 15) && live(sim, i) {
                    sim.nodes[i].driver = None;
                    sim.nodes[i].async_pending.clear();
                    sim.nodes[i].to_apply.clear();
                    sim.lose_unsynced(i);
                    let id = sim.nodes[i].id;
                    sim.note(|| format!("{} crash", id));
                    sim.pt.crash(id);
                    sim.with_mon(|m, s| m.on_crash(s, i));
                }
            } else if sim.rng.chance(1, 3) {
                sim.start(i);
            }
        }
        for _ in 0..3 {
            pump(sim, &all);
            let msgs = std::mem::take(&mut sim.net);
            for m in msgs {
                let (f, t) = (sim.idx_of(m.from), sim.idx_of(m.to));
                let cross = f.map_or(true, |x| minority.contains(&x)) || t.map_or(true, |x| minority.contains(&x));
                if cross && !connected {
                    continue;
                }
                if let Some(t) = t {
                    sim.call(t, Call::Step(m));
                }
            }
        }
        if sim.rng.chance(1, 3) {
            let p = sim.payload();
            sim.call(l, Call::Propose(vec![], p));
        }
    }
    let _ = all;
}

/// A fair round: everybody ticks once, everything is delivered, every Ready is handled;
/// the application reports every snapshot it sent.
fn fair_round(sim: &mut Sim) {
    let nn = sim.nodes.len();
    let all: Vec<usize> = (0..nn).collect();
    for i in 0..nn {
        sim.call(i, Call::Tick);
    }
    for _ in 0..3 {
        pump(sim, &all);
        let msgs = std::mem::take(&mut sim.net);
        for m in msgs {
            let (f, t) = (sim.idx_of(m.from), sim.idx_of(m.to));
            let is_snap = m.get_msg_type() == MT::MsgSnapshot;
            let to_id = m.to;
            match t {
                Some(t) if live(sim, t) => {
                    sim.call(t, Call::Step(m));
                    if is_snap {
                        if let Some(f) = f {
                            sim.call(f, Call::ReportSnapshot(to_id, false));
                        }
                    }
                }
                _ => {
                    if let Some(f) = f {
                        if is_snap {
                            sim.call(f, Call::ReportSnapshot(to_id, true));
                        } else {
                            sim.call(f, Call::ReportUnreachable(to_id));
                        }
                    }
                }
            }
        }
    }
}

struct View {
    leaders: Vec<usize>,
    converged: bool,
    why: String,
}

fn view(sim: &Sim) -> View {
    let nn = sim.nodes.len();
    let mut best: Option<(u64, usize)> = None;
    let mut leaders = vec![];
    for i in 0..nn {
        if let Some((StateRole::Leader, t)) = role(sim, i) {
            leaders.push(i);
            if best.map_or(true, |b| t > b.0) {
                best = Some((t, i));
            }
        }
    }
    let l = match best {
        Some(b) => b.1,
        None => return View { leaders, converged: false, why: "no leader".to_string() },
    };
    let lr = &sim.nodes[l].driver.as_ref().unwrap().node.raft;
    let conf = conf_key(&lr.prs().conf().to_conf_state());
    // other leaders must not be members (a removed node may keep believing)
    for &o in &leaders {
        if o != l && conf.is_member(sim.nodes[o].id) {
            return View { leaders: leaders.clone(), converged: false, why: format!("two leaders among members: {} and {}", sim.nodes[l].id, sim.nodes[o].id) };
        }
    }
    let (li, lt, lc) = (lr.raft_log.last_index(), lr.raft_log.last_term(), lr.raft_log.committed);
    if lc != li {
        let mut prs: Vec<String> = lr.prs().iter().map(|(k, p)| format!("{}:{:?}/m{}/n{}/paused={}/ins={}/pend_snap={}/req_snap={}/active={}", k, p.state, p.matched, p.next_idx, p.paused, p.ins.count(), p.pending_snapshot, p.pending_request_snapshot, p.recent_active)).collect();
        prs.sort();
        return View { leaders, converged: false, why: format!("leader {} (term {}) commit {} < last index {}; transferee {:?}; conf {:?}; progress {:?}", sim.nodes[l].id, lr.term, lc, li, lr.lead_transferee, conf, prs) };
    }
    for i in 0..nn {
        if !conf.is_member(sim.nodes[i].id) {
            continue;
        }
        if let Some(d) = sim.nodes[i].driver.as_ref() {
            let r = &d.node.raft;
            if r.raft_log.last_index() != li || r.raft_log.last_term() != lt || r.raft_log.committed != lc {
                return View {
                    leaders,
                    converged: false,
                    why: format!("member {} at (last {}, term {}, commit {}) vs leader {} at (last {}, term {}, commit {})", sim.nodes[i].id, r.raft_log.last_index(), r.raft_log.last_term(), r.raft_log.committed, sim.nodes[l].id, li, lt, lc),
                };
            }
            if sim.nodes[i].applied != lc {
                return View { leaders, converged: false, why: format!("member {} applied {} < commit {}", sim.nodes[i].id, sim.nodes[i].applied, lc) };
            }
        }
    }
    View { leaders: vec![l], converged: true, why: String::new() }
}

/// true iff every live node that is a voter of its own configuration sees a live majority
/// of each of its voter sets (the premise of C10).
fn quorum_available(sim: &Sim) -> bool {
    let nn = sim.nodes.len();
    let mut any = false;
    for i in 0..nn {
        if let Some(d) = sim.nodes[i].driver.as_ref() {
            let c = conf_key(&d.node.raft.prs().conf().to_conf_state());
            if !c.is_voter(sim.nodes[i].id) {
                continue;
            }
            any = true;
            let ok = c.quorum(|v| sim.nodes.iter().any(|n| n.id == v && n.driver.is_some()));
            if !ok {
                return false;
            }
        }
    }
    any
}

/// C10: after the arbitrary prefix, stop all faults and require progress.
pub fn fair_suffix(sim: &mut Sim) {
    let nn = sim.nodes.len();
    let panics0 = sim.mon.as_ref().map_or(0, |m| m.panics_seen);
    sim.note(|| "fair suffix starts: restart crashed nodes, deliver everything, tick regularly".to_string());
    for i in 0..nn {
        if !live(sim, i) {
            sim.start(i);
        }
    }
    // the application owes a report for every snapshot it was asked to send: those of the
    // prefix are reported failed now
    for i in 0..nn {
        let pend: Vec<u64> = match sim.nodes[i].driver.as_ref() {
            Some(d) if d.node.raft.state == StateRole::Leader => {
                let mut v: Vec<u64> = d.node.raft.prs().iter().filter(|(_, p)| p.state == ProgressState::Snapshot).map(|(k, _)| *k).collect();
                v.sort_unstable();
                v
            }
            _ => vec![],
        };
        for p in pend {
            sim.call(i, Call::ReportSnapshot(p, true));
        }
    }
    // undo "disable the progress" knobs (documented as disabling replication to that peer)
    for i in 0..nn {
        // group commit deliberately withholds commitment until two groups hold an entry
        sim.call(i, Call::EnableGroupCommit(false));
        // the SetCheckQuorum knob is per node; a cluster with mixed settings can wedge by design
        // (lease holders ignore the vote requests of a node that in turn ignores stale heartbeats)
        let cq = sim.nodes[i].cfg.check_quorum;
        sim.call(i, Call::SetCheckQuorum(cq));
        let cap = sim.nodes[i].cfg.max_inflight_msgs as u64;
        for j in 0..nn + 2 {
            sim.call(i, Call::AdjustInflight(j as u64 + 1, cap));
        }
    }
    let inject = sim.mon.as_ref().map_or(false, |m| m.inj("progress"));
    // 260 rounds (> 15 election timeouts) normally; elections are randomized, so a run that is
    // still electing (terms keep rising, nodes with different election_tick) gets a long extension
    let mut bound = 260;
    let mut v = view(sim);
    let mut r = 0;
    let mut last_lead: Option<(usize, u64)> = None;
    let mut stable_since = 0;
    while r < bound && !(v.converged && !inject) && !sim.halted {
        fair_round(sim);
        v = view(sim);
        r += 1;
        if inject && r > 30 {
            break;
        }
        let cur = v.leaders.first().and_then(|l| role(sim, *l).map(|x| (*l, x.1)));
        if cur != last_lead {
            last_lead = cur;
            stable_since = r;
        }
        if r == bound && bound == 260 && (v.leaders.is_empty() || r - stable_since < 80) {
            // still electing (or elected a moment ago): randomized timeouts, keep going
            bound = 2500;
        }
    }
    if sim.halted {
        return;
    }
    let panicked = sim.mon.as_ref().map_or(0, |m| m.panics_seen) != panics0;
    if !v.converged || inject {
        if panicked {
            sim.with_mon(|m, _| m.note("progress: skipped, a node panicked during the fair suffix (C20's business)"));
            return;
        }
        if !quorum_available(sim) {
            sim.with_mon(|m, _| m.note("progress: skipped, no live majority of some voter set"));
            return;
        }
        let why = v.why.clone();
        // a follower that asked for a snapshot above the leader's commit index refuses appends
        // until it gets one, and the leader cannot produce one before it commits that far
        let mut req_dead = false;
        for n in &sim.nodes {
            if let Some(d) = n.driver.as_ref() {
                let r = &d.node.raft;
                if r.state == StateRole::Leader && r.prs().iter().any(|(_, p)| p.pending_request_snapshot > r.raft_log.committed) {
                    req_dead = true;
                }
            }
        }
        // a node that is not a voter of its own configuration but sits at a higher term than the
        // leader (it was told to campaign()) never campaigns again and, without check_quorum or
        // pre_vote, silently ignores the leader's lower-term traffic
        let lead_term = sim.nodes.iter().filter_map(|n| n.driver.as_ref()).filter(|d| d.node.raft.state == StateRole::Leader).map(|d| d.node.raft.term).max().unwrap_or(0);
        let mut wedged = false;
        for n in &sim.nodes {
            if let Some(d) = n.driver.as_ref() {
                let r = &d.node.raft;
                if !r.promotable() && r.term > lead_term && lead_term > 0 {
                    wedged = true;
                }
            }
        }
        let kind = if wedged { "stuck-nonvoter-higher-term" } else if req_dead { "stuck-request-snapshot" } else if v.leaders.is_empty() { "stuck-no-leader" } else { "stuck" };
        sim.with_mon(|m, _| m.fail(kind, format!("after {} fair rounds (all nodes running, every message delivered, regular ticks): {}", r, if why.is_empty() { "injected".to_string() } else { why })));
        return;
    }
    sim.with_mon(|m, _| m.cov("C10 fair suffixes converged"));
    // a fresh proposal must be applied on every running member
    let l = v.leaders[0];
    let mut target = 0;
    for attempt in 0..6 {
        let data = vec![0xC1, 0x0C, attempt as u8, (sim.run_id % 251) as u8];
        let before = sim.nodes[l].driver.as_ref().map_or(0, |d| d.node.raft.raft_log.last_index());
        if let Some(o) = sim.call(l, Call::Propose(vec![], data)) {
            if o.ret_code == 0 {
                target = before + 1;
                break;
            }
        }
        for _ in 0..10 {
            fair_round(sim);
        }
        if role(sim, l).map_or(true, |x| x.0 != StateRole::Leader) {
            break;
        }
    }
    if sim.halted {
        return;
    }
    if target == 0 {
        // a leader that removed itself from the configuration drops proposals by design (the
        // application is expected to stop a removed node); any other converged leader that keeps
        // refusing proposals for sixty fault-free rounds has wedged
        let (still_leader, tracked, detail) = match sim.nodes[l].driver.as_ref() {
            Some(d) => {
                let r = &d.node.raft;
                (r.state == StateRole::Leader, r.prs().get(r.id).is_some(),
                 format!("uncommitted_size {} last_index {} committed {} transferee {:?}", r.uncommitted_size(), r.raft_log.last_index(), r.raft_log.committed, r.lead_transferee))
            }
            None => (false, false, String::new()),
        };
        if still_leader && tracked {
            let id = sim.nodes[l].id;
            sim.with_mon(|m, _| m.fail("stuck-proposals-refused", format!("the converged leader {} refused six fresh proposals over sixty fault-free rounds ({})", id, detail)));
        } else {
            sim.with_mon(|m, _| m.note("progress: the converged leader refused six fresh proposals (it removed itself, or lost leadership)"));
        }
        return;
    }
    let mut ok = false;
    let mut why = String::new();
    for _ in 0..60 {
        fair_round(sim);
        if sim.halted {
            return;
        }
        let conf = match sim.nodes[l].driver.as_ref() {
            Some(d) => conf_key(&d.node.raft.prs().conf().to_conf_state()),
            None => break,
        };
        ok = true;
        for i in 0..nn {
            if conf.is_member(sim.nodes[i].id) && live(sim, i) && sim.nodes[i].applied < target {
                ok = false;
                why = format!("member {} applied {} < {}", sim.nodes[i].id, sim.nodes[i].applied, target);
            }
        }
        if ok {
            break;
        }
    }
    if ok {
        sim.with_mon(|m, _| m.cov("C10 fresh proposals applied everywhere"));
    }
    if !ok {
        let panicked = sim.mon.as_ref().map_or(0, |m| m.panics_seen) != panics0;
        if panicked || !quorum_available(sim) {
            sim.with_mon(|m, _| m.note("progress: proposal phase skipped (panic or no quorum)"));
            return;
        }
        sim.with_mon(|m, _| m.fail("stuck", format!("a fresh proposal at index {} accepted by leader {} was not applied everywhere after 60 fair rounds: {}", target, l + 1, why)));
    }
}
