//! Monitors over ghost state and several nodes: global committed log (C01), leader_of[term]
//! (C02), leader completeness (C03), follower commit bound (C04), pairwise log matching (C05),
//! release discipline (C06), application events.
use super::*;
use raft::eraftpb::MessageType as MT;
use raft::GetEntriesContext;

impl MonitorSet {
    /// Reports "node i says index idx is committed and holds (term, body)".
    pub fn report(&mut self, i: usize, idx: u64, term: u64, body: Option<Body>, via: &str, at_term: u64) {
        if idx == 0 {
            return;
        }
        let id = self.ids.get(i).cloned().unwrap_or(0);
        let mut term = term;
        if self.inj("sm_safety") && idx == 3 && i == 0 {
            // observation corruption: node 1's reports of index 3 carry a wrong term
            term += 1;
        }
        if let Some((t0, b0)) = self.own[i].get(&idx).cloned() {
            let differs = t0 != term || matches!((b0, body), (Some(a), Some(b)) if a != b);
            if differs && !self.f.sm_safety {
                self.note("ghost-log-conflict");
                return;
            }
            if differs {
                self.fail("self-contradiction", format!("node {} reports index {} committed as (term {}, {:?}) via {}, but it reported (term {}, {:?}) before", id, idx, term, body, via, t0, b0));
                return;
            }
            if b0.is_none() && body.is_some() {
                self.own[i].insert(idx, (term, body));
            }
        } else {
            self.own[i].insert(idx, (term, body));
        }
        match self.cl.get_mut(&idx) {
            None => {
                self.cov("C01 indexes in the ghost committed log");
                // ghost corruption for the self-test of the leader-completeness monitor
                let gterm = if self.inj("leader_completeness") && idx == 2 { term + 1 } else { term };
                self.cl.insert(idx, Cle { term: gterm, body, by: id, at_term });
            }
            Some(c) => {
                let differs = c.term != term || matches!((c.body, body), (Some(a), Some(b)) if a != b);
                if differs && !self.f.sm_safety {
                    self.note("ghost-log-conflict");
                    return;
                }
                if differs {
                    let (ct, cb, cby) = (c.term, c.body, c.by);
                    self.fail("divergent-commit", format!("index {}: node {} reports (term {}, {:?}) committed via {}, node {} reported (term {}, {:?}) first", idx, id, term, body, via, cby, ct, cb));
                    return;
                }
                if c.body.is_none() && body.is_some() {
                    c.body = body;
                }
            }
        }
    }

    /// Checks on the post-state of node i against ghost state and the other nodes.
    /// `pc` = (pre-state, call) when this follows an API call, None after a restart.
    pub fn state_checks(&mut self, sim: &Sim, i: usize, pc: Option<(&NodeSnap, &Call)>, post: &NodeSnap) {
        let id = post.id;
        if post.commit > self.max_commit_ever {
            self.max_commit_ever = post.commit;
        }
        let leader = post.role == StateRole::Leader;

        // ---- C02 election safety
        if self.f.election_safety && leader {
            self.cov("C02 leader states checked");
            match self.leader_of.get(&post.term) {
                None => {
                    self.leader_of.insert(post.term, id);
                }
                Some(l) if *l != id => {
                    let l = *l;
                    self.fail("two-leaders", format!("node {} is leader of term {} but node {} was leader of that term", id, post.term, l));
                }
                _ => {}
            }
        }

        // ---- C01 state machine safety: the committed prefix this node exposes
        if self.f.sm_safety || self.f.leader_completeness || self.f.ready_contract {
            let hi = post.commit.min(post.last_index);
            if post.first >= 1 && post.first - 1 <= post.commit && post.first > 1 && post.bterm != 0 {
                self.report(i, post.first - 1, post.bterm, None, "snapshot boundary", post.term);
            }
            let mut idx = post.first.max(1);
            while idx <= hi {
                let e = post.entry(idx).unwrap().clone();
                self.report(i, idx, e.term, Some(e.body), "commit index", post.term);
                idx += 1;
            }
        }

        // ---- C03 leader completeness
        if self.f.leader_completeness && leader {
            let mut bad: Option<String> = None;
            self.cov("C03 leader logs checked against the committed log");
            for (idx, c) in self.cl.iter() {
                if c.at_term >= post.term {
                    continue;
                }
                if *idx + 1 < post.first {
                    continue; // covered by the snapshot the leader starts from
                }
                if *idx + 1 == post.first {
                    if post.bterm != 0 && post.bterm != c.term {
                        bad = Some(format!("leader {} of term {} starts from a snapshot at index {} with term {}, but (term {}) was committed there by term {}", id, post.term, idx, post.bterm, c.term, c.at_term));
                    }
                    continue;
                }
                match post.entry(*idx) {
                    None => bad = Some(format!("leader {} of term {} has last index {} but index {} (term {}) was committed in term <= {}", id, post.term, post.last_index, idx, c.term, c.at_term)),
                    Some(e) => {
                        if e.term != c.term || c.body.map_or(false, |b| b != e.body) {
                            bad = Some(format!("leader {} of term {} holds {} at index {} but (term {}, {:?}) was committed in term <= {}", id, post.term, e.show(), idx, c.term, c.body, c.at_term));
                        }
                    }
                }
                if bad.is_some() {
                    break;
                }
            }
            if let Some(b) = bad {
                self.fail("leader-incomplete", b);
            }
        }

        // ---- C04 a non-leader never commits beyond what some leader committed
        if self.f.commit_rule {
            if leader {
                if post.commit > self.max_leader_commit {
                    self.max_leader_commit = post.commit;
                }
            } else {
                let mut c = post.commit;
                if self.inj("commit_rule") && post.commit > 2 {
                    c += 1000; // observation corruption
                }
                if c > self.max_leader_commit {
                    self.fail("follower-commit-ahead", format!("node {} ({:?}, term {}) has commit index {} but no leader ever committed beyond {}", id, post.role, post.term, c, self.max_leader_commit));
                }
            }
        }

        // ---- C05 pairwise log matching
        if self.f.log_matching {
            let mut bad: Option<String> = None;
            let mut pairs = 0u64;
            for (j, sj) in self.snaps.iter().enumerate() {
                if j == i {
                    continue;
                }
                let b = match sj {
                    Some(b) => b,
                    None => continue,
                };
                let lo = post.first.max(b.first).max(1);
                let hi = post.last_index.min(b.last_index);
                pairs += 1;
                if lo > hi {
                    continue;
                }
                // highest index both hold with the same term
                let mut k = hi;
                let mut found = false;
                loop {
                    let (ea, eb) = (post.entry(k).unwrap(), b.entry(k).unwrap());
                    let mut ta = ea.term;
                    if self.inject == "log_matching" && id == 1 && k == lo && hi > lo + 1 {
                        ta += 1; // observation corruption
                    }
                    if ta == eb.term && !found {
                        found = true;
                    }
                    if found {
                        if ta != eb.term || ea.body != eb.body {
                            bad = Some(format!("nodes {} and {} agree on the term at a higher index <= {} but differ at index {}: {} vs {}", id, b.id, hi, k, ea.show(), eb.show()));
                            break;
                        }
                    }
                    if k == lo {
                        break;
                    }
                    k -= 1;
                }
                if bad.is_some() {
                    break;
                }
            }
            if let Some(b) = bad {
                self.fail("log-mismatch", b);
            }
            *self.cover.entry("C05 log pairs compared").or_insert(0) += pairs;
        }

        // ---- C09 promotable flag == voter of own configuration
        if self.f.conf_change {
            let mut pr = post.promotable;
            if self.inj("conf_change") && post.term >= 2 {
                pr = !pr;
            }
            if pr != post.conf.is_voter(id) {
                self.fail("promotable-mismatch", format!("node {} promotable={} but its configuration is {:?}", id, pr, post.conf));
            }
        }
        let _ = (sim, pc);
    }

    /// After RawNode::new on the durable image.
    pub fn restart_checks(&mut self, sim: &Sim, i: usize, post: &NodeSnap) {
        let id = post.id;
        if self.f.persist_before_send {
            let hs = sim.nodes[i].durable.initial_state().unwrap().hard_state;
            if post.term != hs.term || post.vote != hs.vote {
                self.fail("restart-state", format!("node {} restarted with (term {}, vote {}) but its durable hard state is (term {}, vote {})", id, post.term, post.vote, hs.term, hs.vote));
            }
            if post.term < self.promised_term[i] {
                self.fail("restart-behind-promise", format!("node {} restarted at term {} but it released messages of term {}", id, post.term, self.promised_term[i]));
            }
            if let Some(c) = self.granted.get(&(id, post.term)) {
                if post.vote != *c {
                    self.fail("restart-behind-promise", format!("node {} restarted at term {} with vote {} but it released a vote for {} in that term", id, post.term, post.vote, c));
                }
            }
        }
        if self.f.conf_change {
            let a = sim.nodes[i].applied;
            if let Some((k, c)) = self.conf_after.range(..=a).next_back() {
                if *c != post.conf {
                    self.fail("conf-divergence", format!("node {} restarted with applied index {} and configuration {:?}, but the configuration after applying index {} is {:?}", id, a, post.conf, k, c));
                }
            }
        }
    }

    /// A message leaves node i (release to the network).
    pub fn on_send(&mut self, sim: &Sim, i: usize, m: &Message) {
        self.ensure(sim.nodes.len());
        let id = sim.nodes[i].id;
        let t = m.get_msg_type();
        if t == MT::MsgSnapshot && (self.f.sm_safety || self.f.leader_completeness) {
            let md = m.get_snapshot().get_metadata();
            self.report(i, md.index, md.term, None, "snapshot sent", m.term);
        }
        if !self.f.persist_before_send {
            return;
        }
        if t == MT::MsgRequestPreVote || t == MT::MsgRequestPreVoteResponse || m.term == 0 {
            return;
        }
        let store = &sim.nodes[i].durable;
        let hs = store.initial_state().unwrap().hard_state;
        let mut dterm = hs.term;
        self.cov("C06 released promise messages checked");
        if self.inj("persist_before_send") && t == MT::MsgHeartbeat {
            dterm = 0; // observation corruption: the durable image looks empty
        }
        if m.term > self.promised_term[i] {
            self.promised_term[i] = m.term;
        }
        if dterm < m.term {
            self.fail("unpersisted-release", format!("node {} releases {:?} of term {} to {} while its durable term is {} (vote {})", id, t, m.term, m.to, dterm, hs.vote));
            return;
        }
        match t {
            MT::MsgRequestVote => {
                if dterm == m.term && hs.vote != id {
                    self.fail("unpersisted-release", format!("node {} releases MsgRequestVote of term {} while its durable vote is {}", id, m.term, hs.vote));
                }
                self.grant(id, m.term, id);
            }
            MT::MsgRequestVoteResponse if !m.reject => {
                if dterm == m.term && hs.vote != m.to {
                    self.fail("unpersisted-release", format!("node {} releases a vote for {} in term {} while its durable vote is {}", id, m.to, m.term, hs.vote));
                }
                self.grant(id, m.term, m.to);
            }
            MT::MsgAppendResponse if !m.reject => {
                let last = store.last_index().unwrap_or(0);
                if m.index > last && m.term < dterm {
                    // an acknowledgement generated in an older term whose entries a newer leader
                    // truncated before they were persisted: it can only reach a deposed leader, and
                    // the vote restriction (evaluated on the in-memory log of this same incarnation)
                    // already protected those entries; counted, not a violation
                    self.note("stale-term append acknowledgement released after its entries were truncated");
                } else if m.index > last {
                    self.fail("unpersisted-release", format!("node {} releases an append acknowledgement for index {} (term {}) while its durable log ends at {}", id, m.index, m.term, last));
                }
            }
            MT::MsgAppend | MT::MsgHeartbeat | MT::MsgSnapshot | MT::MsgTimeoutNow => {
                if dterm == m.term && hs.vote != id {
                    self.fail("unpersisted-release", format!("node {} releases leader message {:?} of term {} while its durable vote in that term is {}", id, t, m.term, hs.vote));
                }
            }
            _ => {}
        }
    }

    fn grant(&mut self, node: u64, term: u64, cand: u64) {
        match self.granted.get(&(node, term)) {
            None => {
                self.granted.insert((node, term), cand);
            }
            Some(c) if *c != cand => {
                let c = *c;
                self.fail("double-vote", format!("node {} released a vote for {} in term {} after a vote for {} in the same term", node, cand, term, c));
            }
            _ => {}
        }
    }

    /// The application wrote a Ready to the store.
    pub fn on_write(&mut self, sim: &Sim, i: usize, rv: &ReadyView) {
        // the durable image must hold what was handed out for persistence
        if !self.f.ready_contract {
            return;
        }
        let store = &sim.nodes[i].store;
        if let Some(e) = rv.entries.last() {
            let ok = store.term(e.index).map_or(false, |t| t == e.term);
            if !ok {
                self.note("store-rejected-ready-entries");
            }
        }
        let _ = GetEntriesContext::empty(false);
    }

    /// The application applies entry e on node i (called before apply_conf_change for it).
    pub fn on_apply(&mut self, sim: &Sim, i: usize, e: &Entry) {
        self.ensure(sim.nodes.len());
        self.cur_apply[i] = e.index;
        if self.f.sm_safety || self.f.ready_contract {
            let k = ek(e);
            let t = self.snaps[i].as_ref().map_or(0, |s| s.term);
            self.report(i, e.index, k.term, Some(k.body), "apply", t);
        }
    }
}
