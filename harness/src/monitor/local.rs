//! Per-call monitors: compare the pre-state, the call, its outcome and the post-state of the
//! node the call was made on.
use super::*;
use protobuf::Message as PbMessage;
use raft::eraftpb::MessageType as MT;

fn is_vote_req(t: MT) -> bool {
    t == MT::MsgRequestVote || t == MT::MsgRequestPreVote
}

impl MonitorSet {
    // ---- C20
    pub fn m_no_panic(&mut self, _sim: &Sim, _i: usize, c: &Call, o: &CallOutcome, pre: &Pre, _post: &NodeSnap, node: &Node) {
        if self.inj("no_panic") {
            self.inject_ctr += 1;
            if self.inject_ctr == 200 {
                self.fail("panic:injected", format!("node {} call {}", pre.snap.id, call_brief(c)));
                return;
            }
        }
        if pre.expect_err != 0 {
            if o.ret_code != pre.expect_err {
                self.fail("step-not-rejected", format!("node {} {}: expected error code {} (2 = StepLocalMsg, 3 = StepPeerNotFound), got {}", pre.snap.id, call_brief(c), pre.expect_err, o.ret_code));
                return;
            }
            if let Some(d) = &pre.dump {
                let mut w = W::default();
                enc_rawnode(&mut w, node);
                if &w.0 != d {
                    self.fail("rejected-step-changed-state", format!("node {} {}: the state dump differs after a step that returned an error", pre.snap.id, call_brief(c)));
                }
            }
        }
    }

    #[allow(clippy::too_many_arguments)]
    pub fn local_checks(&mut self, sim: &Sim, i: usize, c: &Call, o: &CallOutcome, pre: &NodeSnap, post: &NodeSnap, new_msgs: &[Message], node: &Node) {
        let id = post.id;
        let was_leader = pre.role == StateRole::Leader;
        let is_leader = post.role == StateRole::Leader;
        let same_lead = was_leader && is_leader && pre.term == post.term;

        // ---- C03 vote restriction
        if self.f.vote_restriction {
            if let Call::Step(m) = c {
                let t = m.get_msg_type();
                if is_vote_req(t) {
                    let rt = raft::vote_resp_msg_type(t);
                    for r in new_msgs {
                        if r.get_msg_type() == rt && r.to == m.from && !r.reject {
                            self.cov("C03 vote grants checked against the voter's log");
                            let mut cand = (m.log_term, m.index);
                            if self.inj("vote_restriction") && pre.last_index >= 2 {
                                cand = (0, 0);
                            }
                            if cand < (pre.last_term, pre.last_index) {
                                self.fail("vote-restriction", format!("node {} (last term {}, last index {}) granted {:?} to {} whose log ends at (term {}, index {})", id, pre.last_term, pre.last_index, t, m.from, cand.0, cand.1));
                            }
                        }
                    }
                }
            }
        }

        // ---- C04 commit rule at the leader
        if self.f.commit_rule && is_leader && post.commit > pre.commit {
            self.cov("C04 leader commit advances checked against durable images");
            let ci = post.commit;
            match post.term_at(ci) {
                Some(t) if t == post.term => {}
                other => self.fail("commit-old-term", format!("leader {} of term {} advanced its commit index {} -> {} but the entry there has term {:?}", id, post.term, pre.commit, ci, other)),
            }
            let term = post.term;
            let has = |v: u64| -> bool {
                match sim.nodes.iter().find(|n| n.id == v) {
                    None => false,
                    Some(n) => match n.durable.term(ci) {
                        Ok(t) => t == term,
                        Err(raft::Error::Store(raft::StorageError::Compacted)) => true,
                        Err(_) => false,
                    },
                }
            };
            if !post.conf.quorum(has) {
                let holders: Vec<u64> = post.conf.members().into_iter().filter(|v| has(*v)).collect();
                self.fail("commit-without-quorum", format!("leader {} of term {} advanced its commit index {} -> {} in {} but entry ({}, term {}) is durable only on {:?}; configuration {:?}", id, term, pre.commit, ci, call_brief(c), ci, term, holders, post.conf));
            }
        }

        // ---- C05 leader append-only, committed prefix immutable
        if self.f.log_matching {
            if same_lead {
                self.cov("C05 leader calls checked for append-only");
                let lo = pre.first.max(post.first);
                let hi = pre.last_index;
                if post.last_index < pre.last_index {
                    self.fail("leader-log-shrunk", format!("leader {} of term {}: last index {} -> {} in {}", id, post.term, pre.last_index, post.last_index, call_brief(c)));
                } else {
                    let mut k = lo;
                    while k <= hi {
                        if pre.entry(k) != post.entry(k) {
                            self.fail("leader-log-rewrite", format!("leader {} of term {} changed its own entry at index {} in {}", id, post.term, k, call_brief(c)));
                            break;
                        }
                        k += 1;
                    }
                }
            }
            if post.commit < pre.commit {
                self.fail("commit-regress", format!("node {}: commit index {} -> {} in {}", id, pre.commit, post.commit, call_brief(c)));
            }
            let lo = pre.first.max(post.first).max(1);
            let hi = pre.commit.min(pre.last_index);
            let mut k = lo;
            while k <= hi {
                match (pre.entry(k), post.entry(k)) {
                    (Some(a), Some(b)) => {
                        if a != b {
                            self.fail("committed-entry-changed", format!("node {} replaced the entry at index {} <= commit {} : {} -> {} in {}", id, k, pre.commit, a.show(), b.show(), call_brief(c)));
                            break;
                        }
                    }
                    (Some(_), None) => {
                        self.fail("committed-entry-lost", format!("node {} dropped the entry at index {} <= commit {} (last index {} -> {}) in {}", id, k, pre.commit, pre.last_index, post.last_index, call_brief(c)));
                        break;
                    }
                    _ => {}
                }
                k += 1;
            }
        }

        // ---- C06 term monotone within an incarnation
        if self.f.persist_before_send {
            if post.term < pre.term {
                self.fail("term-regress", format!("node {}: term {} -> {} in {}", id, pre.term, post.term, call_brief(c)));
            }
            if post.term == pre.term && pre.vote != 0 && post.vote != pre.vote {
                self.fail("vote-changed", format!("node {}: vote {} -> {} within term {} in {}", id, pre.vote, post.vote, post.term, call_brief(c)));
            }
        }

        if self.f.ready_contract {
            self.m_ready(sim, i, c, o, pre, post);
        }
        if self.f.read_index {
            self.m_read(sim, i, c, o, pre, post);
        }
        if self.f.conf_change {
            self.m_conf(sim, i, c, o, pre, post);
        }
        if self.f.flow_control {
            self.m_flow(c, pre, post, new_msgs, node);
        }
        if self.f.snapshot {
            self.m_snapshot(c, pre, post, new_msgs);
        }
        if self.f.prevote {
            self.m_prevote(i, c, pre, post);
        }
        if self.f.transfer {
            self.m_transfer(i, c, o, pre, post, new_msgs);
        }
    }

    // ---- C07
    fn hand_out(&mut self, i: usize, es: &[Entry], post: &NodeSnap, via: &str) {
        let id = post.id;
        for e in es {
            let mut idx = e.index;
            self.cov("C07 committed entries handed out");
            if self.inj("ready_contract") && idx == 4 {
                idx = 5; // observation corruption
            }
            let want = self.next_apply[i];
            if idx != want {
                let kind = if idx < want { "apply-duplicate" } else { "apply-gap" };
                self.fail(kind, format!("node {} handed out committed entry {} via {} but the next index to hand out is {}", id, idx, via, want));
                return;
            }
            self.next_apply[i] = want + 1;
            let k = ek(e);
            if let Some(c) = self.cl.get(&e.index) {
                if c.term != k.term || c.body.map_or(false, |b| b != k.body) {
                    self.fail("apply-altered", format!("node {} handed out {} at index {} via {} but the committed entry there is (term {}, {:?})", id, k.show(), e.index, via, c.term, c.body));
                    return;
                }
            }
            self.report(i, e.index, k.term, Some(k.body), via, post.term);
            let bound = post.persisted.saturating_add(post.limit);
            if e.index > bound {
                self.fail("apply-unpersisted", format!("node {} handed out committed entry {} via {} while persisted = {} and max_apply_unpersisted_log_limit = {}", id, e.index, via, post.persisted, post.limit));
                return;
            }
            if e.index > post.commit {
                self.fail("apply-uncommitted", format!("node {} handed out entry {} via {} beyond its commit index {}", id, e.index, via, post.commit));
                return;
            }
        }
    }

    fn m_ready(&mut self, _sim: &Sim, i: usize, c: &Call, o: &CallOutcome, pre: &NodeSnap, post: &NodeSnap) {
        let id = post.id;
        match c {
            Call::HasReady => {
                self.last_has_ready[i] = Some(o.flag);
                let hs_now = (pre.term, pre.vote, pre.commit);
                let ss_now = (pre.lead, pre.role);
                let content = pre.msgs_len > 0 || ss_now != pre.prev_ss || hs_now != pre.prev_hs || pre.read_states_len > 0
                    || pre.unstable_len > 0 || pre.pending_snap.map_or(false, |s| s.0 != 0) || pre.has_next;
                if content && !o.flag {
                    self.fail("has-ready-false-negative", format!("node {}: has_ready() = false although msgs={} unstable={} snapshot={:?} hard state {:?} vs handed {:?} soft state {:?} vs {:?} read_states={} next entries={}", id, pre.msgs_len, pre.unstable_len, pre.pending_snap, hs_now, pre.prev_hs, ss_now, pre.prev_ss, pre.read_states_len, pre.has_next));
                }
                return;
            }
            Call::Ready => {
                let rv = match &o.ready {
                    Some(r) => r,
                    None => return,
                };
                let sidx = rv.snapshot.get_metadata().index;
                self.cov("C07 Ready checked");
                let nonempty = rv.hs.is_some() || rv.ss.is_some() || !rv.entries.is_empty() || sidx != 0
                    || !rv.committed_entries.is_empty() || !rv.messages.is_empty() || !rv.persisted_messages.is_empty()
                    || !rv.read_states.is_empty();
                if let Some(flag) = self.last_has_ready[i].take() {
                    if flag != nonempty {
                        self.fail("has-ready-mismatch", format!("node {}: has_ready() = {} but the Ready returned right after is {}", id, flag, if nonempty { "non-empty" } else { "empty" }));
                    }
                }
                // entries to persist == the unstable suffix
                let mut want: Vec<(u64, EK)> = vec![];
                for k in 0..pre.unstable_len as u64 {
                    let idx = pre.unstable_off + k;
                    if let Some(e) = pre.entry(idx) {
                        want.push((idx, e.clone()));
                    }
                }
                let got: Vec<(u64, EK)> = rv.entries.iter().map(|e| (e.index, ek(e))).collect();
                if want != got {
                    self.fail("persist-handout-mismatch", format!("node {}: Ready.entries covers {:?} but the unstable suffix is {:?}", id, got.iter().map(|x| (x.0, x.1.term)).collect::<Vec<_>>(), want.iter().map(|x| (x.0, x.1.term)).collect::<Vec<_>>()));
                }
                for (idx, e) in &got {
                    if self.handed[i].get(idx) == Some(&e.term) {
                        self.fail("persist-duplicate", format!("node {}: entry ({}, term {}) handed out for persistence twice", id, idx, e.term));
                    }
                }
                if let Some((idx, _)) = got.first() {
                    let rm: Vec<u64> = self.handed[i].range(*idx..).map(|x| *x.0).collect();
                    for k in rm {
                        self.handed[i].remove(&k);
                    }
                }
                for (idx, e) in &got {
                    self.handed[i].insert(*idx, e.term);
                }
                // hard state
                let hs_now = (pre.term, pre.vote, pre.commit);
                let want_hs = if hs_now != pre.prev_hs { Some(hs_now) } else { None };
                if rv.hs != want_hs {
                    self.fail("hs-handout", format!("node {}: Ready.hs = {:?} but the hard state is {:?} and the last one handed out is {:?}", id, rv.hs, hs_now, pre.prev_hs));
                }
                let tv_changed = hs_now.0 != pre.prev_hs.0 || hs_now.1 != pre.prev_hs.1;
                let mut ms = rv.must_sync;
                if self.inj("ready_contract_sync") {
                    ms = false;
                }
                if (!rv.entries.is_empty() || sidx != 0 || tv_changed) && !ms {
                    self.fail("must-sync-missing", format!("node {}: Ready with {} entries, snapshot index {}, term/vote change {} has must_sync = false", id, rv.entries.len(), sidx, tv_changed));
                }
                if sidx != 0 {
                    if !rv.committed_entries.is_empty() {
                        self.fail("apply-with-snapshot", format!("node {}: Ready carries snapshot {} and committed entries", id, sidx));
                    }
                    if sidx + 1 < self.next_apply[i] {
                        self.fail("snapshot-behind-applied", format!("node {}: Ready carries snapshot {} but entries up to {} were already handed out", id, sidx, self.next_apply[i] - 1));
                    }
                    self.next_apply[i] = sidx + 1;
                    self.report(i, sidx, rv.snapshot.get_metadata().term, None, "snapshot in Ready", post.term);
                    self.handed[i].clear();
                }
                let es = rv.committed_entries.clone();
                self.hand_out(i, &es, post, "Ready");
            }
            Call::Advance | Call::AdvanceAppend => {
                if let Some(l) = &o.light {
                    let es = l.committed_entries().to_vec();
                    self.hand_out(i, &es, post, "LightReady");
                }
            }
            _ => {}
        }
        if !matches!(c, Call::HasReady) {
            self.last_has_ready[i] = None;
        }
    }

    // ---- C08
    fn m_read(&mut self, sim: &Sim, _i: usize, c: &Call, o: &CallOutcome, pre: &NodeSnap, post: &NodeSnap) {
        if !post.read_safe {
            return;
        }
        let id = post.id;
        if let Call::ReadIndex(ctx) = c {
            let bar = self.max_commit_ever.max(pre.commit);
            match self.reads.get_mut(ctx) {
                Some(r) => r.2 = true,
                None => {
                    self.reads.insert(ctx.clone(), (id, bar, false));
                }
            }
        }
        if let (Call::Ready, Some(rv)) = (c, &o.ready) {
            for (idx, ctx) in &rv.read_states {
                self.cov("C08 read states delivered");
                if let Some((n, bar, amb)) = self.reads.get(ctx).cloned() {
                    if amb {
                        continue;
                    }
                    let mut idx = *idx;
                    if self.inj("read_index") && idx > 0 {
                        idx = 0;
                    }
                    if n != id {
                        self.fail("read-wrong-node", format!("read state for context {:?} issued on node {} was delivered on node {}", ctx, n, id));
                    } else if idx < bar {
                        // released by an acknowledgement counted for a re-recorded duplicate request: the known finding
                        let kind = if sim.pt.tainted_reads.contains(ctx) { "stale-read-by-duplicates" } else { "stale-read" };
                        self.fail(kind, format!("node {}: read state for context {:?} has index {} but commit index {} had been reached when the read was issued", id, ctx, idx, bar));
                    }
                }
            }
        }
    }
}

pub fn entries_size(es: &[Entry]) -> u64 {
    es.iter().map(|e| e.compute_size() as u64).sum()
}
