//! Per-call monitors, second part: membership (C09), flow control (C13), snapshots (C15),
//! pre-vote (C16), leadership transfer (C17).
use super::local::entries_size;
use super::*;
use raft::eraftpb::MessageType as MT;

impl MonitorSet {
    // ---- C09
    pub(super) fn m_conf(&mut self, sim: &Sim, i: usize, c: &Call, o: &CallOutcome, pre: &NodeSnap, post: &NodeSnap) {
        let id = post.id;
        let is_leader = post.role == StateRole::Leader;
        let became_leader = is_leader && (pre.role != StateRole::Leader || pre.term != post.term);
        if became_leader {
            // entries above the pre-call last index belong to this leadership (its own empty entry first)
            self.lead_start[i] = pre.last_index;
        }
        if is_leader {
            let ls = self.lead_start[i];
            let mut app = 0;
            let mut inh = 0;
            let mut idx = post.first.max(post.applied + 1);
            while idx <= post.last_index {
                if post.entry(idx).map_or(false, |e| e.is_cc()) {
                    if idx > ls {
                        app += 1;
                    } else {
                        inh += 1;
                    }
                }
                idx += 1;
            }
            if self.inj("conf_change_pending") && app == 1 {
                app = 2;
            }
            if app >= 2 || (app >= 1 && inh >= 1) {
                self.fail("two-pending-cc", format!("leader {} of term {} holds {} membership entries appended in this leadership and {} inherited ones above its applied index {} (after {})", id, post.term, app, inh, post.applied, call_brief(c)));
            } else if inh >= 2 {
                if self.strict {
                    self.fail("inherited-pending-cc", format!("leader {} of term {} inherited {} membership entries above its applied index {}", id, post.term, inh, post.applied));
                } else {
                    self.note("inherited-pending-cc (leader inherited >= 2 unapplied membership entries)");
                }
            }
        }
        // starting an election
        let started = post.is_campaigning() && (!pre.is_campaigning() || post.term > pre.term) && pre.role != StateRole::Leader;
        let started = started && !(pre.role == StateRole::PreCandidate && post.role == StateRole::Candidate);
        if started {
            self.cov("C09 election starts checked");
            if pre.pending_snap.is_none() {
                let mut idx = pre.applied + 1;
                while idx <= pre.commit {
                    if post.entry(idx).or(pre.entry(idx)).map_or(false, |e| e.is_cc()) {
                        self.fail("campaign-with-pending-cc", format!("node {} became {:?} in {} while the committed membership entry at index {} is unapplied (applied {}, commit {})", id, post.role, call_brief(c), idx, pre.applied, pre.commit));
                        break;
                    }
                    idx += 1;
                }
            }
            if matches!(c, Call::Campaign) && !pre.conf.is_voter(id) {
                // only reachable with --learner-campaign: RawNode::campaign() on a non-voter
                self.fail("nonvoter-campaign-by-api", format!("node {} is not a voter of its configuration {:?} but campaign() made it {:?} at term {} (hup() does not check promotable)", id, pre.conf, post.role, post.term));
            }
            let by_timer = matches!(c, Call::Tick) || matches!(c, Call::Step(m) if m.get_msg_type() == MT::MsgTimeoutNow);
            if by_timer && !pre.conf.is_voter(id) {
                self.fail("non-voter-campaign", format!("node {} is not a voter of its configuration {:?} but became {:?} in {}", id, pre.conf, post.role, call_brief(c)));
            }
        }
        // configuration is a function of the applied membership entries
        match c {
            Call::ApplyConfChange(_) => {
                let idx = self.cur_apply[i];
                let result = post.conf.clone();
                self.cov("C09 apply_conf_change results compared");
                if let Some(cs) = &o.conf_state {
                    if conf_key(cs) != result {
                        self.fail("conf-return-mismatch", format!("node {}: apply_conf_change returned {:?} but the active configuration is {:?}", id, conf_key(cs), result));
                    }
                } else if post.conf != pre.conf {
                    self.fail("conf-changed-by-failed-apply", format!("node {}: apply_conf_change failed but the configuration changed", id));
                }
                let mut result = result;
                if self.inj("conf_change_divergence") && id == 2 {
                    result.voters.push(99);
                }
                match self.conf_after.get(&idx) {
                    None => {
                        self.conf_after.insert(idx, result);
                    }
                    Some(k) if *k != result => {
                        let k = k.clone();
                        self.fail("conf-divergence", format!("node {} has configuration {:?} after applying the membership entry at index {}, another node had {:?}", id, result, idx, k));
                    }
                    _ => {}
                }
            }
            Call::Step(m) if m.get_msg_type() == MT::MsgSnapshot => {
                if post.conf != pre.conf || post.pending_snap != pre.pending_snap {
                    if let Some((s, _)) = post.pending_snap {
                        if let Some((k, cf)) = self.conf_after.range(..=s).next_back() {
                            if *cf != post.conf {
                                self.fail("conf-divergence", format!("node {} restored a snapshot at index {} with configuration {:?}, but the configuration after applying index {} is {:?}", id, s, post.conf, k, cf));
                            }
                        }
                    }
                }
            }
            _ => {
                if post.conf != pre.conf {
                    self.fail("conf-changed-outside-apply", format!("node {}: configuration {:?} -> {:?} in {}", id, pre.conf, post.conf, call_brief(c)));
                }
            }
        }
        let _ = sim;
    }

    // ---- C13
    pub(super) fn m_flow(&mut self, c: &Call, pre: &NodeSnap, post: &NodeSnap, new_msgs: &[Message], node: &Node) {
        let id = post.id;
        if post.role != StateRole::Leader {
            return;
        }
        let same_lead = pre.role == StateRole::Leader && pre.term == post.term;
        // well-formedness of what is emitted as leader of the current term
        let all: Vec<&Message> = if post.batch { node.raft.msgs.iter().collect() } else { new_msgs.iter().collect() };
        for m in all {
            if m.term != post.term || m.from != id {
                continue;
            }
            match m.get_msg_type() {
                MT::MsgAppend => {
                    let mut lt = m.log_term;
                    self.cov("C13 MsgAppend checked against the leader log");
                    if self.inj("flow_control") && m.index >= 3 {
                        lt += 1;
                    }
                    let known = post.term_at(m.index);
                    if (known.is_some() && known != Some(lt)) || (known.is_none() && m.index >= post.first) {
                        self.fail("append-anchor", format!("leader {} of term {} emitted MsgAppend to {} anchored at (index {}, term {}) but its log (first index {}, boundary term {}, last {}) has term {:?} there", id, post.term, m.to, m.index, lt, post.first, post.bterm, post.last_index, post.term_at(m.index)));
                        return;
                    }
                    for (k, e) in m.entries.iter().enumerate() {
                        let idx = m.index + 1 + k as u64;
                        if e.index != idx {
                            self.fail("append-not-contiguous", format!("leader {} of term {} emitted MsgAppend to {} anchored at index {} whose entry #{} has index {} (expected {}); {} entries, batch_append = {}", id, post.term, m.to, m.index, k, e.index, idx, m.entries.len(), post.batch));
                            return;
                        }
                        if idx < post.first {
                            continue; // queued earlier (batching), compacted from the store since
                        }
                        if post.entry(idx) != Some(&ek(e)) {
                            self.fail("append-not-own-log", format!("leader {} of term {} emitted MsgAppend to {} whose entry #{} (index {}, term {}) is not entry {} of its log ({:?})", id, post.term, m.to, k, e.index, e.term, idx, post.entry(idx).map(|x| x.show())));
                            return;
                        }
                    }
                    if m.commit > post.commit {
                        self.fail("append-commit-ahead", format!("leader {} emitted MsgAppend to {} with commit {} > its commit {}", id, m.to, m.commit, post.commit));
                        return;
                    }
                    if !post.batch && m.entries.len() > 1 && entries_size(&m.entries) > post.max_msg_size {
                        self.fail("append-oversize", format!("leader {} emitted MsgAppend to {} with {} entries of {} bytes > max_size_per_msg {}", id, m.to, m.entries.len(), entries_size(&m.entries), post.max_msg_size));
                        return;
                    }
                }
                MT::MsgHeartbeat => {
                    let matched = post.pr(m.to).map_or(0, |p| p.matched);
                    self.cov("C13 MsgHeartbeat commit checked");
                    if m.commit > matched.min(post.commit) {
                        self.fail("heartbeat-commit", format!("leader {} emitted MsgHeartbeat to {} with commit {} > min(matched {}, commit {})", id, m.to, m.commit, matched, post.commit));
                        return;
                    }
                }
                _ => {}
            }
        }
        // window accounting
        for p in &post.prs {
            if p.id == id {
                continue;
            }
            let mut cnt = p.ins_count;
            if self.inj("flow_control_window") && p.ins_cap <= 3 && cnt > 0 {
                cnt += p.ins_cap;
            }
            if cnt > p.ins_cap {
                self.fail("inflight-overflow", format!("leader {}: {} in-flight appends to {} exceed the window {}", id, cnt, p.id, p.ins_cap));
                return;
            }
            if !same_lead {
                continue;
            }
            let q = match pre.pr(p.id) {
                Some(q) => q,
                None => continue,
            };
            let apps: Vec<&Message> = new_msgs.iter().filter(|m| m.get_msg_type() == MT::MsgAppend && m.to == p.id).collect();
            let n_ent = apps.iter().filter(|m| !m.entries.is_empty()).count();
            let feedback = match c {
                Call::Step(m) => m.from == p.id,
                Call::ReportUnreachable(x) | Call::ReportSnapshot(x, _) | Call::AdjustInflight(x, _) | Call::TransferLeader(x) => *x == p.id,
                Call::ApplyConfChange(_) | Call::MaybeFreeInflight => true,
                _ => false,
            };
            if q.state == ProgressState::Snapshot && p.state == ProgressState::Snapshot && !apps.is_empty() {
                self.fail("append-during-snapshot", format!("leader {} emitted MsgAppend to {} while a snapshot (index {}) is outstanding, in {}", id, p.id, p.pending_snapshot, call_brief(c)));
                return;
            }
            if q.state == ProgressState::Probe && p.state == ProgressState::Probe {
                if apps.len() > 1 {
                    self.fail("probe-burst", format!("leader {} emitted {} MsgAppend to probing peer {} in {}", id, apps.len(), p.id, call_brief(c)));
                    return;
                }
                if q.paused && !feedback && !apps.is_empty() {
                    self.fail("append-while-probe-paused", format!("leader {} emitted MsgAppend to paused probing peer {} in {}", id, p.id, call_brief(c)));
                    return;
                }
            }
            if !post.batch && !feedback && q.state == ProgressState::Replicate && p.state == ProgressState::Replicate {
                if q.ins_count + n_ent > q.ins_cap.max(p.ins_cap) {
                    self.fail("inflight-overflow", format!("leader {}: {} in flight + {} new entry-carrying appends to {} exceed the window {} in {}", id, q.ins_count, n_ent, p.id, p.ins_cap, call_brief(c)));
                    return;
                }
                if p.ins_count != q.ins_count + n_ent {
                    self.fail("inflight-miscount", format!("leader {}: window to {} counts {} -> {} but {} entry-carrying appends were emitted in {}", id, p.id, q.ins_count, p.ins_count, n_ent, call_brief(c)));
                    return;
                }
            }
        }
        // uncommitted payload bound
        if same_lead && post.usize_ > pre.usize_ && pre.usize_ != 0 && post.umax != u64::MAX && post.usize_ > post.umax {
            self.fail("uncommitted-overflow", format!("leader {}: uncommitted payload {} -> {} exceeds max_uncommitted_size {} in {}", id, pre.usize_, post.usize_, post.umax, call_brief(c)));
        }
    }

    // ---- C15
    pub(super) fn m_snapshot(&mut self, c: &Call, pre: &NodeSnap, post: &NodeSnap, new_msgs: &[Message]) {
        let id = post.id;
        if let Call::Step(m) = c {
            if m.get_msg_type() == MT::MsgSnapshot {
                let md = m.get_snapshot().get_metadata();
                let (sidx, sterm) = (md.index, md.term);
                let scf = conf_key(md.get_conf_state());
                let installed = post.pending_snap == Some((sidx, sterm)) && (pre.pending_snap != post.pending_snap || pre.last_index != post.last_index || pre.commit != post.commit);
                let matching = pre.term_at(sidx) == Some(sterm) && pre.pending_request_snapshot == 0;
                if installed {
                    let mut pc = pre.commit;
                    self.cov("C15 snapshot installs checked");
                    if self.inj("snapshot") {
                        pc = sidx + 1;
                    }
                    if sidx < pc {
                        self.fail("snapshot-behind-commit", format!("node {} installed snapshot (index {}, term {}) although its commit index is {}", id, sidx, sterm, pc));
                    } else if !scf.is_member(id) {
                        self.fail("snapshot-non-member", format!("node {} installed a snapshot whose configuration {:?} does not list it", id, scf));
                    } else if matching && pre.last_index >= sidx {
                        self.fail("snapshot-needless-install", format!("node {} installed snapshot (index {}, term {}) that matches its log and that it did not request; discarded entries up to {}", id, sidx, sterm, pre.last_index));
                    } else if post.commit != sidx || post.last_index != sidx || post.last_term != sterm || post.conf != scf {
                        self.fail("snapshot-install-state", format!("node {} after installing snapshot (index {}, term {}, conf {:?}): commit {}, last index {}, last term {}, conf {:?}", id, sidx, sterm, scf, post.commit, post.last_index, post.last_term, post.conf));
                    }
                } else {
                    if pre.log != post.log || pre.first != post.first || pre.conf != post.conf {
                        self.fail("snapshot-ignored-but-changed", format!("node {} did not install snapshot (index {}) but its log or configuration changed", id, sidx));
                    } else if post.commit != pre.commit {
                        let legit = m.term >= pre.term && pre.term_at(sidx) == Some(sterm) && post.commit == sidx && sidx > pre.commit;
                        if !legit {
                            self.fail("snapshot-ignored-but-commit-moved", format!("node {} did not install snapshot (index {}, term {}) yet its commit index moved {} -> {}", id, sidx, sterm, pre.commit, post.commit));
                        }
                    }
                }
            }
        }
        if post.role == StateRole::Leader {
            for m in new_msgs {
                if m.get_msg_type() != MT::MsgSnapshot || m.from != id {
                    continue;
                }
                let md = m.get_snapshot().get_metadata();
                let p = match post.pr(m.to) {
                    Some(p) => p,
                    None => {
                        self.fail("snapshot-to-unknown", format!("leader {} emitted MsgSnapshot to {} which it does not track", id, m.to));
                        continue;
                    }
                };
                let requested = p.pending_request_snapshot != 0 || pre.pr(m.to).map_or(false, |q| q.pending_request_snapshot != 0);
                self.cov("C15 MsgSnapshot emissions checked");
                // entries from next_idx (and the term before it) are unavailable iff next_idx - 1 is below the snapshot boundary
                let needed = p.next_idx < post.first || (p.next_idx == post.first && post.bterm == 0 && post.first > 1);
                if !requested && !needed {
                    self.fail("snapshot-unneeded", format!("leader {} (log from index {}) emitted MsgSnapshot (index {}) to {} whose next index is {} and which did not ask for one, in {}", id, post.first, md.index, m.to, p.next_idx, call_brief(c)));
                }
                if p.state != ProgressState::Snapshot || p.pending_snapshot != md.index {
                    self.fail("snapshot-progress-state", format!("leader {} emitted MsgSnapshot (index {}) to {} but its progress is {:?} with pending_snapshot {}", id, md.index, m.to, p.state, p.pending_snapshot));
                }
                if md.index > post.commit {
                    self.fail("snapshot-uncommitted", format!("leader {} emitted a snapshot at index {} beyond its commit index {}", id, md.index, post.commit));
                }
            }
            if let Call::ReportSnapshot(x, failed) = c {
                if pre.role == StateRole::Leader {
                    if let (Some(q), Some(p)) = (pre.pr(*x), post.pr(*x)) {
                        if q.state == ProgressState::Snapshot {
                            let want_next = if *failed { q.matched + 1 } else { (q.matched + 1).max(q.pending_snapshot + 1) };
                            if p.state != ProgressState::Probe || p.next_idx != want_next {
                                self.fail("snapshot-resume", format!("leader {}: after report_snapshot({}, failed={}) progress is {:?} next {} (expected Probe next {})", id, x, failed, p.state, p.next_idx, want_next));
                            }
                        }
                    }
                }
            }
        }
    }

    // ---- C16
    pub(super) fn m_prevote(&mut self, i: usize, c: &Call, pre: &NodeSnap, post: &NodeSnap) {
        let id = post.id;
        if let Call::Step(m) = c {
            if m.get_msg_type() == MT::MsgRequestPreVote {
                let mut t = post.term;
                self.cov("C16 MsgRequestPreVote steps checked");
                if self.inj("prevote") && m.term > pre.term {
                    t = m.term;
                }
                if t != pre.term || post.vote != pre.vote {
                    self.fail("prevote-changed-state", format!("node {}: handling MsgRequestPreVote (term {}) from {} changed (term, vote) ({}, {}) -> ({}, {})", id, m.term, m.from, pre.term, pre.vote, t, post.vote));
                }
            }
        }
        if pre.pre_vote && post.term > pre.term {
            self.cov("C16 term rises under pre_vote checked");
            // a term may rise only through a message of that term, or by winning a pre-vote
            let by_msg = match c {
                Call::Step(m) => {
                    let t = m.get_msg_type();
                    m.term == post.term && t != MT::MsgRequestPreVote && !(t == MT::MsgRequestPreVoteResponse && !m.reject)
                }
                _ => false,
            };
            let transfer = matches!(c, Call::Step(m) if m.get_msg_type() == MT::MsgTimeoutNow);
            if !by_msg && !transfer {
                let became = (post.role == StateRole::Candidate || post.role == StateRole::Leader) && post.term == pre.term + 1;
                // who granted: the pre-state tally plus this response; a fresh campaign counts itself only
                let mut granted: Vec<u64> = vec![id];
                if pre.role == StateRole::PreCandidate {
                    granted.extend(pre.votes.iter().filter(|v| v.1).map(|v| v.0));
                    if let Call::Step(m) = c {
                        if m.get_msg_type() == MT::MsgRequestPreVoteResponse && !m.reject {
                            granted.push(m.from);
                        }
                    }
                }
                let won = pre.conf.quorum(|v| granted.contains(&v));
                if !became || !won {
                    self.fail("term-raised-without-prevote-quorum", format!("node {} ({:?}) raised its term {} -> {} in {} with pre-vote grants from {:?} only; configuration {:?}", id, pre.role, pre.term, post.term, call_brief(c), granted, pre.conf));
                }
            }
        }
        if let Some(w) = self.window.clone() {
            self.cov("C16 calls inside a healthy-majority window");
            if i == w.leader && (post.role != StateRole::Leader || post.term != w.term) {
                self.fail("leader-disrupted", format!("leader {} of term {} became {:?} at term {} in {} although a majority exchanged heartbeats on schedule (pre_vote and check_quorum on)", id, w.term, post.role, post.term, call_brief(c)));
            } else if w.maj.contains(&i) && post.term != w.term {
                self.fail("majority-term-changed", format!("node {} of the healthy majority moved from term {} to {} in {}", id, w.term, post.term, call_brief(c)));
            }
        }
    }

    // ---- C17
    pub(super) fn m_transfer(&mut self, i: usize, c: &Call, o: &CallOutcome, pre: &NodeSnap, post: &NodeSnap, new_msgs: &[Message]) {
        let id = post.id;
        let was_leader = pre.role == StateRole::Leader;
        let is_leader = post.role == StateRole::Leader;
        for m in new_msgs {
            if m.get_msg_type() == MT::MsgTimeoutNow && m.from == id {
                self.cov("C17 MsgTimeoutNow emissions checked");
                let matched = post.pr(m.to).map(|p| p.matched);
                let mut tr = post.transferee;
                if self.inj("transfer") {
                    tr = None;
                }
                if !is_leader || tr != Some(m.to) || matched != Some(post.last_index) {
                    self.fail("timeout-now-premature", format!("node {} ({:?}) emitted MsgTimeoutNow to {} with lead_transferee {:?}, matched {:?}, own last index {} in {}", id, post.role, m.to, tr, matched, post.last_index, call_brief(c)));
                }
            }
        }
        if was_leader && pre.transferee.is_some() {
            let proposing = matches!(c, Call::Propose(..) | Call::ProposeConfChange(..)) || matches!(c, Call::Step(m) if m.get_msg_type() == MT::MsgPropose);
            if proposing {
                let direct = !matches!(c, Call::Step(_));
                self.cov("C17 proposals during a transfer checked");
                if post.last_index != pre.last_index || (direct && o.ret_code != 1) {
                    self.fail("proposal-during-transfer", format!("leader {} accepted a proposal while transferring to {:?} (last index {} -> {}, return code {})", id, pre.transferee, pre.last_index, post.last_index, o.ret_code));
                }
            }
        }
        // a transfer is abandoned after election_timeout ticks
        if was_leader && is_leader && pre.term == post.term && pre.transferee.is_some() && pre.transferee == post.transferee {
            if matches!(c, Call::Tick) {
                self.transfer_ticks[i] += 1;
                if self.transfer_ticks[i] > post.election_timeout {
                    self.fail("transfer-not-abandoned", format!("leader {} still transfers to {:?} after {} ticks (election timeout {})", id, post.transferee, self.transfer_ticks[i], post.election_timeout));
                }
            }
        } else {
            self.transfer_ticks[i] = 0;
        }
        // requests naming a learner or an unknown node are ignored; naming itself at most cancels
        let target = match c {
            Call::TransferLeader(x) => Some(*x),
            Call::Step(m) if m.get_msg_type() == MT::MsgTransferLeader => Some(m.from),
            _ => None,
        };
        if let Some(x) = target {
            if was_leader && is_leader {
                let unknown = pre.pr(x).is_none();
                let learner = pre.conf.learners.contains(&x);
                if (unknown || learner) && (post.transferee != pre.transferee || new_msgs.iter().any(|m| m.get_msg_type() == MT::MsgTimeoutNow)) {
                    self.fail("transfer-to-non-voter", format!("leader {}: transfer request naming {} (unknown={}, learner={}) changed lead_transferee {:?} -> {:?}", id, x, unknown, learner, pre.transferee, post.transferee));
                }
                if x == id && post.transferee.is_some() && post.transferee != pre.transferee {
                    self.fail("transfer-to-self", format!("leader {}: transfer request naming itself set lead_transferee {:?}", id, post.transferee));
                }
            }
        }
    }
}
