//! Deterministic, scripted reproductions of the listed known findings (known_findings.txt):
//! `vharness finding <name>` prints `REPRODUCED <name> <what happened>` or `NOT-REPRODUCED <name> …`.
//! They use the simulator's node/application layer (contract-abiding Ready handling over
//! `SimStorage`) with a fixed cluster shape and a fixed schedule, no random choices.
use crate::node::*;
use crate::sim::*;
use raft::eraftpb::*;
use raft::{Config, StateRole};

fn sim(voters: &[u64], learners: &[u64], mk: impl Fn(u64) -> Config) -> Sim {
    let mut s = Sim::new(1, Recorder::disabled());
    s.quiet = true;
    s.boot_fixed(voters, learners, mk);
    s
}

fn base_cfg(id: u64) -> Config {
    let mut c = Config::new(id);
    c.election_tick = 10;
    c.heartbeat_tick = 1;
    c.max_size_per_msg = u64::MAX;
    c.max_inflight_msgs = 256;
    c
}

/// Delivers everything in flight (repeatedly, with synchronous Ready rounds in between).
fn settle(s: &mut Sim, rounds: usize) {
    for _ in 0..rounds {
        for i in 0..s.nodes.len() {
            s.ready_round_with(i, Some(0));
        }
        let msgs = std::mem::take(&mut s.net);
        if msgs.is_empty() {
            continue;
        }
        for m in msgs {
            if let Some(i) = s.idx_of(m.to) {
                s.call(i, Call::Step(m));
            }
        }
    }
}

fn deliver_to(s: &mut Sim, to: u64) {
    let (mine, rest): (Vec<Message>, Vec<Message>) = std::mem::take(&mut s.net).into_iter().partition(|m| m.to == to);
    s.net = rest;
    for m in mine {
        if let Some(i) = s.idx_of(m.to) {
            s.call(i, Call::Step(m));
        }
    }
}

fn role(s: &Sim, i: usize) -> Option<StateRole> {
    s.nodes[i].driver.as_ref().map(|d| d.node.raft.state)
}

/// F9: a fresh group (term 0) with pre-vote; a node with a higher priority rejects a pre-vote.
fn f9() -> Result<String, String> {
    let mut s = sim(&[1, 2, 3], &[], |id| {
        let mut c = base_cfg(id);
        c.pre_vote = true;
        c.priority = if id == 2 { 1 } else { 0 };
        c
    });
    s.call(0, Call::Campaign);
    settle(&mut s, 3);
    match &s.last_panic {
        Some(p) if p.contains("term should be set") => Ok(p.clone()),
        other => Err(format!("no such panic (last panic: {:?})", other)),
    }
}

/// F7: the group shrinks to the single voter 1 while 2 (which removed itself) still leads;
/// 1 appends an entry from 2, hands it to an asynchronous write, then campaigns and wins at once.
fn f7() -> Result<String, String> {
    let mut s = sim(&[1, 2], &[], base_cfg);
    s.call(1, Call::Campaign);
    settle(&mut s, 6);
    if role(&s, 1) != Some(StateRole::Leader) {
        return Err("node 2 did not become leader".into());
    }
    let mut cc = ConfChange::default();
    cc.set_change_type(ConfChangeType::RemoveNode);
    cc.node_id = 2;
    // the removal of 2 reaches 1, is persisted and acknowledged; 2 learns it is committed
    s.call(1, Call::ProposeConfChange(vec![], CcKind::V1(cc)));
    s.ready_round_with(1, Some(0));
    deliver_to(&mut s, 1);
    s.ready_round_with(0, Some(0));
    deliver_to(&mut s, 2);
    // before applying it, 2 appends one more entry; then it applies the change (and no longer tracks itself)
    s.call(1, Call::Propose(vec![], vec![1, 2, 3]));
    s.ready_round_with(1, Some(0));
    // 1 first learns the commit index (and applies the change: its voters are now [1]) ...
    let mut to1: Vec<Message> = std::mem::take(&mut s.net).into_iter().filter(|m| m.to == 1).collect();
    if to1.len() < 2 {
        return Err(format!("expected two messages for node 1, got {}", to1.len()));
    }
    let second = to1.split_off(1);
    for m in to1 {
        s.call(0, Call::Step(m));
    }
    s.ready_round_with(0, Some(0));
    let v1: Vec<u64> = s.nodes[0].driver.as_ref().map_or(vec![], |d| d.node.raft.prs().conf().voters().ids().iter().collect());
    if v1 != vec![1] {
        return Err(format!("node 1's voters are {:?}, expected [1]", v1));
    }
    // ... then receives the new entry, which goes into an asynchronous write that has not finished
    for m in second {
        s.call(0, Call::Step(m));
    }
    s.ready_round_with(0, Some(8));
    s.call(0, Call::Campaign);
    match &s.last_panic {
        Some(p) if p.contains("left == right") && p.contains("raft.rs") => Ok(p.replace('\n', " ")),
        other => Err(format!("no such panic (last panic: {:?})", other)),
    }
}

/// C10 finding: a follower that requested a snapshot above the leader's commit index refuses
/// appends; being needed for the quorum, the group never commits again.
fn stuck_request_snapshot() -> Result<String, String> {
    let mut s = sim(&[1, 2], &[], base_cfg);
    s.call(0, Call::Campaign);
    settle(&mut s, 6);
    if role(&s, 0) != Some(StateRole::Leader) {
        return Err("node 1 did not become leader".into());
    }
    s.call(0, Call::Propose(vec![], vec![1]));
    settle(&mut s, 6);
    let c0 = s.nodes[0].driver.as_ref().unwrap().node.raft.raft_log.committed;
    // a new entry reaches the follower, whose acknowledgement is lost
    s.call(0, Call::Propose(vec![], vec![2]));
    s.ready_round_with(0, Some(0));
    let msgs = std::mem::take(&mut s.net);
    for m in msgs {
        if m.to == 2 {
            s.call(1, Call::Step(m));
        }
    }
    s.ready_round_with(1, Some(0));
    s.net.clear();
    // the follower asks for a snapshot (at its last index, above the leader's commit index)
    let r = s.call(1, Call::RequestSnapshot).map(|o| o.ret_code);
    if r != Some(0) {
        return Err(format!("request_snapshot was not accepted ({:?})", r));
    }
    // from here on: no faults; both nodes tick, everything is delivered
    for _ in 0..400 {
        s.call(0, Call::Tick);
        s.call(1, Call::Tick);
        settle(&mut s, 3);
        // the application answers every snapshot it was asked to send
        let lead = s.leader();
        if let Some(l) = lead {
            let other = if s.nodes[l].id == 1 { 2 } else { 1 };
            s.call(l, Call::ReportSnapshot(other, true));
        }
    }
    if let Some(p) = &s.last_panic {
        return Err(format!("a node panicked: {}", p));
    }
    let c1 = s.nodes.iter().filter_map(|n| n.driver.as_ref()).map(|d| d.node.raft.raft_log.committed).max().unwrap_or(0);
    let pend = s.nodes[1].driver.as_ref().map_or(0, |d| d.node.raft.pending_request_snapshot);
    if c1 <= c0 && pend != 0 {
        Ok(format!("after 400 fault-free rounds the commit index is still {} (was {}), follower 2 still waits for a snapshot at index {}", c1, c0, pend))
    } else {
        Err(format!("the group made progress: commit {} -> {}, pending request {}", c0, c1, pend))
    }
}


/// C08 candidate: a duplicated forwarded MsgReadIndex is recorded again after its first copy was
/// answered; a duplicated OLD heartbeat response (same context) then releases it - and with it
/// every read queued before it, including a fresh local read that no heartbeat round confirmed.
fn stale_read_by_duplicates() -> Result<String, String> {
    let mut s = sim(&[1, 2, 3], &[], base_cfg);
    s.call(0, Call::Campaign);
    settle(&mut s, 6);
    if role(&s, 0) != Some(StateRole::Leader) {
        return Err("node 1 did not become leader".into());
    }
    s.call(0, Call::Propose(vec![], vec![1]));
    settle(&mut s, 6);
    // follower 2 issues read A; the leader records it, a quorum acknowledges, A is answered
    let ctx_a = vec![7u8, 7, 7];
    s.call(1, Call::ReadIndex(ctx_a.clone()));
    s.ready_round_with(1, Some(0));
    let fwd: Vec<Message> = s.net.iter().filter(|m| m.get_msg_type() == MessageType::MsgReadIndex).cloned().collect();
    if fwd.len() != 1 {
        return Err(format!("expected one forwarded MsgReadIndex, got {}", fwd.len()));
    }
    deliver_to(&mut s, 1);
    s.ready_round_with(0, Some(0));
    deliver_to(&mut s, 2);
    s.ready_round_with(1, Some(0));
    let ack: Vec<Message> = s.net.iter().filter(|m| m.get_msg_type() == MessageType::MsgHeartbeatResponse && m.from == 2 && !m.context.is_empty()).cloned().collect();
    if ack.is_empty() {
        return Err("follower 2 produced no heartbeat response with the context".into());
    }
    settle(&mut s, 6);
    let c0 = s.nodes[0].driver.as_ref().unwrap().node.raft.raft_log.committed;
    // node 1 is cut off; 2 and 3 elect 2 in a newer term and commit more
    s.net.clear();
    s.call(1, Call::Campaign);
    for _ in 0..8 {
        for i in 1..3 {
            s.ready_round_with(i, Some(0));
        }
        let msgs = std::mem::take(&mut s.net);
        for m in msgs {
            if m.to != 1 && m.from != 1 {
                if let Some(i) = s.idx_of(m.to) {
                    s.call(i, Call::Step(m));
                }
            }
        }
    }
    if role(&s, 1) != Some(StateRole::Leader) {
        return Err("node 2 did not become leader of the newer term".into());
    }
    s.call(1, Call::Propose(vec![], vec![2]));
    for _ in 0..8 {
        for i in 1..3 {
            s.ready_round_with(i, Some(0));
        }
        let msgs = std::mem::take(&mut s.net);
        for m in msgs {
            if m.to != 1 && m.from != 1 {
                if let Some(i) = s.idx_of(m.to) {
                    s.call(i, Call::Step(m));
                }
            }
        }
    }
    let c2 = s.nodes[1].driver.as_ref().unwrap().node.raft.raft_log.committed;
    if c2 <= c0 {
        return Err(format!("the new leader did not commit beyond {} ({})", c0, c2));
    }
    if role(&s, 0) != Some(StateRole::Leader) {
        return Err("node 1 no longer believes it leads".into());
    }
    // a fresh read G on the superseded leader 1, issued after the newer commit; its heartbeats are lost
    let ctx_g = vec![9u8, 9, 9];
    s.call(0, Call::ReadIndex(ctx_g.clone()));
    s.ready_round_with(0, Some(0));
    s.net.clear();
    // the network delivers duplicates of the old forwarded request and of the old acknowledgement
    s.call(0, Call::Step(fwd[0].clone()));
    s.call(0, Call::Step(ack[0].clone()));
    let o = s.call(0, Call::HasReady);
    let _ = o;
    let rs: Vec<(Vec<u8>, u64)> = s.nodes[0].driver.as_ref().map_or(vec![], |d| d.node.raft.read_states.iter().map(|r| (r.request_ctx.clone(), r.index)).collect());
    match rs.iter().find(|(c, _)| *c == ctx_g) {
        Some((_, idx)) if *idx < c2 => Ok(format!("superseded leader 1 answered the fresh read {:?} with index {} although index {} was committed by leader 2 before the read was issued (released by duplicates of an old MsgReadIndex and an old heartbeat response)", ctx_g, idx, c2)),
        Some((_, idx)) => Err(format!("read answered with index {} >= {}", idx, c2)),
        None => Err("the fresh read was not answered".into()),
    }
}

pub fn main(args: &[String]) {
    let name = args.first().map(|s| s.as_str()).unwrap_or("");
    let r = match name {
        "F9" | "panic:term_should_be_set" => f9(),
        "F7" | "assert_eq_last_index_self_raft_log_persisted" => f7(),
        "stuck-request-snapshot" => stuck_request_snapshot(),
        "stale-read-by-duplicates" => stale_read_by_duplicates(),
        _ => Err("unknown finding".to_string()),
    };
    match r {
        Ok(what) => println!("REPRODUCED {} {}", name, what),
        Err(why) => println!("NOT-REPRODUCED {} {}", name, why),
    }
}
