//! C18: drives raft::Inflights through its public API.  Private fields are read
//! from the derived Debug output (no hook needed).
use crate::util::*;
use raft::Inflights;

pub const PANIC: u64 = 999999;

fn site_of(msg: &str) -> u64 {
    if msg.contains("cannot add into a full inflights") { 1801 }
    else if msg.contains("next <= self.buffer.len()") { 1805 }
    else if msg.contains("index out of bounds") || msg.contains("out of range") { 1808 }
    else { 9999 }
}

fn field<'a>(dbg: &'a str, name: &str) -> &'a str {
    let key = format!("{}: ", name);
    let i = dbg.find(&key).unwrap_or_else(|| panic!("Debug output lacks field {}: {}", name, dbg)) + key.len();
    let rest = &dbg[i..];
    // value ends at ", <ident>: " at depth 0 or at " }"
    let mut depth = 0i32;
    for (j, ch) in rest.char_indices() {
        match ch {
            '[' | '(' => depth += 1,
            ']' | ')' => depth -= 1,
            ',' if depth == 0 => return &rest[..j],
            '}' if depth == 0 => return rest[..j].trim_end(),
            _ => {}
        }
    }
    rest
}

pub fn dump(s: &Inflights, out: &mut Vec<u64>) {
    let d = format!("{:?}", s);
    let num = |n: &str| -> u64 { field(&d, n).trim().parse().unwrap() };
    out.push(num("start"));
    out.push(num("count"));
    out.push(num("cap"));
    let inc = field(&d, "incoming_cap").trim();
    if inc == "None" {
        out.push(0);
    } else {
        let v: u64 = inc.trim_start_matches("Some(").trim_end_matches(')').parse().unwrap();
        out.push(1);
        out.push(v);
    }
    assert_eq!(num("count"), s.count() as u64);
    out.push(s.buffer_is_allocated() as u64);
    out.push(s.full() as u64);
    let b = field(&d, "buffer").trim();
    let inner = &b[1..b.len() - 1];
    let v: Vec<u64> = if inner.trim().is_empty() { vec![] } else { inner.split(',').map(|x| x.trim().parse().unwrap()).collect() };
    enc_list(&v, out);
}

#[derive(Clone, Copy, Debug)]
pub enum Op { Add(u64), FreeTo(u64), FreeFirst, Reset, SetCap(u64), MaybeFree }

impl Op {
    fn enc(&self, out: &mut Vec<u64>) {
        match *self {
            Op::Add(x) => { out.push(0); out.push(x) }
            Op::FreeTo(x) => { out.push(1); out.push(x) }
            Op::FreeFirst => { out.push(2); out.push(0) }
            Op::Reset => { out.push(3); out.push(0) }
            Op::SetCap(c) => { out.push(4); out.push(c) }
            Op::MaybeFree => { out.push(5); out.push(0) }
        }
    }
}

/// Applies one op to the real type; Err(site) on panic.
pub fn apply(s: &mut Inflights, op: Op) -> Result<(), u64> {
    let r = catch(|| match op {
        Op::Add(x) => s.add(x),
        Op::FreeTo(x) => s.free_to(x),
        Op::FreeFirst => s.free_first_one(),
        Op::Reset => s.reset(),
        Op::SetCap(c) => s.set_cap(c as usize),
        Op::MaybeFree => s.maybe_free_buffer(),
    });
    r.map_err(|m| site_of(&m))
}

struct Exh { shards: Vec<Shard>, rr: usize, depth: usize }

impl Exh {
    fn emit(&mut self, cap0: u64, ops: &[Op], s: &Inflights, panic: Option<u64>) {
        let mut input = vec![0, cap0];
        for o in ops { o.enc(&mut input); }
        let mut out = vec![];
        match panic { Some(site) => { out.push(PANIC); out.push(site) } None => dump(s, &mut out) }
        let k = self.rr % self.shards.len();
        self.rr += 1;
        self.shards[k].put("inflights", &input, &out);
    }
    fn dfs(&mut self, cap0: u64, s: &Inflights, ops: &mut Vec<Op>, next: u64) {
        self.emit(cap0, ops, s, None);
        if ops.len() == self.depth { return; }
        let mut cands = vec![Op::Add(next), Op::FreeFirst, Op::Reset, Op::MaybeFree];
        for k in 0..=next { cands.push(Op::FreeTo(k)); }
        for c in 0..=4 { cands.push(Op::SetCap(c)); }
        for op in cands {
            // replay from scratch: Clone does not preserve Vec capacity (allocation flag)
            let mut t = Inflights::new(cap0 as usize);
            for o in ops.iter() { apply(&mut t, *o).unwrap(); }
            ops.push(op);
            match apply(&mut t, op) {
                Ok(()) => { let n2 = if let Op::Add(_) = op { next + 1 } else { next }; self.dfs(cap0, &t, ops, n2) }
                Err(site) => self.emit(cap0, ops, &t, Some(site)),
            }
            ops.pop();
        }
    }
}

fn random_case(rng: &mut Rng, len: usize, sh: &mut Shard) {
    let cap0 = if rng.chance(1, 10) { 0 } else { rng.below(13) };
    let mut s = Inflights::new(cap0 as usize);
    let mut input = vec![1, cap0];
    let mut out = vec![];
    let mut next = 1 + rng.below(5);
    let mut live: Vec<u64> = vec![];
    for _ in 0..len {
        // mostly-valid stream biased to fill the ring and wrap around
        let r = rng.below(100);
        let op = if r < 45 {
            if s.full() && !rng.chance(1, 40) {
                if rng.chance(1, 2) { Op::FreeFirst } else { Op::FreeTo(*live.get(rng.below(live.len().max(1) as u64) as usize).unwrap_or(&0)) }
            } else {
                let v = next; if !rng.chance(1, 12) { next += 1 + rng.below(3); } Op::Add(v)
            }
        } else if r < 65 { Op::FreeFirst }
        else if r < 82 {
            let to = if live.is_empty() || rng.chance(1, 5) { rng.below(next + 2) } else { *rng.pick(&live) };
            Op::FreeTo(to)
        } else if r < 92 { Op::SetCap(if rng.chance(1, 8) { 0 } else { rng.below(14) }) }
        else if r < 96 { Op::MaybeFree }
        else { Op::Reset };
        op.enc(&mut input);
        match apply(&mut s, op) {
            Ok(()) => {
                match op {
                    Op::Add(v) => live.push(v),
                    Op::FreeTo(t) => { while !live.is_empty() && live[0] <= t { live.remove(0); } }
                    Op::FreeFirst => { if !live.is_empty() { let t = live[0]; while !live.is_empty() && live[0] <= t { live.remove(0); } } }
                    Op::Reset => live.clear(),
                    _ => {}
                }
                dump(&s, &mut out)
            }
            Err(site) => { out.push(PANIC); out.push(site); break }
        }
    }
    sh.put("inflights", &input, &out);
}

/// Independent oracle for C18 (search / adjudication only): a VecDeque-based bounded FIFO.
struct Oracle { q: std::collections::VecDeque<u64>, cap: u64, pending: Option<u64> }

impl Oracle {
    fn full(&self) -> bool {
        self.q.len() as u64 == self.cap || self.pending.map_or(false, |c| self.q.len() as u64 >= c)
    }
    fn settle(&mut self) {
        if self.q.is_empty() { if let Some(c) = self.pending.take() { self.cap = c; } }
    }
    fn step(&mut self, op: Op) {
        match op {
            Op::Add(x) => self.q.push_back(x),
            Op::FreeTo(t) => { while self.q.front().map_or(false, |b| *b <= t) { self.q.pop_front(); } self.settle() }
            Op::FreeFirst => { if let Some(b) = self.q.front().cloned() { while self.q.front().map_or(false, |x| *x <= b) { self.q.pop_front(); } } self.settle() }
            Op::Reset => { self.q.clear(); if let Some(c) = self.pending.take() { self.cap = c; } }
            Op::SetCap(c) => {
                if c == self.cap { self.pending = None }
                else if c > self.cap { self.cap = c; self.pending = None }
                else if self.q.is_empty() { self.cap = c; self.pending = None }
                else { self.pending = Some(c) }
            }
            Op::MaybeFree => {}
        }
    }
}

/// The window's logical content, read off the Debug dump by walking the ring.
fn logical(s: &Inflights) -> Vec<u64> {
    let mut d = vec![];
    dump(s, &mut d);
    let (start, count, cap) = (d[0] as usize, d[1] as usize, d[2] as usize);
    let off = if d[3] == 0 { 4 } else { 5 };
    let buf = &d[off + 3..];
    (0..count).map(|k| { let mut i = start + k; if cap > 0 && i >= cap { i -= cap; } buf.get(i).cloned().unwrap_or(u64::MAX) }).collect()
}

fn decode_case(line: &str) -> Option<(u64, Vec<Op>)> {
    let t: Vec<&str> = line.split_whitespace().collect();
    if t.len() < 3 || t[0] != "inflights" { return None; }
    let nums: Vec<u64> = t[1..].iter().map(|x| x.parse().unwrap()).collect();
    let cap0 = nums[1];
    let mut ops = vec![];
    let mut i = 2;
    while i + 1 < nums.len() {
        let a = nums[i + 1];
        ops.push(match nums[i] { 0 => Op::Add(a), 1 => Op::FreeTo(a), 2 => Op::FreeFirst, 3 => Op::Reset, 4 => Op::SetCap(a), _ => Op::MaybeFree });
        i += 2;
    }
    Some((cap0, ops))
}

/// Runs one case against the oracle; Some(reason) when the property fails on the implementation.
fn monitor_case(cap0: u64, ops: &[Op]) -> Option<String> {
    let mut s = Inflights::new(cap0 as usize);
    let mut o = Oracle { q: Default::default(), cap: cap0, pending: None };
    for (k, op) in ops.iter().enumerate() {
        let was_full = o.full();
        let r = apply(&mut s, *op);
        match (*op, r) {
            (Op::Add(_), Err(_)) if was_full => return None, // documented panic; history ends
            (Op::Add(_), Ok(())) if was_full => return Some(format!("op {}: add succeeded on a full window", k)),
            (_, Err(site)) => return Some(format!("op {} {:?}: unexpected panic (site {})", k, op, site)),
            _ => {}
        }
        o.step(*op);
        if s.count() as u64 != o.q.len() as u64 { return Some(format!("op {} {:?}: count {} but FIFO model has {}", k, op, s.count(), o.q.len())); }
        if s.full() != o.full() { return Some(format!("op {} {:?}: full()={} but FIFO model says {}", k, op, s.full(), o.full())); }
        let l = logical(&s);
        if l != o.q.iter().cloned().collect::<Vec<_>>() { return Some(format!("op {} {:?}: window holds {:?} but FIFO model holds {:?}", k, op, l, o.q)); }
    }
    None
}

fn monitor(args: &[String]) {
    let files = arg(args, "--cases", "");
    let mut n = 0u64;
    for f in files.split(',').filter(|x| !x.is_empty()) {
        let text = std::fs::read_to_string(f).unwrap();
        for line in text.lines() {
            if let Some((cap0, ops)) = decode_case(line) {
                n += 1;
                if let Some(reason) = monitor_case(cap0, &ops) {
                    // shrink: shortest failing prefix
                    let mut best = ops.clone();
                    for k in 1..=ops.len() { if monitor_case(cap0, &ops[..k]).is_some() { best = ops[..k].to_vec(); break; } }
                    let mut input = vec![1, cap0];
                    for o in &best { o.enc(&mut input); }
                    println!("FAIL inflights {}", input.iter().map(|x| x.to_string()).collect::<Vec<_>>().join(" "));
                    println!("REASON {}", monitor_case(cap0, &best).unwrap_or(reason));
                    return;
                }
            }
        }
    }
    println!("MONITOR-OK cases={}", n);
}

pub fn main(args: &[String]) {
    let mode = arg(args, "--mode", "exhaustive");
    if mode == "monitor" { return monitor(args); }
    let dir = arg(args, "--out", "/verif/build/run");
    let nsh: usize = arg(args, "--shards", "16").parse().unwrap();
    let seed: u64 = arg(args, "--seed", "1").parse().unwrap();
    std::fs::create_dir_all(&dir).unwrap();
    let mut total = 0;
    if mode == "exhaustive" {
        let depth: usize = arg(args, "--depth", "4").parse().unwrap();
        let shards = (0..nsh).map(|k| Shard::create(&dir, "inflights-exh", k)).collect();
        let mut e = Exh { shards, rr: 0, depth };
        for cap0 in 0..=3u64 {
            let s = Inflights::new(cap0 as usize);
            e.dfs(cap0, &s, &mut vec![], 1);
        }
        for s in e.shards { total += s.finish(); }
    } else {
        let count: usize = arg(args, "--count", "400").parse().unwrap();
        let len: usize = arg(args, "--len", "300").parse().unwrap();
        let mut rng = Rng::new(seed);
        let mut shards: Vec<Shard> = (0..nsh).map(|k| Shard::create(&dir, "inflights-rnd", k)).collect();
        for i in 0..count { random_case(&mut rng, len, &mut shards[i % nsh]); }
        for s in shards { total += s.finish(); }
    }
    println!("cases={}", total);
}
