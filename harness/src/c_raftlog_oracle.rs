// Independent plain-sequence oracle for property C14 (included into c_raftlog.rs).
//
// The oracle is plain data (indexes, terms, lengths); it encodes the property, not the Coq
// model and not the implementation's algorithms.  Every operation is classified BEFORE it is
// run on the real `RaftLog<MemStorage>`:
//   Exact / Prefix : in contract, the answer (or the size-limited-read property) is checked,
//   Panic          : a documented fatal, the real call must panic (history ends, OK),
//   Out            : outside the caller contract, monitoring of the case stops (no verdict),
//   Unchecked      : run, answer ignored.
// After every in-contract operation the real state is compared with the oracle (I0) and the
// invariants I1..I3 of the property are checked on the real log.
//
// `--mode monitor --cases f1,f2,..` [--threads n]   MONITOR-OK cases=N | FAIL raftlog <shrunk case> + REASON
// `--mode monitor --selftest 1`                     seeded faults must be caught: SELFTEST-OK
// `--mode monitor --fault 1|2|3 --cases ..`         diagnostic: whole run with a seeded fault (must FAIL)
//
// Contract notes (where the caller contract had to be made precise, see the Out(..) reasons):
//  * restore(i,t) with i == committed and a known, different term at i contradicts a committed
//    entry (raft safety) -> out of contract; restore below the compacted base (restart window) too.
//  * stable_snap is in contract only when storage holds exactly this snapshot (index AND term) and
//    the stable part of the log.
//  * a storage compaction at or below storage's first index is the documented no-op and always in
//    contract; with a pending snapshot a compaction only changes what is durable.
//  * storage answers the term of the last snapshot it was given even after compacting past it
//    (`d_snap`), which maybe_persist can observe.
//  * I3 is not checked across Restart (unstable entries are lost and the commit index restarts).

#[derive(Clone, Copy, PartialEq, Debug)]
enum Fault {
    None,
    /// the real maybe_append answer is perturbed (last_new + 1)
    PerturbMaybeAppend,
    /// seeded oracle bug: a truncating append keeps the old suffix
    OracleKeepsSuffix,
    /// oracle and (wrapped) real code both skip the "not below committed" check of append:
    /// I0 agrees, only the committed-immutability invariant I3 can notice
    UncheckedTruncate,
}

fn varint_len(mut v: u64) -> u64 { let mut n = 1; while v >= 0x80 { v >>= 7; n += 1; } n }
/// protobuf wire size of an entry (index, term, data length), computed without the real code
fn osize(e: E3) -> u64 {
    (if e.1 > 0 { 1 + varint_len(e.1) } else { 0 })
        + (if e.0 > 0 { 1 + varint_len(e.0) } else { 0 })
        + (if e.2 > 0 { 1 + varint_len(e.2) + e.2 } else { 0 })
}

fn contig(e: &[E3], from: u64) -> bool {
    e.iter().enumerate().all(|(k, x)| from.checked_add(k as u64) == Some(x.0))
}

enum Verdict {
    Exact(Vec<u64>),
    /// answer = `head` then an entry list that must be a non-empty maximal prefix of `full` within `max`
    Prefix { head: u64, full: Vec<E3>, max: u64 },
    Panic(&'static str, u64),
    Out(&'static str),
    Unchecked,
}

#[derive(Clone, Debug)]
struct Orc {
    // the logical log
    base_i: u64, base_t: Option<u64>, ents: Vec<E3>,
    committed: u64, applied: u64, persisted: u64, limit: u64,
    // what the application has made durable
    d_base_i: u64, d_base_t: Option<u64>, d_ents: Vec<E3>,
    // (index, term) of the last snapshot given to storage: storage keeps answering its term after compactions
    d_snap: (u64, u64),
    // first index that is not stable yet; pending snapshot; restart window
    offset: u64, pending: Option<(u64, u64)>, restart_window: bool,
}

impl Orc {
    fn new(h: &Hdr) -> Orc {
        let (bi, bt) = if h.si == 0 { (0, Some(0)) } else { (h.si, Some(h.st)) };
        let d_ents: Vec<E3> = h.tds.iter().enumerate().map(|(k, (t, d))| (h.si + 1 + k as u64, *t, *d)).collect();
        let mut o = Orc { base_i: 0, base_t: None, ents: vec![], committed: 0, applied: 0, persisted: 0, limit: h.limit,
            d_base_i: bi, d_base_t: bt, d_ents, d_snap: (bi, bt.unwrap_or(0)), offset: 0, pending: None, restart_window: false };
        o.fresh();
        o
    }
    /// a freshly created log over the durable state (unstable content and pending snapshot are lost)
    fn fresh(&mut self) {
        self.base_i = self.d_base_i; self.base_t = self.d_base_t; self.ents = self.d_ents.clone();
        self.committed = self.d_base_i; self.applied = self.d_base_i;
        self.persisted = self.d_last(); self.offset = self.d_last() + 1;
        self.pending = None; self.restart_window = false;
    }
    fn summary(&self) -> String {
        format!("log base=({},{:?}) last={} committed={} applied={} persisted={} limit={} offset={} pending={:?} window={}; storage base=({},{:?}) last={}",
            self.base_i, self.base_t, self.last(), self.committed, self.applied, self.persisted, self.limit, self.offset, self.pending, self.restart_window,
            self.d_base_i, self.d_base_t, self.d_last())
    }
    fn last(&self) -> u64 { self.base_i + self.ents.len() as u64 }
    fn first(&self) -> u64 { self.base_i + 1 }
    fn ent(&self, i: u64) -> Option<E3> {
        if i > self.base_i && i <= self.last() { Some(self.ents[(i - self.base_i - 1) as usize]) } else { None }
    }
    /// Err(()) = the term of the base index is unknown (compacted)
    fn term(&self, i: u64) -> Result<u64, ()> {
        if i < self.base_i || i > self.last() { Ok(0) }
        else if i == self.base_i { self.base_t.ok_or(()) }
        else { Ok(self.ents[(i - self.base_i - 1) as usize].1) }
    }
    fn match_term(&self, i: u64, t: u64) -> bool { self.term(i) == Ok(t) }
    fn d_last(&self) -> u64 { self.d_base_i + self.d_ents.len() as u64 }
    fn d_ent(&self, i: u64) -> Option<E3> {
        if i > self.d_base_i && i <= self.d_last() { Some(self.d_ents[(i - self.d_base_i - 1) as usize]) } else { None }
    }
    fn d_term(&self, i: u64) -> Option<u64> {
        if i == self.d_snap.0 { Some(self.d_snap.1) } else if i == self.d_base_i { self.d_base_t } else { self.d_ent(i).map(|e| e.1) }
    }
    fn has_unstable(&self) -> bool { self.offset <= self.last() }
    fn range(&self, lo: u64, hi: u64) -> Vec<E3> {
        self.ents[(lo - self.base_i - 1) as usize..(hi - self.base_i - 1) as usize].to_vec()
    }

    /// s in (base_i, last+1]
    fn trunc_append(&mut self, s: u64, e: &[E3], fault: Fault) {
        let keep = (s - self.base_i - 1) as usize;
        let tail: Vec<E3> = if fault == Fault::OracleKeepsSuffix && keep + e.len() < self.ents.len() { self.ents[keep + e.len()..].to_vec() } else { vec![] };
        self.ents.truncate(keep);
        self.ents.extend_from_slice(e);
        self.ents.extend(tail);
        self.offset = self.offset.min(s);
    }

    /// bounded read of [lo,hi): the classification shared by slice / entries / next_entries
    fn read(&self, head: u64, lo: u64, hi: u64, max: Option<u64>) -> Verdict {
        use Verdict::*;
        if lo > hi { return Panic("slice with lo > hi", 1415); }
        if lo < self.first() { return Exact(vec![1, 1]); }
        if hi > self.last() + 1 { return Panic("slice beyond last+1", 1416); }
        if lo == hi { return Exact(vec![head, 0]); }
        let full = self.range(lo, hi);
        match max {
            None | Some(NO_LIMIT) => { let mut r = vec![head]; put_e3(&full, &mut r); Exact(r) }
            Some(m) => Prefix { head, full, max: m },
        }
    }

    /// window of next_entries_since: Err = outside the contract, Ok(None) = nothing to apply
    fn next_window(&self, s: u64) -> Result<Option<(u64, u64)>, &'static str> {
        if s == u64::MAX { return Err("next_entries: since = u64::MAX (overflow, F8)"); }
        let ub = match self.persisted.checked_add(self.limit) { Some(x) => x, None => return Err("next_entries: persisted+limit overflows (F8)") };
        let ub = ub.min(self.committed);
        if ub == u64::MAX { return Err("next_entries: upper bound u64::MAX (overflow, F8)"); }
        let off = (s + 1).max(self.first());
        let high = ub + 1;
        if high > off {
            if high > self.last() + 1 { return Err("next_entries: window beyond last"); }
            Ok(Some((off, high)))
        } else { Ok(None) }
    }

    /// classifies `op` and, when it is in contract, performs its effect on the oracle
    fn step(&mut self, op: &Op, fault: Fault) -> Verdict {
        use Verdict::*;
        let last = self.last();
        match op {
            Append(e) => {
                if e.is_empty() { return Exact(vec![last]); }
                let s = e[0].0;
                if !contig(e, s) { return Out("append: entries not index-contiguous"); }
                if s == 0 { return Panic("append at index 0", 1424); }
                if s - 1 < self.committed && fault != Fault::UncheckedTruncate { return Panic("append: after < committed", 1414); }
                if s <= self.base_i { return Out("append at or below the log base"); }
                if s > last + 1 { return Out("append leaves a gap"); }
                if s <= self.persisted { return Out("raw truncating append at or below persisted"); }
                self.trunc_append(s, e, fault);
                Exact(vec![self.last()])
            }
            MaybeAppend(idx, t, cmt, e) => {
                let from = match idx.checked_add(1) { Some(x) => x, None => return Out("maybe_append: idx = u64::MAX") };
                if !contig(e, from) { return Out("maybe_append: entries not contiguous from idx+1"); }
                if e.iter().any(|x| x.1 == 0) { return Out("maybe_append: entry with term 0"); }
                if *t == 0 && (*idx < self.base_i || *idx > last) { return Out("maybe_append: term-0 wildcard outside the log"); }
                if !self.match_term(*idx, *t) { return Exact(vec![0]); }
                let conflict = e.iter().find(|x| !self.match_term(x.0, x.1)).map(|x| x.0).unwrap_or(0);
                if conflict != 0 && conflict <= self.committed { return Panic("maybe_append: conflict with committed entry", 1411); }
                if conflict != 0 {
                    let suffix = &e[(conflict - from) as usize..];
                    self.trunc_append(conflict, suffix, fault);
                    self.persisted = self.persisted.min(conflict - 1);
                }
                let last_new = idx + e.len() as u64;
                let tc = (*cmt).min(last_new);
                if tc > self.committed { self.committed = tc; }
                Exact(vec![1, conflict, last_new])
            }
            CommitTo(i) => {
                if *i <= self.committed { return Exact(vec![]); }
                if *i > last { return Panic("commit_to beyond last index", 1412); }
                self.committed = *i;
                Exact(vec![])
            }
            AppliedTo(i) => {
                if *i == 0 { return Exact(vec![]); }
                if *i > self.committed || *i < self.applied { return Panic("applied_to outside [applied, committed]", 1413); }
                self.applied = *i;
                Exact(vec![])
            }
            StableEntries(i, t) => {
                if self.pending.is_some() { return Panic("stable_entries with a pending snapshot", 1401); }
                if !self.has_unstable() { return Panic("stable_entries without unstable entries", 1403); }
                if (*i, *t) != (last, self.ents[self.ents.len() - 1].1) { return Panic("stable_entries with a different last (index, term)", 1402); }
                if self.d_last() != last || (self.offset..=last).any(|k| self.d_ent(k) != self.ent(k)) {
                    return Out("stable_entries before the entries are durable (async order)");
                }
                self.offset = last + 1;
                Exact(vec![])
            }
            StableSnap(i) => {
                let (pi, pt) = match self.pending { None => return Panic("stable_snap without a pending snapshot", 1405), Some(p) => p };
                if pi != *i { return Panic("stable_snap with a different index", 1404); }
                if self.d_base_i != pi || self.d_base_t != Some(pt) { return Out("stable_snap before the snapshot is applied to storage"); }
                if (self.first()..self.offset).any(|k| self.d_ent(k) != self.ent(k)) || (!self.has_unstable() && self.d_last() != last) {
                    return Out("stable_snap while storage does not hold this snapshot's log");
                }
                self.pending = None;
                Exact(vec![])
            }
            Restore(i, t) => {
                if *i < self.committed { return Panic("restore below committed", 1421); }
                if *i == u64::MAX { return Out("restore at u64::MAX"); }
                // only reachable in the restart window after a compaction above the commit index
                if *i < self.base_i { return Out("restore of a snapshot older than the compacted log base"); }
                // a snapshot at the commit index must agree with the committed entry (raft safety);
                // restoring a contradicting one is a protocol violation of the caller
                if *i == self.committed { if let Ok(x) = self.term(*i) { if *i >= self.base_i && *i <= last && x != *t { return Out("restore of a snapshot contradicting the committed entry"); } } }
                self.persisted = self.persisted.min(self.committed);
                self.committed = *i;
                self.base_i = *i; self.base_t = Some(*t); self.ents.clear();
                self.offset = *i + 1;
                self.pending = Some((*i, *t));
                Exact(vec![])
            }
            MaybeCommit(i, t) => {
                if *t == 0 && *i > last { return Out("maybe_commit: term-0 wildcard beyond last"); }
                if *i > self.committed && self.term(*i) == Ok(*t) { self.committed = *i; Exact(vec![1]) } else { Exact(vec![0]) }
            }
            MaybePersist(i, t) => {
                let first_update = match self.pending { Some((pi, _)) => pi, None => self.offset };
                if *i > self.persisted && *i < first_update && self.d_term(*i) == Some(*t) { self.persisted = *i; Exact(vec![1]) } else { Exact(vec![0]) }
            }
            MaybePersistSnap(i) => {
                if *i <= self.persisted { return Exact(vec![0]); }
                if *i > self.committed { return Panic("maybe_persist_snap above committed", 1419); }
                if *i >= self.offset { return Panic("maybe_persist_snap at or above the unstable offset", 1420); }
                if self.pending.is_some() || *i > self.d_last() || *i < self.d_base_i { return Out("maybe_persist_snap for a snapshot storage does not hold"); }
                self.persisted = *i;
                Exact(vec![1])
            }
            SAppendUnstable => {
                if !self.has_unstable() { return Exact(vec![]); }
                if let Some((pi, _)) = self.pending { if self.d_base_i != pi { return Out("writing entries before the pending snapshot is applied"); } }
                if self.offset < self.d_base_i + 1 || self.offset > self.d_last() + 1 { return Out("writing entries storage cannot take (compacted / gap)"); }
                self.d_ents.truncate((self.offset - self.d_base_i - 1) as usize);
                let u = self.range(self.offset, last + 1);
                self.d_ents.extend(u);
                Exact(vec![])
            }
            SApplyUnstableSnap => {
                let (pi, pt) = match self.pending { None => return Exact(vec![0]), Some(p) => p };
                if pi < self.d_base_i + 1 { return Exact(vec![1, 3]); } // storage refuses: SnapshotOutOfDate, nothing changes
                self.d_base_i = pi; self.d_base_t = Some(pt); self.d_ents.clear(); self.d_snap = (pi, pt);
                Exact(vec![0])
            }
            SCompact(i) => {
                // documented no-op of the storage ("don't need to treat this case as an error")
                if *i <= self.d_base_i + 1 { return Exact(vec![]); }
                if *i > self.applied { return Out("compaction above applied"); }
                if *i > self.d_last() { return Out("compaction of entries storage does not hold"); }
                if self.offset <= *i { return Out("compaction of an index that is not stable yet"); }
                if self.pending.is_none() && self.base_i != self.d_base_i { return Out("compaction while log and storage bases differ"); }
                let n = (*i - 1 - self.d_base_i) as usize;
                self.d_ents.drain(..n); self.d_base_i = *i - 1; self.d_base_t = None;
                // with a pending snapshot the log starts at the snapshot and does not look at storage
                if self.pending.is_none() { self.ents.drain(..n); self.base_i = *i - 1; self.base_t = None; }
                Exact(vec![])
            }
            SCommitTo(i) => if self.d_ent(*i).is_some() { Exact(vec![]) } else { Out("store.commit_to without the entry") },
            SSetCommit(_) => Exact(vec![]),
            SetLimit(m) => { self.limit = *m; Exact(vec![]) }
            Restart => { self.fresh(); Exact(vec![]) }
            SetApplied(i) => {
                if *i < self.applied || *i > last { return Out("applied set outside [applied, last]"); }
                self.applied = *i;
                if *i > self.committed { self.restart_window = true; }
                Exact(vec![])
            }
            UTruncAppend(_) | SAppend(_) | SApplySnap(..) => Out("raw unstable / storage write"),
            // ---------------- queries
            Term(i) => match self.term(*i) { Ok(t) => Exact(vec![0, t]), Err(()) => Exact(vec![1, 1]) },
            First => Exact(vec![self.first()]),
            Last => Exact(vec![last]),
            LastTerm => match self.term(last) { Ok(t) => Exact(vec![t]), Err(()) => Panic("last_term of a compacted base", 1410) },
            MatchTerm(i, t) => Exact(vec![self.match_term(*i, *t) as u64]),
            FindConflict(e) => Exact(vec![e.iter().find(|x| !self.match_term(x.0, x.1)).map(|x| x.0).unwrap_or(0)]),
            FindConflictByTerm(i, t) => {
                if *i > last { return Exact(vec![*i, 0]); }
                let mut j = *i;
                loop {
                    match self.term(j) {
                        Err(()) => return Exact(vec![j, 0]),
                        Ok(x) if x <= *t => return Exact(vec![j, 1, x]),
                        Ok(_) => { if j == 0 { return Out("find_conflict_by_term scanning below index 0"); } j -= 1; }
                    }
                }
            }
            UpToDate(i, t) => match self.term(last) {
                Err(()) => Panic("is_up_to_date on a compacted base", 1410),
                Ok(lt) => Exact(vec![(*t > lt || (*t == lt && *i >= last)) as u64]),
            },
            Slice(lo, hi, m) => self.read(0, *lo, *hi, *m),
            Entries(i, m) => if *i > last { Exact(vec![0, 0]) } else { self.read(0, *i, last + 1, *m) },
            NextSince(..) | Next(_) => {
                let (s, m) = match op { NextSince(s, m) => (*s, *m), Next(m) => (self.applied, *m), _ => unreachable!() };
                match self.next_window(s) {
                    Err(why) => Out(why),
                    Ok(None) => Exact(vec![0]),
                    Ok(Some((lo, hi))) => self.read(1, lo, hi, m),
                }
            }
            HasNextSince(_) | HasNext => {
                let s = match op { HasNextSince(s) => *s, _ => self.applied };
                match self.next_window(s) { Err(why) => Out(why), Ok(w) => Exact(vec![w.is_some() as u64]) }
            }
            CommitInfo => match self.term(self.committed) {
                Ok(t) => Exact(vec![self.committed, t]),
                Err(()) => Panic("commit_info on a compacted base", 1422),
            },
            SnapshotAt(_) | UMaybeTerm(_) | USlice(..) | UCheck(..) => Unchecked,
        }
    }
}

fn dec_e3(v: &[u64]) -> Option<Vec<E3>> {
    let n = *v.first()? as usize;
    if v.len() != 1 + 3 * n { return None; }
    Some((0..n).map(|k| (v[1 + 3 * k], v[2 + 3 * k], v[3 + 3 * k])).collect())
}

/// the property of a size-limited read: non-empty maximal prefix within the limit
fn check_prefix(got: &[E3], full: &[E3], max: u64) -> Result<(), String> {
    if got.len() > full.len() || got[..] != full[..got.len()] { return Err(format!("answer {:?} is not a prefix of {:?}", got, full)); }
    if got.is_empty() && !full.is_empty() { return Err(format!("empty answer although {:?} is available", full)); }
    let size: u64 = got.iter().map(|e| osize(*e)).sum();
    if size > max && got.len() != 1 { return Err(format!("answer {:?} has size {} > limit {}", got, size, max)); }
    if got.len() < full.len() && size + osize(full[got.len()]) <= max {
        return Err(format!("answer {:?} (size {}) is not maximal: next entry {:?} fits in limit {}", got, size, full[got.len()], max));
    }
    Ok(())
}

struct Real {
    committed: u64, applied: u64, persisted: u64, limit: u64, first: u64, last: u64, ents: Vec<E3>,
    offset: u64, snap: Option<(u64, u64)>, uents: Vec<E3>,
    sf: u64, sl: u64, sents: Vec<E3>, sbase_t: Option<u64>, sterm_p: Option<u64>,
}

fn to_e3(v: &[Entry]) -> Vec<E3> { v.iter().map(|e| (e.index, e.term, e.data.len() as u64)).collect() }

fn read_real(l: &Log) -> Result<Real, String> {
    catch(|| {
        let (first, last) = (l.first_index(), l.last_index());
        let ents = match l.slice(first, last + 1, None, ctx()) { Ok(v) => to_e3(&v), Err(e) => panic!("slice(first,last+1) answers error {}", err_code(&e)) };
        let (sf, sl) = (l.store.first_index().unwrap(), l.store.last_index().unwrap());
        let sents = to_e3(&l.store.entries(sf, sl + 1, None, ctx()).unwrap()); // Ok([]) on an empty store since /repo 9c2e6d6
        Real { committed: l.committed, applied: l.applied, persisted: l.persisted, limit: l.max_apply_unpersisted_log_limit,
            first, last, ents, offset: l.unstable.offset,
            snap: l.unstable.snapshot.as_ref().map(|s| (s.get_metadata().index, s.get_metadata().term)),
            uents: to_e3(&l.unstable.entries), sf, sl, sents,
            sbase_t: l.store.term(sf - 1).ok(), sterm_p: l.store.term(l.persisted).ok() }
    })
}

/// I0 (real state == oracle), I1, I2
fn check_state(o: &Orc, l: &Log) -> Result<Real, String> {
    let r = read_real(l).map_err(|m| format!("state unreadable: {}", m))?;
    macro_rules! eq { ($a:expr, $b:expr, $n:expr) => { if $a != $b { return Err(format!("I0 {}: real {:?}, plain-sequence model {:?}", $n, $a, $b)); } } }
    eq!(r.committed, o.committed, "committed");
    eq!(r.applied, o.applied, "applied");
    eq!(r.persisted, o.persisted, "persisted");
    eq!(r.limit, o.limit, "max_apply_unpersisted_log_limit");
    eq!(r.first, o.first(), "first_index");
    eq!(r.last, o.last(), "last_index");
    eq!(r.ents, o.ents, "log entries");
    eq!(r.snap, o.pending, "pending snapshot");
    eq!(r.offset, o.offset, "unstable offset");
    eq!(&r.uents[..], &o.ents[(o.offset - o.base_i - 1) as usize..], "unstable entries");
    eq!(r.sf, o.d_base_i + 1, "store first_index");
    eq!(r.sl, o.d_last(), "store last_index");
    eq!(r.sents, o.d_ents, "store entries");
    eq!(r.sbase_t, o.d_base_t, "store term(first-1)");
    // I1
    if r.committed > r.last { return Err(format!("I1 committed {} > last index {}", r.committed, r.last)); }
    if r.applied > r.committed && !o.restart_window { return Err(format!("I1 applied {} > committed {} outside the restart window", r.applied, r.committed)); }
    // I2
    if r.persisted > r.sl { return Err(format!("I2 persisted {} > store last index {}", r.persisted, r.sl)); }
    if r.persisted >= r.offset { return Err(format!("I2 persisted {} >= unstable offset {}", r.persisted, r.offset)); }
    if let (Some(x), true, Ok(y)) = (r.sterm_p, o.base_i <= r.persisted && r.persisted <= o.last(), o.term(r.persisted)) {
        if x != y { return Err(format!("I2 persisted {}: store term {} but log term {}", r.persisted, x, y)); }
    }
    Ok(r)
}

fn apply_f(l: &mut Log, op: &Op, fault: Fault) -> Result<Vec<u64>, u64> {
    match (fault, op) {
        (Fault::PerturbMaybeAppend, MaybeAppend(..)) => apply(l, op).map(|mut r| { if r.len() == 3 { r[2] += 1; } r }),
        (Fault::UncheckedTruncate, Append(e)) if !e.is_empty() => { let c = l.committed; l.committed = 0; let r = apply(l, op); l.committed = c; r }
        _ => apply(l, op),
    }
}

#[derive(Default, Clone)]
struct Stats {
    cases: u64, full: u64, fatal: u64, cut: u64, cut_unchecked_panic: u64,
    ops: u64, checked: u64, unreached: u64,
    why: std::collections::BTreeMap<&'static str, u64>,
}
impl Stats {
    fn add(&mut self, s: &Stats) {
        self.cases += s.cases; self.full += s.full; self.fatal += s.fatal; self.cut += s.cut; self.cut_unchecked_panic += s.cut_unchecked_panic;
        self.ops += s.ops; self.checked += s.checked; self.unreached += s.unreached;
        for (k, v) in &s.why { *self.why.entry(k).or_insert(0) += v; }
    }
}

/// Runs one case; Some((op number, reason)) when the property fails on the implementation.
fn monitor_case(h: &Hdr, ops: &[Op], fault: Fault, st: &mut Stats) -> Option<(usize, String)> {
    st.cases += 1;
    st.ops += ops.len() as u64;
    let mut l = match build(h) { Ok(l) => l, Err(_) => { st.cut += 1; st.unreached += ops.len() as u64; *st.why.entry("initial store does not build").or_insert(0) += 1; return None } };
    let mut o = Orc::new(h);
    if let Err(m) = check_state(&o, &l) { return Some((0, format!("initial state: {}", m))); }
    for (k, op) in ops.iter().enumerate() {
        let pre = o.summary();
        let fail = |m: String| Some((k, format!("op {} {:?}: {} [model before the op: {}]", k, op, m, pre)));
        // I3: the entries at or below the commit index before the operation
        let before: Option<(u64, Vec<E3>)> = if op.is_query() || *op == Restart { None } else {
            let n = (o.committed.min(o.last()).saturating_sub(o.base_i)) as usize;
            Some((o.base_i, o.ents[..n].to_vec()))
        };
        let v = o.step(op, fault);
        if let Verdict::Out(why) = v {
            st.cut += 1; st.unreached += (ops.len() - k) as u64; *st.why.entry(why).or_insert(0) += 1;
            return None;
        }
        let r = apply_f(&mut l, op, fault);
        match (v, r) {
            (Verdict::Out(_), _) => unreachable!(),
            (Verdict::Unchecked, Err(_)) => { st.cut += 1; st.cut_unchecked_panic += 1; st.unreached += (ops.len() - k) as u64; return None; }
            (Verdict::Unchecked, Ok(_)) => {}
            (Verdict::Panic(_, site), Err(s)) => {
                if s != site { return fail(format!("documented fatal expected at site {} but the panic is at site {}", site, s)); }
                st.fatal += 1; st.checked += 1; st.unreached += (ops.len() - k - 1) as u64;
                return None;
            }
            (Verdict::Panic(why, _), Ok(r)) => return fail(format!("the contract says this is fatal ({}) but the call returned {:?}", why, r)),
            (Verdict::Exact(_), Err(s)) | (Verdict::Prefix { .. }, Err(s)) => return fail(format!("unexpected panic (site {}) on an in-contract operation", s)),
            (Verdict::Exact(x), Ok(r)) => if r != x { return fail(format!("answer {:?}, plain-sequence model expects {:?}", r, x)); },
            (Verdict::Prefix { head, full, max }, Ok(r)) => {
                if r.first() != Some(&head) { return fail(format!("answer {:?}, expected a list of entries (tag {})", r, head)); }
                match dec_e3(&r[1..]) {
                    None => return fail(format!("malformed answer {:?}", r)),
                    Some(got) => if let Err(m) = check_prefix(&got, &full, max) { return fail(format!("limit {}: {}", max, m)); },
                }
            }
        }
        if o.committed >= o.applied { o.restart_window = false; }
        let real = match check_state(&o, &l) { Ok(r) => r, Err(m) => return fail(m) };
        if let Some((b, olds)) = before {
            for (j, e) in olds.iter().enumerate() {
                let idx = b + 1 + j as u64;
                if idx <= o.base_i { continue; }
                let now = if idx >= real.first && idx <= real.last { Some(real.ents[(idx - real.first) as usize]) } else { None };
                if now != Some(*e) { return fail(format!("I3 entry {} was {:?} at or below the commit index, now {:?}", idx, e, now)); }
            }
        }
        st.checked += 1;
    }
    st.full += 1;
    None
}

fn case_numbers(h: &Hdr, ops: &[Op]) -> String {
    let mut input = vec![];
    h.enc(&mut input);
    for o in ops { o.enc(&mut input); }
    input.iter().map(|x| x.to_string()).collect::<Vec<_>>().join(" ")
}

/// first failing case of a file: (shrunk case numbers, reason)
fn monitor_file(path: &str, fault: Fault, st: &mut Stats) -> Option<(String, String)> {
    let text = std::fs::read_to_string(path).unwrap_or_else(|e| panic!("cannot read {}: {}", path, e));
    for line in text.lines() {
        if let Some((h, ops)) = decode_case(line) {
            if let Some((k, reason)) = monitor_case(&h, &ops, fault, st) {
                // shrink: shortest failing prefix (the run is deterministic: it ends with the failing op)
                let best = &ops[..(k + 1).min(ops.len())];
                let mut scratch = Stats::default();
                let reason = monitor_case(&h, best, fault, &mut scratch).map(|x| x.1).unwrap_or(reason);
                return Some((case_numbers(&h, best), reason));
            }
        }
    }
    None
}

fn selftest() {
    let h0 = Hdr { dumpq: 0, si: 0, st: 0, tds: vec![], commit: 0, limit: 0 };
    let a123 = Append(vec![(1, 1, 0), (2, 1, 3), (3, 1, 0)]);
    let cases: Vec<(&str, Fault, Vec<Op>, &str)> = vec![
        ("perturbed maybe_append answer", Fault::PerturbMaybeAppend, vec![MaybeAppend(0, 0, 1, vec![(1, 1, 0)]), Last], "answer"),
        ("oracle keeps the old suffix on a truncating append", Fault::OracleKeepsSuffix, vec![a123.clone(), Append(vec![(2, 2, 0)]), Last], "plain-sequence model"),
        ("truncating append below the commit index, unnoticed by I0", Fault::UncheckedTruncate, vec![a123.clone(), CommitTo(2), Append(vec![(2, 2, 0)])], "I3"),
    ];
    let mut ok = true;
    for (name, fault, ops, tag) in &cases {
        let mut st = Stats::default();
        let clean = monitor_case(&h0, ops, Fault::None, &mut st);
        let bad = monitor_case(&h0, ops, *fault, &mut st);
        match (&clean, &bad) {
            (None, Some((_, m))) if m.contains(tag) => eprintln!("selftest '{}': caught: {}", name, m),
            _ => { ok = false; println!("SELFTEST-FAIL '{}': clean run {:?}, faulty run {:?} (expected a {} failure)", name, clean, bad, tag); }
        }
    }
    // the size-limited-read property itself must reject a non-maximal / oversized / empty answer
    let full = vec![(1, 1, 0), (2, 1, 3), (3, 1, 0)];
    let s1 = osize(full[0]);
    let s2 = osize(full[1]);
    if check_prefix(&full[..1], &full, s1 + s2).is_ok() || check_prefix(&full[..2], &full, s1 + s2 - 1).is_ok()
        || check_prefix(&[], &full, 100).is_ok() || check_prefix(&full[..2], &full, s1 + s2).is_err() || check_prefix(&full[..1], &full, 0).is_err() {
        ok = false; println!("SELFTEST-FAIL prefix property");
    }
    // the independent size function agrees with the generated protobuf code
    for e in [(1, 1, 0), (0, 0, 0), (127, 128, 127), (128, 1 << 14, 128), (u64::MAX, u64::MAX, 1 << 14), (5, 0, 1), (1 << 21, 3, 200)] {
        if osize(e) != esize(e) { ok = false; println!("SELFTEST-FAIL size of {:?}: {} vs protobuf {}", e, osize(e), esize(e)); }
    }
    if ok { println!("SELFTEST-OK"); }
}

fn monitor(args: &[String]) {
    if arg(args, "--selftest", "0") == "1" { return selftest(); }
    // diagnostic only: run the whole monitor with one of the selftest's seeded faults (must then FAIL)
    let fault = match arg(args, "--fault", "0").as_str() { "1" => Fault::PerturbMaybeAppend, "2" => Fault::OracleKeepsSuffix, "3" => Fault::UncheckedTruncate, _ => Fault::None };
    let mut files: Vec<String> = arg(args, "--cases", "").split(',').filter(|x| !x.is_empty()).map(|x| x.to_string()).collect();
    files.sort();
    let nthreads: usize = arg(args, "--threads", "0").parse().unwrap();
    let nthreads = if nthreads == 0 { std::thread::available_parallelism().map(|x| x.get()).unwrap_or(4) } else { nthreads }.min(files.len().max(1));
    use std::sync::atomic::{AtomicUsize, Ordering};
    let next = AtomicUsize::new(0);
    let min_fail = AtomicUsize::new(usize::MAX);
    type Res = Result<(Stats, Option<(String, String)>), String>;
    let results: std::sync::Mutex<Vec<Option<Res>>> = std::sync::Mutex::new(files.iter().map(|_| None).collect());
    std::thread::scope(|sc| {
        for _ in 0..nthreads {
            sc.spawn(|| loop {
                let i = next.fetch_add(1, Ordering::SeqCst);
                if i >= files.len() { break; }
                if i > min_fail.load(Ordering::SeqCst) { continue; } // a lexicographically earlier file already failed
                let mut st = Stats::default();
                let r: Res = catch(|| monitor_file(&files[i], fault, &mut st)).map(|f| (st.clone(), f));
                if !matches!(r, Ok((_, None))) { min_fail.fetch_min(i, Ordering::SeqCst); }
                results.lock().unwrap()[i] = Some(r);
            });
        }
    });
    let results = results.into_inner().unwrap();
    let mut total = Stats::default();
    for (i, r) in results.into_iter().enumerate() {
        match r {
            None => break, // skipped: an earlier file failed (reported below before reaching here)
            Some(Err(m)) => panic!("monitor thread on {}: {}", files[i], m),
            Some(Ok((st, f))) => {
                total.add(&st);
                if let Some((nums, reason)) = f {
                    println!("FAIL raftlog {}", nums);
                    println!("REASON {}", reason);
                    eprintln!("(in {})", files[i]);
                    return;
                }
            }
        }
    }
    eprintln!("monitor: cases={} fully-in-contract={} ended-by-documented-fatal={} cut-out-of-contract={} (of which panic in an unchecked raw query={})",
        total.cases, total.full, total.fatal, total.cut, total.cut_unchecked_panic);
    eprintln!("monitor: ops={} checked={} not-reached-after-cut-or-fatal={}", total.ops, total.checked, total.unreached);
    for (k, v) in &total.why { eprintln!("monitor:   cut {:>8}  {}", v, k); }
    println!("MONITOR-OK cases={}", total.cases);
}
