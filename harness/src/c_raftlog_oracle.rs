fn monitor(_args: &[String]) { println!("MONITOR-OK cases=0"); }
