//! P-level event trace (tie B, election layer): what the acceptor of
//! coq/P/ElectionAccept.v consumes.  One trace per simulator run, cut at the
//! first applied membership change (the election layer of P has a fixed
//! configuration).
use raft::eraftpb::{Message, MessageType};
use raft::StateRole;

pub type Ent = (u64, u64);

#[derive(Default)]
pub struct PTrace {
    pub ev: Vec<u64>,
    pub count: u64,
    pub enabled: bool,
    pub inc: Vec<u64>,
    /// log-layer trace: the election events plus log / durable-log / released-ack events
    pub lev: Vec<u64>,
    pub lcount: u64,
    /// ghost full (never compacted) logs: volatile and durable, per node
    pub ghost: std::collections::BTreeMap<u64, Vec<Ent>>,
    pub dghost: std::collections::BTreeMap<u64, Vec<Ent>>,
    pub last_commit: std::collections::BTreeMap<u64, u64>,
    /// the longest committed prefix reported by any node (fills prefixes hidden by snapshots)
    pub committed_log: Vec<Ent>,
    /// read-index layer trace (P/Read.v): the log-layer events plus read requests, heartbeat
    /// acknowledgements and served reads
    pub rev: Vec<u64>,
    pub rcount: u64,
    /// read events are recorded (Safe read-only option on every node)
    pub reads: bool,
    /// term in which leader c last recorded a request with this context (see `read_req`)
    pub read_inst: std::collections::BTreeMap<(u64, Vec<u8>), u64>,
    /// reads released by an acknowledgement that was counted for a re-recorded duplicate request
    /// (known finding `stale-read-by-duplicates`): they are not abstract serve events
    pub released_by_duplicate: u64,
    /// their contexts (the read_index monitor names the known finding instead of a plain stale read)
    pub tainted_reads: std::collections::BTreeSet<Vec<u8>>,
    /// re-recorded (duplicate) requests whose answer is still to come
    pub read_dups: std::collections::BTreeSet<(u64, Vec<u8>)>,
}

/// id of a read request context
pub fn ctx_id(ctx: &[u8]) -> u64 {
    let mut h: u64 = 0xcbf29ce484222325;
    for b in ctx {
        h ^= *b as u64;
        h = h.wrapping_mul(0x100000001b3);
    }
    1 + (h % (1u64 << 40))
}

/// payload id of an entry: 0 for the empty normal entry (a leader's no-op), else a digest
pub fn ent_of(e: &raft::eraftpb::Entry) -> Ent {
    let ty = e.get_entry_type() as u64;
    if ty == 0 && e.data.is_empty() && e.context.is_empty() {
        return (e.term, 0);
    }
    let mut h: u64 = 0xcbf29ce484222325 ^ ty;
    for b in e.data.iter().chain([0xffu8].iter()).chain(e.context.iter()) {
        h ^= *b as u64;
        h = h.wrapping_mul(0x100000001b3);
    }
    (e.term, 1 + (h % (1u64 << 40)))
}

pub fn role_code(r: StateRole) -> u64 {
    match r {
        StateRole::Follower => 0,
        StateRole::Candidate => 1,
        StateRole::Leader => 2,
        StateRole::PreCandidate => 3,
    }
}

impl PTrace {
    pub fn call(&mut self, n: u64, pre: (u64, u64, StateRole), post: (u64, u64, StateRole), gfrom: Option<u64>) {
        if !self.enabled {
            return;
        }
        if pre == post && gfrom.is_none() {
            return; // stutter
        }
        let mut v = vec![1, n, pre.0, pre.1, role_code(pre.2), post.0, post.1, role_code(post.2)];
        match gfrom {
            Some(k) => v.extend_from_slice(&[1, k]),
            None => v.push(0),
        }
        self.both(&v);
    }
    pub fn ready_hs(&mut self, n: u64) {
        if self.enabled {
            self.both(&[2, n]);
        }
    }
    pub fn fsync(&mut self, n: u64, t: u64, v: u64) {
        if self.enabled {
            self.both(&[3, n, t, v]);
        }
    }
    pub fn send(&mut self, m: &Message) {
        if !self.enabled {
            return;
        }
        let kind = match m.get_msg_type() {
            MessageType::MsgRequestVote => 1,
            MessageType::MsgRequestVoteResponse if !m.reject => 2,
            MessageType::MsgAppend | MessageType::MsgHeartbeat | MessageType::MsgSnapshot => 3,
            MessageType::MsgAppendResponse if !m.reject && m.index >= 1 => {
                // a released acknowledgement (log layer only)
                self.lpush(&[9, m.from, m.term, m.index]);
                return;
            }
            _ => return,
        };
        self.both(&[4, kind, m.from, m.to, m.term]);
    }
    pub fn crash(&mut self, n: u64) {
        if self.enabled {
            self.both(&[5, n]);
            let d = self.dghost.get(&n).cloned().unwrap_or_default();
            self.ghost.insert(n, d);
            self.last_commit.insert(n, 0);
        }
    }
    pub fn restart(&mut self, n: u64, term: u64, vote: u64) {
        if self.enabled {
            self.both(&[6, n, term, vote]);
        }
    }
    fn both(&mut self, v: &[u64]) {
        self.ev.extend_from_slice(v);
        self.count += 1;
        self.lpush(v);
    }
    /// one event of the log-layer trace (and of the read-layer trace)
    fn lpush(&mut self, v: &[u64]) {
        self.lev.extend_from_slice(v);
        self.lcount += 1;
        self.rev.extend_from_slice(v);
        self.rcount += 1;
    }
    /// read-layer events: `10 c ctx idx` request recorded, `11 q c t ctx` heartbeat
    /// acknowledgement created, `12 c ctx idx` read served
    /// A read request is identified by (leader, term, context).  The network may duplicate a
    /// forwarded MsgReadIndex (or deliver it again much later): once the first copy has been
    /// answered the leader records and answers the same context again, counting heartbeat
    /// acknowledgements by context alone - also those created for the first copy.  Such a
    /// re-recording within the same term is the SAME request of the application (the property
    /// presupposes unique contexts), so it and its answer are not separate abstract events.
    pub fn read_req(&mut self, c: u64, t: u64, ctx: &[u8], idx: u64) {
        if self.enabled && self.reads {
            let key = (c, ctx.to_vec());
            if self.read_inst.get(&key) == Some(&t) {
                self.read_dups.insert(key);
                return;
            }
            self.read_inst.insert(key, t);
            self.rev.extend_from_slice(&[10, c, ctx_id(ctx), idx]);
            self.rcount += 1;
        }
    }
    /// q created a heartbeat response echoing ctx for leader c
    pub fn hb_ack(&mut self, q: u64, c: u64, t: u64, ctx: &[u8]) {
        if self.enabled && self.reads {
            self.rev.extend_from_slice(&[11, q, c, t, ctx_id(ctx)]);
            self.rcount += 1;
        }
    }
    pub fn read_serve(&mut self, c: u64, ctx: &[u8], idx: u64) {
        if self.enabled && self.reads {
            if self.read_dups.remove(&(c, ctx.to_vec())) {
                return;
            }
            self.rev.extend_from_slice(&[12, c, ctx_id(ctx), idx]);
            self.rcount += 1;
        }
    }

    fn full_log(prev: &[Ent], committed: &[Ent], first_index: u64, ents: &[raft::eraftpb::Entry]) -> Vec<Ent> {
        let keep = (first_index - 1) as usize;
        // The prefix below first_index is hidden (compacted, or replaced by a snapshot): it is
        // a committed prefix, so it is taken from the longest committed log seen so far (for a
        // compaction this equals the node's own old entries, which were applied).
        let mut v: Vec<Ent> = if committed.len() >= keep {
            committed[..keep].to_vec()
        } else {
            prev.iter().take(keep).cloned().collect()
        };
        while v.len() < keep {
            // prefix hidden by a snapshot: it is a committed prefix
            let k = v.len();
            v.push(committed.get(k).cloned().unwrap_or((0, 0)));
        }
        v.extend(ents.iter().map(ent_of));
        v
    }

    /// After an API call (or a restart) on node n: its log from `first_index`, commit index,
    /// and the indexes of the acknowledgements it created in this call.
    pub fn observe(&mut self, n: u64, first_index: u64, ents: &[raft::eraftpb::Entry], commit: u64, acks: &[u64]) {
        if !self.enabled {
            return;
        }
        let prev = self.ghost.get(&n).cloned().unwrap_or_default();
        let new = Self::full_log(&prev, &self.committed_log, first_index, ents);
        let pc = self.last_commit.get(&n).cloned().unwrap_or(0);
        if (commit as usize) > self.committed_log.len() && (commit as usize) <= new.len() {
            self.committed_log = new[..commit as usize].to_vec();
        }
        if new != prev || commit != pc || !acks.is_empty() {
            let mut v = vec![7, n, new.len() as u64];
            for e in &new {
                v.extend_from_slice(&[e.0, e.1]);
            }
            v.push(commit);
            v.push(acks.len() as u64);
            v.extend_from_slice(acks);
            self.lpush(&v);
        }
        self.ghost.insert(n, new);
        self.last_commit.insert(n, commit);
    }

    /// After the application wrote to n's stable storage: the storage's entries from `first_index`.
    pub fn durable(&mut self, n: u64, first_index: u64, ents: &[raft::eraftpb::Entry]) {
        if !self.enabled {
            return;
        }
        let prev = self.dghost.get(&n).cloned().unwrap_or_default();
        let new = Self::full_log(&prev, &self.committed_log, first_index, ents);
        if new != prev {
            let mut v = vec![8, n, new.len() as u64];
            for e in &new {
                v.extend_from_slice(&[e.0, e.1]);
            }
            self.lpush(&v);
        }
        self.dghost.insert(n, new);
    }

    pub fn rlines(&self) -> (Vec<u64>, Vec<u64>) {
        let mut c = vec![self.inc.len() as u64];
        c.extend_from_slice(&self.inc);
        c.push(0);
        c.push(self.rcount);
        c.extend_from_slice(&self.rev);
        (c, vec![1, self.rcount])
    }

    pub fn llines(&self) -> (Vec<u64>, Vec<u64>) {
        let mut c = vec![self.inc.len() as u64];
        c.extend_from_slice(&self.inc);
        c.push(0);
        c.push(self.lcount);
        c.extend_from_slice(&self.lev);
        (c, vec![1, self.lcount])
    }

    /// (case line numbers, impl line numbers)
    pub fn lines(&self) -> (Vec<u64>, Vec<u64>) {
        let mut c = vec![self.inc.len() as u64];
        c.extend_from_slice(&self.inc);
        c.push(0); // outgoing voters: none at boot
        c.push(self.count);
        c.extend_from_slice(&self.ev);
        (c, vec![1, self.count])
    }
}
