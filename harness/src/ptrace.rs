//! P-level event trace (tie B, election layer): what the acceptor of
//! coq/P/ElectionAccept.v consumes.  One trace per simulator run, cut at the
//! first applied membership change (the election layer of P has a fixed
//! configuration).
use raft::eraftpb::{Message, MessageType};
use raft::StateRole;

#[derive(Default)]
pub struct PTrace {
    pub ev: Vec<u64>,
    pub count: u64,
    pub enabled: bool,
    pub inc: Vec<u64>,
}

pub fn role_code(r: StateRole) -> u64 {
    match r {
        StateRole::Follower => 0,
        StateRole::Candidate => 1,
        StateRole::Leader => 2,
        StateRole::PreCandidate => 3,
    }
}

impl PTrace {
    pub fn call(&mut self, n: u64, pre: (u64, u64, StateRole), post: (u64, u64, StateRole), gfrom: Option<u64>) {
        if !self.enabled {
            return;
        }
        if pre == post && gfrom.is_none() {
            return; // stutter
        }
        self.ev.extend_from_slice(&[1, n, pre.0, pre.1, role_code(pre.2), post.0, post.1, role_code(post.2)]);
        match gfrom {
            Some(k) => self.ev.extend_from_slice(&[1, k]),
            None => self.ev.push(0),
        }
        self.count += 1;
    }
    pub fn ready_hs(&mut self, n: u64) {
        if self.enabled {
            self.ev.extend_from_slice(&[2, n]);
            self.count += 1;
        }
    }
    pub fn fsync(&mut self, n: u64, t: u64, v: u64) {
        if self.enabled {
            self.ev.extend_from_slice(&[3, n, t, v]);
            self.count += 1;
        }
    }
    pub fn send(&mut self, m: &Message) {
        if !self.enabled {
            return;
        }
        let kind = match m.get_msg_type() {
            MessageType::MsgRequestVote => 1,
            MessageType::MsgRequestVoteResponse if !m.reject => 2,
            MessageType::MsgAppend | MessageType::MsgHeartbeat | MessageType::MsgSnapshot => 3,
            _ => return,
        };
        self.ev.extend_from_slice(&[4, kind, m.from, m.to, m.term]);
        self.count += 1;
    }
    pub fn crash(&mut self, n: u64) {
        if self.enabled {
            self.ev.extend_from_slice(&[5, n]);
            self.count += 1;
        }
    }
    pub fn restart(&mut self, n: u64, term: u64, vote: u64) {
        if self.enabled {
            self.ev.extend_from_slice(&[6, n, term, vote]);
            self.count += 1;
        }
    }
    /// (case line numbers, impl line numbers)
    pub fn lines(&self) -> (Vec<u64>, Vec<u64>) {
        let mut c = vec![self.inc.len() as u64];
        c.extend_from_slice(&self.inc);
        c.push(0); // outgoing voters: none at boot
        c.push(self.count);
        c.extend_from_slice(&self.ev);
        (c, vec![1, self.count])
    }
}
