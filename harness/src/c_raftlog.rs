//! C14: drives the real `raft::RaftLog<MemStorage>` (and its `Unstable`) through the
//! public API / pub fields.  Wire format: see coq/Run/RunRaftLog.v.
//!
//! Modes: `exhaustive` (all operations from every distinct state reachable within
//! depth-1 operations from a set of small initial stores), `random` (long mostly-valid
//! Ready-contract sequences + a malformed stream) write cases and the implementation's
//! answers; `monitor --cases f1,f2` re-runs case lines on the REAL code against an
//! independent plain-sequence oracle (see `oracle` below) that checks the property itself.
#![allow(deprecated)]
use crate::util::*;
use raft::eraftpb::{Entry, Snapshot};
use raft::storage::MemStorage;
use raft::{Config, Error, GetEntriesContext, RaftLog, Storage, StorageError};
use std::collections::HashSet;

const COMP: &str = "raftlog";
pub const PANIC: u64 = 999999;
pub const DPANIC: u64 = 999998;
pub const NO_LIMIT: u64 = u64::MAX;
type Log = RaftLog<MemStorage>;
/// (index, term, data length)
pub type E3 = (u64, u64, u64);

// ------------------------------------------------------------------ sites
fn enclosing_fn(file: &str, line: usize) -> String {
    thread_local! { static SRC: std::cell::RefCell<std::collections::HashMap<String, Vec<String>>> = Default::default(); }
    SRC.with(|c| {
        let mut c = c.borrow_mut();
        let lines = c.entry(file.to_string()).or_insert_with(|| {
            let p = if file.starts_with('/') { file.to_string() } else { format!("/repo/{}", file) };
            std::fs::read_to_string(&p).map(|t| t.lines().map(|s| s.to_string()).collect()).unwrap_or_default()
        });
        let mut i = line.min(lines.len());
        while i > 0 {
            let l = lines[i - 1].trim_start();
            let l = l.strip_prefix("pub(crate) ").or_else(|| l.strip_prefix("pub ")).unwrap_or(l);
            if let Some(r) = l.strip_prefix("fn ") {
                return r.split(|ch: char| !(ch.is_alphanumeric() || ch == '_')).next().unwrap_or("").to_string();
            }
            i -= 1;
        }
        String::new()
    })
}

/// Maps a caught panic ("message @ file:line") to the model's site number.
pub fn site_of(m: &str) -> u64 {
    let (msg, loc) = match m.rfind(" @ ") { Some(i) => (&m[..i], &m[i + 3..]), None => (m, "") };
    let (file, line) = match loc.rfind(':') { Some(i) => (&loc[..i], loc[i + 1..].parse::<usize>().unwrap_or(0)), None => (loc, 0) };
    let add = msg.contains("attempt to add with overflow");
    let sub = msg.contains("attempt to subtract with overflow");
    let ioob = msg.contains("index out of bounds");
    if file.ends_with("storage.rs") {
        let f = enclosing_fn(file, line);
        return match f.as_str() {
            "first_index" if add => 1901,
            "commit_to" if msg.contains("but the entry does not exist") => 1902,
            "commit_to" if ioob => 1903,
            "snapshot" if ioob && msg.contains("the len is 0") => 1904,
            "snapshot" if sub => 1905,
            "snapshot" if ioob => 1906,
            "snapshot" if msg.contains("< snapshot_metadata.index") => 1907,
            "compact" if add => 1908,
            "compact" if msg.contains("compact not received raft logs") => 1909,
            "compact" => 1910,
            "append" if msg.contains("overwrite compacted raft logs") => 1911,
            "append" if add => 1912,
            "append" if msg.contains("raft logs should be continuous") => 1913,
            "append" => 1914,
            "entries" if add => 1915,
            "entries" if msg.contains("index out of bound (last") => 1916,
            "entries" if ioob => 1917,
            "entries" if sub => 1918,
            "entries" if msg.contains("slice index starts at") => 1919,
            "entries" if msg.contains("range end index") => 1920,
            "term" if ioob => 1921,
            _ => 9998,
        };
    }
    if msg.contains("self.snapshot.is_none()") { return 1401; }
    if msg.contains("the last one of unstable.slice has different index") { return 1402; }
    if msg.contains("unstable.slice is empty") { return 1403; }
    if msg.contains("unstable.snap has different index") { return 1404; }
    if msg.contains("unstable.snap is none") { return 1405; }
    if msg.contains("invalid unstable.slice") { return 1407; }
    if msg.contains("unstable.slice[") { return 1408; }
    if msg.contains("unexpected error when getting the last term") { return 1410; }
    if msg.contains("conflict with committed entry") { return 1411; }
    if msg.contains("is out of range [last_index") { return 1412; }
    if msg.starts_with("applied(") { return 1413; }
    if msg.contains("is out of range [committed") { return 1414; }
    if msg.contains("invalid slice") { return 1415; }
    if msg.starts_with("slice[") && msg.contains("out of bound") { return 1416; }
    if msg.contains("is unavailable from storage") { return 1417; }
    if msg.contains("snapshot's index") && msg.contains("> committed") { return 1419; }
    if msg.contains("snapshot's index") && msg.contains(">= offset") { return 1420; }
    if msg.contains("last committed entry at") { return 1422; }
    let f = enclosing_fn(file, line);
    if file.ends_with("raft_log.rs") || file.ends_with("log_unstable.rs") {
        if add { return 1423; }
        if sub { return 1424; }
        if f == "restore" && msg.contains(" < ") { return 1421; }
        if f == "truncate_and_append" && ioob { return 1406; }
        if f == "maybe_term" && ioob { return 1409; }
        if f == "maybe_append" && msg.contains("range start index") { return 1426; }
        if f == "next_entries_since" { return 1418; }
    }
    9999
}

pub fn err_code(e: &Error) -> u64 {
    match e {
        Error::Store(StorageError::Compacted) => 1,
        Error::Store(StorageError::Unavailable) => 2,
        Error::Store(StorageError::SnapshotOutOfDate) => 3,
        Error::Store(StorageError::SnapshotTemporarilyUnavailable) => 4,
        Error::Store(StorageError::LogTemporarilyUnavailable) => 5,
        _ => 99,
    }
}

// ------------------------------------------------------------------ building blocks
pub fn mk_ent(e: E3) -> Entry {
    let mut x = Entry::default();
    x.index = e.0;
    x.term = e.1;
    x.data = vec![0u8; e.2 as usize].into();
    x
}
fn mk_ents(l: &[E3]) -> Vec<Entry> { l.iter().map(|e| mk_ent(*e)).collect() }
fn mk_snap(i: u64, t: u64) -> Snapshot {
    let mut s = Snapshot::default();
    s.mut_metadata().index = i;
    s.mut_metadata().term = t;
    s
}
fn enc_e3(l: &[Entry], out: &mut Vec<u64>) {
    out.push(l.len() as u64);
    for e in l { out.push(e.index); out.push(e.term); out.push(e.data.len() as u64); }
}
fn enc_e2(l: &[Entry], out: &mut Vec<u64>) {
    out.push(l.len() as u64);
    for e in l { out.push(e.index); out.push(e.term); }
}
fn put_e3(l: &[E3], out: &mut Vec<u64>) {
    out.push(l.len() as u64);
    for e in l { out.push(e.0); out.push(e.1); out.push(e.2); }
}

#[derive(Clone, Debug, PartialEq)]
pub struct Hdr { pub dumpq: u64, pub si: u64, pub st: u64, pub tds: Vec<(u64, u64)>, pub commit: u64, pub limit: u64 }

impl Hdr {
    pub fn enc(&self, out: &mut Vec<u64>) {
        out.extend_from_slice(&[self.dumpq, self.si, self.st, self.tds.len() as u64]);
        for (t, d) in &self.tds { out.push(*t); out.push(*d); }
        out.push(self.commit);
        out.push(self.limit);
    }
}

fn logger() -> slog::Logger { slog::Logger::root(slog::Discard, slog::o!()) }

fn new_log(store: MemStorage, limit: u64) -> Log {
    let mut cfg = Config::default();
    cfg.max_apply_unpersisted_log_limit = limit;
    RaftLog::new(store, logger(), &cfg)
}

pub fn build(h: &Hdr) -> Result<Log, u64> {
    catch(|| {
        let store = MemStorage::new();
        if h.si > 0 { let _ = store.wl().apply_snapshot(mk_snap(h.si, h.st)); }
        let ents: Vec<Entry> = h.tds.iter().enumerate().map(|(k, (t, d))| mk_ent((h.si + 1 + k as u64, *t, *d))).collect();
        store.wl().append(&ents).unwrap();
        store.wl().mut_hard_state().commit = h.commit;
        new_log(store, h.limit)
    }).map_err(|m| site_of(&m))
}

#[derive(Clone, Debug, PartialEq)]
pub enum Op {
    Append(Vec<E3>), MaybeAppend(u64, u64, u64, Vec<E3>), CommitTo(u64), AppliedTo(u64),
    StableEntries(u64, u64), StableSnap(u64), Restore(u64, u64), MaybeCommit(u64, u64),
    MaybePersist(u64, u64), MaybePersistSnap(u64), UTruncAppend(Vec<E3>),
    SAppendUnstable, SApplyUnstableSnap, SCompact(u64), SCommitTo(u64), SAppend(Vec<E3>),
    SApplySnap(u64, u64), SSetCommit(u64), Restart, SetLimit(u64), SetApplied(u64),
    Term(u64), First, Last, LastTerm, MatchTerm(u64, u64), FindConflict(Vec<E3>),
    FindConflictByTerm(u64, u64), UpToDate(u64, u64), Slice(u64, u64, Option<u64>),
    Entries(u64, Option<u64>), NextSince(u64, Option<u64>), Next(Option<u64>), HasNextSince(u64),
    SnapshotAt(u64), CommitInfo, UMaybeTerm(u64), USlice(u64, u64), UCheck(u64, u64), HasNext,
}
use Op::*;

impl Op {
    pub fn is_query(&self) -> bool {
        matches!(self, Term(_) | First | Last | LastTerm | MatchTerm(..) | FindConflict(_) | FindConflictByTerm(..)
            | UpToDate(..) | Slice(..) | Entries(..) | NextSince(..) | Next(_) | HasNextSince(_) | SnapshotAt(_)
            | CommitInfo | UMaybeTerm(_) | USlice(..) | UCheck(..) | HasNext)
    }
    pub fn enc(&self, o: &mut Vec<u64>) {
        match self {
            Append(e) => { o.push(0); put_e3(e, o) }
            MaybeAppend(i, t, c, e) => { o.extend_from_slice(&[1, *i, *t, *c]); put_e3(e, o) }
            CommitTo(i) => o.extend_from_slice(&[2, *i]),
            AppliedTo(i) => o.extend_from_slice(&[3, *i]),
            StableEntries(i, t) => o.extend_from_slice(&[4, *i, *t]),
            StableSnap(i) => o.extend_from_slice(&[5, *i]),
            Restore(i, t) => o.extend_from_slice(&[6, *i, *t]),
            MaybeCommit(i, t) => o.extend_from_slice(&[7, *i, *t]),
            MaybePersist(i, t) => o.extend_from_slice(&[8, *i, *t]),
            MaybePersistSnap(i) => o.extend_from_slice(&[9, *i]),
            Term(i) => o.extend_from_slice(&[10, *i]),
            First => o.push(11), Last => o.push(12), LastTerm => o.push(13),
            MatchTerm(i, t) => o.extend_from_slice(&[14, *i, *t]),
            FindConflict(e) => { o.push(15); put_e3(e, o) }
            FindConflictByTerm(i, t) => o.extend_from_slice(&[16, *i, *t]),
            UpToDate(i, t) => o.extend_from_slice(&[17, *i, *t]),
            Slice(lo, hi, m) => { o.extend_from_slice(&[18, *lo, *hi]); enc_opt(*m, o) }
            Entries(i, m) => { o.extend_from_slice(&[19, *i]); enc_opt(*m, o) }
            NextSince(s, m) => { o.extend_from_slice(&[20, *s]); enc_opt(*m, o) }
            Next(m) => { o.push(21); enc_opt(*m, o) }
            HasNextSince(s) => o.extend_from_slice(&[22, *s]),
            SnapshotAt(r) => o.extend_from_slice(&[23, *r]),
            CommitInfo => o.push(24),
            UMaybeTerm(i) => o.extend_from_slice(&[25, *i]),
            USlice(lo, hi) => o.extend_from_slice(&[26, *lo, *hi]),
            UCheck(lo, hi) => o.extend_from_slice(&[27, *lo, *hi]),
            UTruncAppend(e) => { o.push(28); put_e3(e, o) }
            HasNext => o.push(29),
            SAppendUnstable => o.push(30),
            SApplyUnstableSnap => o.push(31),
            SCompact(i) => o.extend_from_slice(&[32, *i]),
            SCommitTo(i) => o.extend_from_slice(&[33, *i]),
            SAppend(e) => { o.push(34); put_e3(e, o) }
            SApplySnap(i, t) => o.extend_from_slice(&[35, *i, *t]),
            SSetCommit(c) => o.extend_from_slice(&[36, *c]),
            Restart => o.push(37),
            SetLimit(m) => o.extend_from_slice(&[38, *m]),
            SetApplied(i) => o.extend_from_slice(&[39, *i]),
        }
    }
}

struct Rd<'a> { v: &'a [u64], p: usize }
impl<'a> Rd<'a> {
    fn n(&mut self) -> Option<u64> { let x = self.v.get(self.p).cloned(); if x.is_some() { self.p += 1; } x }
    fn ents(&mut self) -> Option<Vec<E3>> {
        let k = self.n()? as usize;
        if self.v.len() - self.p < k.checked_mul(3)? { return None; }
        let mut r = vec![];
        for _ in 0..k { r.push((self.n()?, self.n()?, self.n()?)); }
        Some(r)
    }
    fn opt(&mut self) -> Option<Option<u64>> {
        match self.n()? { 0 => Some(None), _ => Some(Some(self.n()?)) }
    }
    fn op(&mut self) -> Option<Op> {
        Some(match self.n()? {
            0 => Append(self.ents()?),
            1 => { let (i, t, c) = (self.n()?, self.n()?, self.n()?); MaybeAppend(i, t, c, self.ents()?) }
            2 => CommitTo(self.n()?), 3 => AppliedTo(self.n()?),
            4 => StableEntries(self.n()?, self.n()?), 5 => StableSnap(self.n()?),
            6 => Restore(self.n()?, self.n()?), 7 => MaybeCommit(self.n()?, self.n()?),
            8 => MaybePersist(self.n()?, self.n()?), 9 => MaybePersistSnap(self.n()?),
            10 => Term(self.n()?), 11 => First, 12 => Last, 13 => LastTerm,
            14 => MatchTerm(self.n()?, self.n()?), 15 => FindConflict(self.ents()?),
            16 => FindConflictByTerm(self.n()?, self.n()?), 17 => UpToDate(self.n()?, self.n()?),
            18 => { let (a, b) = (self.n()?, self.n()?); Slice(a, b, self.opt()?) }
            19 => { let a = self.n()?; Entries(a, self.opt()?) }
            20 => { let a = self.n()?; NextSince(a, self.opt()?) }
            21 => Next(self.opt()?), 22 => HasNextSince(self.n()?), 23 => SnapshotAt(self.n()?),
            24 => CommitInfo, 25 => UMaybeTerm(self.n()?), 26 => USlice(self.n()?, self.n()?),
            27 => UCheck(self.n()?, self.n()?), 28 => UTruncAppend(self.ents()?), 29 => HasNext,
            30 => SAppendUnstable, 31 => SApplyUnstableSnap, 32 => SCompact(self.n()?),
            33 => SCommitTo(self.n()?), 34 => SAppend(self.ents()?), 35 => SApplySnap(self.n()?, self.n()?),
            36 => SSetCommit(self.n()?), 37 => Restart, 38 => SetLimit(self.n()?), 39 => SetApplied(self.n()?),
            _ => return None,
        })
    }
}

/// Decodes a case line (`raftlog n n n ...`); ops stop at the first undecodable one.
pub fn decode_case(line: &str) -> Option<(Hdr, Vec<Op>)> {
    let t: Vec<&str> = line.split_whitespace().collect();
    if t.len() < 2 || t[0] != COMP { return None; }
    let v: Vec<u64> = t[1..].iter().map(|x| x.parse().ok()).collect::<Option<_>>()?;
    let mut r = Rd { v: &v, p: 0 };
    let (dumpq, si, st, k) = (r.n()?, r.n()?, r.n()?, r.n()? as usize);
    let mut tds = vec![];
    for _ in 0..k { tds.push((r.n()?, r.n()?)); }
    let h = Hdr { dumpq, si, st, tds, commit: r.n()?, limit: r.n()? };
    let mut ops = vec![];
    while r.p < v.len() { match r.op() { Some(o) => ops.push(o), None => break } }
    Some((h, ops))
}

fn ctx() -> GetEntriesContext { GetEntriesContext::empty(false) }

fn enc_res_ents(r: raft::Result<Vec<Entry>>, o: &mut Vec<u64>) {
    match r { Ok(v) => { o.push(0); enc_e3(&v, o) } Err(e) => { o.push(1); o.push(err_code(&e)) } }
}
fn enc_unit_res(r: raft::Result<()>, o: &mut Vec<u64>) {
    match r { Ok(()) => o.push(0), Err(e) => { o.push(1); o.push(err_code(&e)) } }
}

/// Applies one op to the real log; Ok(result encoding) or Err(site).
pub fn apply(l: &mut Log, op: &Op) -> Result<Vec<u64>, u64> {
    let r = catch(|| {
        let mut o = vec![];
        match op {
            Append(e) => o.push(l.append(&mk_ents(e))),
            MaybeAppend(i, t, c, e) => match l.maybe_append(*i, *t, *c, &mk_ents(e)) {
                None => o.push(0), Some((a, b)) => o.extend_from_slice(&[1, a, b]) },
            CommitTo(i) => l.commit_to(*i),
            AppliedTo(i) => l.applied_to(*i),
            StableEntries(i, t) => l.stable_entries(*i, *t),
            StableSnap(i) => l.stable_snap(*i),
            Restore(i, t) => l.restore(mk_snap(*i, *t)),
            MaybeCommit(i, t) => o.push(l.maybe_commit(*i, *t) as u64),
            MaybePersist(i, t) => o.push(l.maybe_persist(*i, *t) as u64),
            MaybePersistSnap(i) => o.push(l.maybe_persist_snap(*i) as u64),
            UTruncAppend(e) => l.unstable.truncate_and_append(&mk_ents(e)),
            SAppendUnstable => { let e = l.unstable_entries().to_vec(); l.store.wl().append(&e).unwrap() }
            SApplyUnstableSnap => match l.unstable_snapshot().clone() {
                None => o.push(0), Some(s) => enc_unit_res(l.store.wl().apply_snapshot(s), &mut o) },
            SCompact(i) => l.store.wl().compact(*i).unwrap(),
            SCommitTo(i) => l.store.wl().commit_to(*i).unwrap(),
            SAppend(e) => l.store.wl().append(&mk_ents(e)).unwrap(),
            SApplySnap(i, t) => enc_unit_res(l.store.wl().apply_snapshot(mk_snap(*i, *t)), &mut o),
            SSetCommit(c) => l.store.wl().mut_hard_state().commit = *c,
            Restart => { let n = new_log(l.store.clone(), l.max_apply_unpersisted_log_limit); *l = n }
            SetLimit(m) => l.max_apply_unpersisted_log_limit = *m,
            SetApplied(i) => l.applied = *i,
            Term(i) => match l.term(*i) { Ok(t) => o.extend_from_slice(&[0, t]), Err(e) => o.extend_from_slice(&[1, err_code(&e)]) },
            First => o.push(l.first_index()),
            Last => o.push(l.last_index()),
            LastTerm => o.push(l.last_term()),
            MatchTerm(i, t) => o.push(l.match_term(*i, *t) as u64),
            FindConflict(e) => o.push(l.find_conflict(&mk_ents(e))),
            FindConflictByTerm(i, t) => { let (a, b) = l.find_conflict_by_term(*i, *t); o.push(a); enc_opt(b, &mut o) }
            UpToDate(i, t) => o.push(l.is_up_to_date(*i, *t) as u64),
            Slice(lo, hi, m) => enc_res_ents(l.slice(*lo, *hi, *m, ctx()), &mut o),
            Entries(i, m) => enc_res_ents(l.entries(*i, *m, ctx()), &mut o),
            NextSince(s, m) => match l.next_entries_since(*s, *m) { None => o.push(0), Some(v) => { o.push(1); enc_e3(&v, &mut o) } },
            Next(m) => match l.next_entries(*m) { None => o.push(0), Some(v) => { o.push(1); enc_e3(&v, &mut o) } },
            HasNextSince(s) => o.push(l.has_next_entries_since(*s) as u64),
            HasNext => o.push(l.has_next_entries() as u64),
            SnapshotAt(r) => match l.snapshot(*r, 0) {
                Ok(s) => o.extend_from_slice(&[0, s.get_metadata().index, s.get_metadata().term]),
                Err(e) => o.extend_from_slice(&[1, err_code(&e)]) },
            CommitInfo => { let (a, b) = l.commit_info(); o.push(a); o.push(b) }
            UMaybeTerm(i) => enc_opt(l.unstable.maybe_term(*i), &mut o),
            USlice(lo, hi) => enc_e3(l.unstable.slice(*lo, *hi), &mut o),
            UCheck(lo, hi) => l.unstable.must_check_outofbounds(*lo, *hi),
        }
        o
    });
    r.map_err(|m| site_of(&m))
}

/// State dump (see RunRaftLog.v); Err(site) when a read panics.
pub fn dump(l: &Log) -> Result<Vec<u64>, u64> {
    catch(|| {
        let mut o = vec![];
        let f = l.store.first_index().unwrap();
        let la = l.store.last_index().unwrap();
        let bt = l.store.term(f - 1);
        let se = l.store.entries(f, la + 1, None, ctx()).unwrap_or_default(); // Ok([]) on an empty store since /repo 9c2e6d6
        let lf = l.first_index();
        let le = l.slice(lf, l.last_index() + 1, None, ctx());
        o.extend_from_slice(&[l.committed, l.persisted, l.applied, l.max_apply_unpersisted_log_limit,
            l.unstable.offset, l.unstable.entries_size as u64]);
        match &l.unstable.snapshot { None => o.push(0), Some(s) => o.extend_from_slice(&[1, s.get_metadata().index, s.get_metadata().term]) }
        enc_e3(&l.unstable.entries, &mut o);
        let hs = l.store.rl().hard_state().clone();
        o.extend_from_slice(&[f, la, hs.term, hs.commit]);
        match bt { Ok(t) => o.extend_from_slice(&[0, t]), Err(e) => o.extend_from_slice(&[1, err_code(&e)]) }
        enc_e2(&se, &mut o);
        match le { Ok(v) => { o.push(0); enc_e2(&v, &mut o) } Err(e) => o.extend_from_slice(&[1, err_code(&e)]) }
        o
    }).map_err(|m| site_of(&m))
}

/// Runs a whole case on the real implementation: (input numbers, output numbers).
pub fn run_case(h: &Hdr, ops: &[Op]) -> (Vec<u64>, Vec<u64>) {
    let mut input = vec![];
    h.enc(&mut input);
    for o in ops { o.enc(&mut input); }
    let mut out = vec![];
    let mut l = match build(h) { Ok(l) => l, Err(s) => { out.extend_from_slice(&[PANIC, s]); return (input, out) } };
    match dump(&l) { Ok(d) => out.extend(d), Err(s) => { out.extend_from_slice(&[DPANIC, s]); return (input, out) } }
    for op in ops {
        match apply(&mut l, op) {
            Err(s) => { out.extend_from_slice(&[PANIC, s]); break }
            Ok(r) => {
                out.extend(r);
                if !op.is_query() || h.dumpq == 1 {
                    match dump(&l) { Ok(d) => out.extend(d), Err(s) => { out.extend_from_slice(&[DPANIC, s]); break } }
                }
            }
        }
    }
    (input, out)
}

include!("c_raftlog_gen.rs");
include!("c_raftlog_oracle.rs");

pub fn main(args: &[String]) {
    // the quiet panic hook hides the harness's own bugs: report them
    if let Err(m) = catch(|| main_inner(args)) { eprintln!("harness bug: {}", m); std::process::exit(101); }
}

fn main_inner(args: &[String]) {
    let mode = arg(args, "--mode", "exhaustive");
    if mode == "monitor" { return monitor(args); }
    let dir = arg(args, "--out", "/verif/build/run");
    let nsh: usize = arg(args, "--shards", "16").parse().unwrap();
    let seed: u64 = arg(args, "--seed", "1").parse().unwrap();
    std::fs::create_dir_all(&dir).unwrap();
    let mut total = 0;
    if mode == "exhaustive" {
        let depth: usize = arg(args, "--depth", "4").parse().unwrap();
        let maxstates: usize = arg(args, "--max-states", "0").parse().unwrap();
        let mut shards: Vec<Shard> = (0..nsh).map(|k| Shard::create(&dir, "raftlog-exh", k)).collect();
        exhaustive(depth, maxstates, &mut shards);
        for s in shards { total += s.finish(); }
    } else {
        let count: usize = arg(args, "--count", "300").parse().unwrap();
        let len: usize = arg(args, "--len", "120").parse().unwrap();
        let mut rng = Rng::new(seed);
        let mut shards: Vec<Shard> = (0..nsh).map(|k| Shard::create(&dir, "raftlog-rnd", k)).collect();
        for i in 0..count {
            let (h, ops) = if i % 5 == 4 { malformed_case(&mut rng, len) } else { random_case(&mut rng, len) };
            let (input, out) = run_case(&h, &ops);
            shards[i % nsh].put(COMP, &input, &out);
        }
        for s in shards { total += s.finish(); }
    }
    println!("cases={}", total);
}
