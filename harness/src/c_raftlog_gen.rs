// Case generators for C14 (included into c_raftlog.rs).

/// protobuf size of an entry, via the real generated code
fn esize(e: E3) -> u64 { use protobuf::Message; mk_ent(e).compute_size() as u64 }

/// A live run: the real log plus the accumulated case input/output.
struct Runner { h: Hdr, ops: Vec<Op>, l: Log, out: Vec<u64>, dead: bool }

impl Runner {
    fn start(h: &Hdr) -> Runner {
        let l = build(h).expect("initial store must build");
        let mut out = vec![];
        out.extend(dump(&l).expect("initial dump"));
        Runner { h: h.clone(), ops: vec![], l, out, dead: false }
    }
    fn replay(h: &Hdr, ops: &[Op]) -> Runner {
        let mut r = Runner::start(h);
        for o in ops { r.step(o.clone()); }
        r
    }
    /// true when the op (and the following dump) did not panic
    fn step(&mut self, op: Op) -> bool {
        assert!(!self.dead);
        let r = apply(&mut self.l, &op);
        let q = op.is_query();
        self.ops.push(op);
        match r {
            Err(s) => { self.out.extend_from_slice(&[PANIC, s]); self.dead = true }
            Ok(v) => {
                self.out.extend(v);
                if !q || self.h.dumpq == 1 {
                    match dump(&self.l) { Ok(d) => self.out.extend(d), Err(s) => { self.out.extend_from_slice(&[DPANIC, s]); self.dead = true } }
                }
            }
        }
        !self.dead
    }
    fn input(&self) -> Vec<u64> {
        let mut i = vec![];
        self.h.enc(&mut i);
        for o in &self.ops { o.enc(&mut i); }
        i
    }
}

/// Snapshot of the numbers the generators steer by.
#[derive(Clone, Copy, Debug)]
struct View { f: u64, last: u64, c: u64, p: u64, a: u64, o: u64, ulen: u64, snap: Option<(u64, u64)>, sf: u64, sl: u64 }

fn view(l: &Log) -> View {
    View { f: l.first_index(), last: l.last_index(), c: l.committed, p: l.persisted, a: l.applied,
        o: l.unstable.offset, ulen: l.unstable.entries.len() as u64,
        snap: l.unstable.snapshot.as_ref().map(|s| (s.get_metadata().index, s.get_metadata().term)),
        sf: l.store.first_index().unwrap(), sl: l.store.last_index().unwrap() }
}
fn tm(l: &Log, i: u64) -> u64 { l.term(i).unwrap_or(0) }
/// term of index i if it is inside [first-1, last]
fn ex(l: &Log, v: &View, i: u64) -> Option<u64> { if i + 1 >= v.f && i <= v.last { l.term(i).ok() } else { None } }
fn dl(i: u64, t: u64) -> u64 { (i * 2 + t) % 4 }
fn e3(i: u64, t: u64) -> E3 { (i, t, dl(i, t)) }
fn cap3(t: u64) -> u64 { t.min(3).max(1) }
fn dedup<T: PartialEq>(v: Vec<T>) -> Vec<T> { let mut r: Vec<T> = vec![]; for x in v { if !r.contains(&x) { r.push(x) } } r }

const MAXLEN: u64 = 5;

/// entries of maybe_append patterns starting at idx+1: S = agree with the log (or extend it), D = conflict
fn pat_ents(l: &Log, v: &View, idx: u64, pat: &str) -> Option<Vec<E3>> {
    let mut r = vec![];
    let mut prev = tm(l, idx).max(tm(l, v.last)).max(1);
    for (k, ch) in pat.chars().enumerate() {
        let i = idx + 1 + k as u64;
        let e = ex(l, v, i);
        let t = match (ch, e) {
            ('S', Some(t)) => t,
            ('S', None) => prev,
            ('D', Some(t)) => if t >= 3 { t - 1 } else { t + 1 },
            _ => return None,
        };
        if t == 0 { return None; }
        prev = t;
        r.push(e3(i, t));
    }
    Some(r)
}

fn candidates(l: &Log, full: bool) -> Vec<Op> {
    let v = view(l);
    let lt = tm(l, v.last);
    let mut c: Vec<Op> = vec![];
    let room = |hi: u64| hi <= v.f - 1 + MAXLEN;
    let lo = v.f.saturating_sub(1);
    if full {
        for s in lo.max(1)..=v.last + 2 {
            for len in 1..=2u64 {
                if !room(s + len - 1) { continue; }
                let ts = match ex(l, &v, s) { Some(t) => vec![t.max(1), cap3(t + 1)], None => vec![lt.max(1), cap3(lt + 1)] };
                for t in dedup(ts) { c.push(Append((0..len).map(|k| e3(s + k, t)).collect())); }
            }
        }
        c.push(Append(vec![]));
        for idx in lo..=v.last + 1 {
            match ex(l, &v, idx) {
                Some(t) => {
                    c.push(MaybeAppend(idx, t + 1, v.last + 3, vec![]));
                    for (pat, cmts) in [("", vec![0, v.last + 3]), ("S", vec![0, v.last + 3, v.c + 1]), ("D", vec![v.last + 3]),
                                        ("SS", vec![v.last + 3]), ("SD", vec![v.last + 3]), ("DS", vec![0]), ("SSD", vec![idx + 2])] {
                        if let Some(e) = pat_ents(l, &v, idx, pat) {
                            if !room(idx + e.len() as u64) { continue; }
                            for cm in cmts { c.push(MaybeAppend(idx, t, cm, e.clone())); }
                        }
                    }
                }
                None => { c.push(MaybeAppend(idx, 0, 0, vec![])); c.push(MaybeAppend(idx, lt, v.last + 3, vec![e3(idx + 1, lt.max(1))])); }
            }
        }
        // huge indexes: slice start out of range, idx + 1 overflow, idx + len overflow
        c.push(MaybeAppend(v.last + 1, 0, 0, vec![(u64::MAX - 1, 2, 0)]));
        c.push(MaybeAppend(u64::MAX, 0, 0, vec![]));
        c.push(MaybeAppend(u64::MAX, 0, 0, vec![e3(v.last + 1, lt.max(1))]));
        c.push(MaybeAppend(u64::MAX, 0, 0, vec![(u64::MAX, 0, 0)]));
        // non-contiguous entries (conflict index below idx+1 -> arithmetic underflow)
        if v.last > v.c { c.push(MaybeAppend(v.last, lt, 0, vec![e3(v.last, cap3(lt + 1))])); }
        for i in dedup(vec![v.c, v.c + 1, v.last, v.last + 1]) { c.push(CommitTo(i)); }
        for i in dedup(vec![0, v.a, v.a + 1, v.c, v.c + 1, v.a.saturating_sub(1)]) { c.push(AppliedTo(i)); }
        c.push(StableEntries(v.last, lt)); c.push(StableEntries(v.last, lt + 1)); c.push(StableEntries(v.last + 1, lt));
        match v.snap { Some((i, _)) => { c.push(StableSnap(i)); c.push(StableSnap(i + 1)) } None => c.push(StableSnap(v.c)) }
        for i in dedup(vec![v.c.saturating_sub(1), v.c, v.last, v.last + 2]) {
            for t in dedup(vec![ex(l, &v, i).unwrap_or(1).max(1), 3]) { c.push(Restore(i, t)); }
        }
        for i in dedup(vec![v.c, v.c + 1, v.last, v.last + 1]) { for t in dedup(vec![tm(l, i), tm(l, i) + 1]) { c.push(MaybeCommit(i, t)); } }
        for i in dedup(vec![v.p, v.p + 1, v.o.saturating_sub(1), v.o, v.last, v.sl]) {
            let st = l.store.term(i).unwrap_or(0);
            for t in dedup(vec![st, st + 1, tm(l, i)]) { c.push(MaybePersist(i, t)); }
        }
        for i in dedup(vec![v.p, v.p + 1, v.c, v.c + 1, v.o.saturating_sub(1), v.o]) { c.push(MaybePersistSnap(i)); }
        c.push(SAppendUnstable); c.push(SApplyUnstableSnap);
        for i in dedup(vec![v.sf, v.sf + 1, v.a, v.a + 1, v.sl, v.sl + 1, v.sl + 2]) { c.push(SCompact(i)); }
        for i in dedup(vec![v.sf, v.sl, v.sl + 1, v.c]) { c.push(SCommitTo(i)); }
        c.push(Restart);
        c.push(SetApplied(v.c + 1)); c.push(SetApplied(v.last + 1));
        for s in dedup(vec![v.o.saturating_sub(1), v.o, v.o + v.ulen, v.o + v.ulen + 1, v.o + 1]) {
            c.push(UTruncAppend(vec![e3(s, cap3(lt + 1))]));
        }
        c.push(UTruncAppend(vec![]));
        c.push(SAppend(vec![e3(v.sl + 1, lt.max(1))])); c.push(SAppend(vec![e3(v.sl + 2, lt.max(1))]));
        c.push(SAppend(vec![e3(v.sf.saturating_sub(1), 1)]));
        c.push(SApplySnap(v.sl, 2)); c.push(SApplySnap(v.sf.saturating_sub(2), 1));
        c.push(SSetCommit(v.sl)); c.push(SSetCommit(v.sl + 1)); c.push(SSetCommit(0));
    } else {
        if room(v.last + 1) {
            for t in dedup(vec![lt.max(1), cap3(lt + 1)]) { c.push(Append(vec![e3(v.last + 1, t)])); }
            c.push(MaybeAppend(v.last, lt, v.last + 3, vec![e3(v.last + 1, lt.max(1))]));
        }
        for idx in v.c..v.last {
            if let (Some(t), Some(e)) = (ex(l, &v, idx), pat_ents(l, &v, idx, "D")) { c.push(MaybeAppend(idx, t, 0, e)); }
        }
        if v.c < v.last { c.push(CommitTo(v.c + 1)); c.push(CommitTo(v.last)); }
        if v.a < v.c { c.push(AppliedTo(v.c)); c.push(AppliedTo(v.a + 1)); }
        if v.ulen > 0 { c.push(SAppendUnstable); c.push(StableEntries(v.last, lt)); }
        if v.o >= 1 { c.push(MaybePersist(v.o - 1, l.store.term(v.o - 1).unwrap_or(0))); }
        c.push(MaybePersist(v.sl, l.store.term(v.sl).unwrap_or(0)));
        c.push(Restore(v.last + 1, lt.max(1)));
        if v.c > 0 { c.push(Restore(v.c, tm(l, v.c).max(1))); }
        if let Some((i, _)) = v.snap { c.push(SApplyUnstableSnap); c.push(StableSnap(i)); c.push(MaybePersistSnap(i)); }
        if v.a > v.sf { c.push(SCompact(v.a)); }
        c.push(Restart);
        if v.c < v.last { c.push(SetApplied(v.c + 1)); }
    }
    dedup(c)
}

/// limits that cross every size boundary of `ents`
fn limits_for(ents: &[E3]) -> Vec<Option<u64>> {
    let mut r = vec![None, Some(0), Some(NO_LIMIT)];
    let mut ps = 0;
    for (k, e) in ents.iter().enumerate() {
        ps += esize(*e);
        if k < 3 { r.push(Some(ps - 1)); r.push(Some(ps)); }
    }
    if !ents.is_empty() { r.push(Some(ps - 1)); r.push(Some(ps)); r.push(Some(ps + 1)); }
    dedup(r)
}

fn all_e3(l: &Log, lo: u64, hi: u64) -> Vec<E3> {
    l.slice(lo, hi, None, ctx()).map(|v| v.iter().map(|e| (e.index, e.term, e.data.len() as u64)).collect()).unwrap_or_default()
}

fn battery(l: &Log) -> Vec<Op> {
    let v = view(l);
    let lt = tm(l, v.last);
    let lo = v.f.saturating_sub(2);
    let mut q = vec![First, Last, LastTerm, CommitInfo, HasNext, Next(None), Next(Some(0)), SnapshotAt(0), SnapshotAt(v.last + 5)];
    for i in lo..=v.last + 1 {
        q.push(Term(i)); q.push(UMaybeTerm(i));
        for t in dedup(vec![tm(l, i), tm(l, i) + 1, 0]) { q.push(MatchTerm(i, t)); }
        for t in 0..=3 { q.push(FindConflictByTerm(i, t)); }
        for m in [None, Some(0), Some(9)] { q.push(Entries(i, m)); }
    }
    for i in dedup(vec![v.last.saturating_sub(1), v.last, v.last + 1]) { for t in dedup(vec![lt.saturating_sub(1), lt, lt + 1]) { q.push(UpToDate(i, t)); } }
    for s in v.f..=v.last + 1 {
        q.push(FindConflict(vec![e3(s, tm(l, s)), e3(s + 1, tm(l, s + 1) + 1)]));
        q.push(FindConflict(vec![e3(s, tm(l, s)), e3(s + 1, tm(l, s + 1))]));
        q.push(FindConflict(vec![e3(s, tm(l, s) + 1)]));
    }
    q.push(FindConflict(vec![]));
    let hi_all = v.last + 1;
    for a in v.f.saturating_sub(1)..=v.last + 2 {
        for b in v.f.saturating_sub(1)..=v.last + 2 {
            if a > b && !(a == b + 1) { continue; }
            let inr = a >= v.f && b <= hi_all && a <= b;
            if inr && b == hi_all { for m in limits_for(&all_e3(l, a, b)) { q.push(Slice(a, b, m)); } }
            else if inr { let e = all_e3(l, a, b); let s: u64 = e.iter().take(2).map(|x| esize(*x)).sum(); q.push(Slice(a, b, None)); q.push(Slice(a, b, Some(s.saturating_sub(1)))); q.push(Slice(a, b, Some(s))); }
            else { q.push(Slice(a, b, None)); }
        }
    }
    for s in dedup(vec![v.a.saturating_sub(1), v.a, v.c, v.last, 0]) { q.push(NextSince(s, None)); q.push(NextSince(s, Some(5))); q.push(HasNextSince(s)); }
    q.push(USlice(v.o, v.o + v.ulen)); q.push(USlice(v.o + v.ulen, v.o + v.ulen));
    if v.ulen > 1 { q.push(USlice(v.o + 1, v.o + v.ulen)); }
    q.push(USlice(v.o.saturating_sub(1), v.o)); q.push(USlice(v.o, v.o + v.ulen + 1)); q.push(UCheck(v.o + 1, v.o)); q.push(UCheck(v.o, v.o));
    q.push(NextSince(u64::MAX, None)); q.push(HasNextSince(u64::MAX));
    dedup(q)
}

/// after the queries: the apply window under different limits (mutators, each followed by a dump)
fn limit_tail() -> Vec<Op> {
    vec![SetLimit(1), Next(None), HasNext, NextSince(0, Some(0)), SetLimit(u64::MAX - 1), Next(None), SetLimit(u64::MAX), HasNext, Next(None)]
}

fn initial_headers() -> Vec<Hdr> {
    let mk = |si, st, tds: Vec<(u64, u64)>, commit| Hdr { dumpq: 0, si, st, tds, commit, limit: 0 };
    vec![
        mk(0, 0, vec![], 0),
        mk(0, 0, vec![(1, 0), (1, 3)], 1),
        mk(0, 0, vec![(1, 1), (2, 0), (2, 2)], 2),
        mk(2, 1, vec![], 2),
        mk(2, 2, vec![(2, 3), (3, 0)], 3),
    ]
}

struct Emit<'a> { shards: &'a mut Vec<Shard>, rr: usize }
impl<'a> Emit<'a> {
    fn put(&mut self, r: &Runner) {
        let k = self.rr % self.shards.len();
        self.rr += 1;
        self.shards[k].put(COMP, &r.input(), &r.out);
    }
    /// runs `qs` after `base` ops, starting a fresh case after every panic
    fn queries(&mut self, h: &Hdr, base: &[Op], mut r: Runner, qs: Vec<Op>) {
        let mut any = false;
        for q in qs {
            if r.dead { self.put(&r); r = Runner::replay(h, base); any = false; if r.dead { return; } }
            r.step(q);
            any = true;
        }
        if any { self.put(&r); }
    }
}

/// Bounded-exhaustive: breadth-first over distinct states.  Levels below depth-1 are expanded
/// with the builder alphabet, every visited state is expanded once with the full alphabet
/// (one case per operation) and probed with the query battery.
fn exhaustive(depth: usize, maxstates: usize, shards: &mut Vec<Shard>) {
    let mut em = Emit { shards, rr: 0 };
    let mut seen: HashSet<Vec<u64>> = HashSet::new();
    let mut nstates = 0usize;
    for h in initial_headers() {
        let mut frontier: Vec<Vec<Op>> = vec![vec![]];
        let r0 = Runner::start(&h);
        seen.insert(dump(&r0.l).unwrap());
        for level in 0..depth {
            let mut next: Vec<Vec<Op>> = vec![];
            for path in &frontier {
                nstates += 1;
                let r = Runner::replay(&h, path);
                // probe this state
                let qs = battery(&r.l);
                em.queries(&h, path, r, qs);
                let r = Runner::replay(&h, path);
                em.queries(&h, path, r, limit_tail());
                if level + 1 > depth { continue; }
                let r = Runner::replay(&h, path);
                let last_level = level + 1 == depth;
                let cands_full = candidates(&r.l, true);
                let cands_build = candidates(&r.l, false);
                for op in &cands_full {
                    let mut r2 = Runner::replay(&h, path);
                    let ok = r2.step(op.clone());
                    em.put(&r2);
                    if ok && !last_level && cands_build.contains(op) {
                        let key = dump(&r2.l).unwrap();
                        if (maxstates == 0 || seen.len() < maxstates) && seen.insert(key) { let mut p = path.clone(); p.push(op.clone()); next.push(p); }
                    }
                }
                for op in &cands_build {
                    if cands_full.contains(op) || last_level { continue; }
                    let mut r2 = Runner::replay(&h, path);
                    let ok = r2.step(op.clone());
                    em.put(&r2);
                    if ok {
                        let key = dump(&r2.l).unwrap();
                        if (maxstates == 0 || seen.len() < maxstates) && seen.insert(key) { let mut p = path.clone(); p.push(op.clone()); next.push(p); }
                    }
                }
            }
            frontier = next;
            if frontier.is_empty() { break; }
        }
    }
    eprintln!("states={}", nstates);
}

// ------------------------------------------------------------------ random
fn rdl(rng: &mut Rng) -> u64 { match rng.below(10) { 0..=3 => 0, 4..=7 => rng.below(12), 8 => 100 + rng.below(60), _ => rng.below(40) } }
fn rmax(rng: &mut Rng) -> Option<u64> { match rng.below(6) { 0 => None, 1 => Some(0), 2 => Some(NO_LIMIT), 3 => Some(rng.below(30)), _ => Some(rng.below(400)) } }

fn random_case(rng: &mut Rng, len: usize) -> (Hdr, Vec<Op>) {
    let si = if rng.chance(1, 3) { 1 + rng.below(5) } else { 0 };
    let n0 = rng.below(4);
    let mut t = 1 + rng.below(2);
    let st = if si > 0 { t } else { 0 };
    let mut tds = vec![];
    for _ in 0..n0 { if rng.chance(1, 3) { t += 1; } tds.push((t, rdl(rng))); }
    // two thirds of the cases are fully valid; the others take an invalid choice now and then
    let mischief = rng.chance(1, 3);
    let limit = match rng.below(8) { 0 | 1 => 1 + rng.below(4), 2 if mischief => u64::MAX - rng.below(2), _ => 0 };
    let h = Hdr { dumpq: rng.below(2), si, st, tds, commit: si + rng.below(n0 + 1), limit };
    let mut r = Runner::start(&h);
    let mut cur = t; // current "raft term"
    let mut pending: Vec<(u64, u64)> = vec![]; // persist notices not yet delivered (index, term)
    let bad = |rng: &mut Rng| mischief && rng.chance(1, 50);
    let step = |r: &mut Runner, op: Op| { if !r.dead { r.step(op); } };
    while r.ops.len() < len && !r.dead {
        let v = view(&r.l);
        let lt = tm(&r.l, v.last);
        if cur < lt { cur = lt; }
        let k = rng.below(100);
        if k < 14 {
            if rng.chance(1, 6) { cur += 1; }
            let n = 1 + rng.below(3);
            let s = if bad(rng) { (v.c + rng.below(4)).max(1) } else { v.last + 1 };
            let e: Vec<E3> = (0..n).map(|j| (s + j, cur.max(1), rdl(rng))).collect();
            step(&mut r, Append(e));
        } else if k < 30 {
            // follower append: agree on a prefix, maybe conflict afterwards (above commit unless bad)
            let lo = if bad(rng) { v.f.saturating_sub(1) } else { v.c.max(v.f.saturating_sub(1)) };
            let extra = if bad(rng) { 2 } else { 0 };
            let idx = lo + rng.below((v.last + 1).saturating_sub(lo) + extra);
            let it = if rng.chance(1, 12) { tm(&r.l, idx) + 1 } else { tm(&r.l, idx) };
            let n = rng.below(4);
            let conflict_at = if rng.chance(1, 2) { Some(rng.below(n.max(1))) } else { None };
            let mut e = vec![];
            let mut prev = it.max(1);
            let mut diverged = false;
            for j in 0..n {
                let i = idx + 1 + j;
                let et = ex(&r.l, &v, i);
                let tt = if diverged { prev } else {
                    match et { Some(x) if conflict_at == Some(j) => { diverged = true; cur = cur.max(x) + 1; cur }
                               Some(x) => x, None => { diverged = true; cur.max(prev) } } };
                prev = tt;
                e.push((i, tt.max(1), rdl(rng)));
            }
            let cm = match rng.below(4) { 0 => 0, 1 => v.c + rng.below(3), 2 => idx + n, _ => v.last + 10 };
            step(&mut r, MaybeAppend(idx, it, cm, e));
        } else if k < 38 {
            let i = if bad(rng) { v.last + 1 + rng.below(2) } else { v.c + rng.below(v.last.saturating_sub(v.c) + 1) };
            if rng.chance(1, 2) { step(&mut r, CommitTo(i)); } else { let t = tm(&r.l, i) + if rng.chance(1, 8) { 1 } else { 0 }; step(&mut r, MaybeCommit(i, t)); }
        } else if k < 54 {
            // persist the Ready: sync order (write, stable); the async order (stable first) only as mischief
            if let Some((i, _)) = v.snap {
                if bad(rng) { step(&mut r, StableSnap(i)); step(&mut r, SApplyUnstableSnap); }
                else { step(&mut r, SApplyUnstableSnap); step(&mut r, StableSnap(i)); }
                if rng.chance(3, 4) { step(&mut r, MaybePersistSnap(i)); }
            } else if v.ulen > 0 {
                if bad(rng) { step(&mut r, StableEntries(v.last, lt)); step(&mut r, SAppendUnstable); }
                else { step(&mut r, SAppendUnstable); step(&mut r, StableEntries(v.last, lt)); }
                if rng.chance(2, 3) { step(&mut r, MaybePersist(v.last, lt)); } else { pending.push((v.last, lt)); }
            } else if bad(rng) { step(&mut r, StableEntries(v.last, lt)); }
        } else if k < 60 {
            if !pending.is_empty() { let (i, t) = pending.remove(0); step(&mut r, MaybePersist(i, t)); }
            else { let i = v.p + rng.below(3); let t = r.l.store.term(i).unwrap_or(1); step(&mut r, MaybePersist(i, t)); }
        } else if k < 68 {
            let hi = v.c.min(v.p.saturating_add(r.l.max_apply_unpersisted_log_limit));
            if bad(rng) { step(&mut r, AppliedTo(v.c + 1)); }
            else if hi >= v.a && v.a <= v.c { let i = v.a + rng.below(hi - v.a + 1); step(&mut r, AppliedTo(i)); }
        } else if k < 73 {
            let i = if bad(rng) { v.a + 1 + rng.below(2) } else { v.sf + rng.below(v.a.min(v.sl).saturating_sub(v.sf) + 1) };
            step(&mut r, SCompact(i));
        } else if k < 76 {
            let i = if bad(rng) { v.c.saturating_sub(1) } else { v.c + rng.below((v.last + 3).saturating_sub(v.c)) };
            let t = ex(&r.l, &v, i).unwrap_or(cur).max(1);
            step(&mut r, Restore(i, t));
        } else if k < 78 {
            step(&mut r, Restart); pending.clear();
            if rng.chance(1, 3) { let v2 = view(&r.l); let i = v2.c + rng.below(v2.last.saturating_sub(v2.c) + 1); step(&mut r, SetApplied(i)); }
        } else if k < 80 {
            step(&mut r, SetLimit(match rng.below(4) { 0 => 0, 1 => 1 + rng.below(5), 2 if bad(rng) => u64::MAX, _ => rng.below(100) }));
        } else if k < 81 {
            if v.sl >= v.sf { let i = v.sf + rng.below(v.sl - v.sf + 1); step(&mut r, SCommitTo(i)); }
        } else {
            let (qlo, qhi) = if bad(rng) { (v.f.saturating_sub(2), v.last + 3) } else { (v.f, v.last + 1) };
            let span = (qhi + 1).saturating_sub(qlo).max(1);
            let i = qlo + rng.below(span);
            let j = qlo + rng.below(span);
            let q = match rng.below(17) {
                0 => Term(i.saturating_sub(rng.below(2))), 1 => MatchTerm(i, tm(&r.l, i) + rng.below(2)), 2 => FindConflictByTerm(i.min(v.last + rng.below(2)), rng.below(cur + 2)),
                3 => UpToDate(i, (lt + rng.below(3)).saturating_sub(1)), 4 | 5 | 6 => Slice(i.min(j), i.max(j), rmax(rng)),
                7 | 8 => Entries(i, rmax(rng)), 9 => Next(rmax(rng)), 10 => NextSince(i, rmax(rng)), 11 => HasNext,
                12 => FindConflict((0..rng.below(4)).map(|d| (i + d, tm(&r.l, i + d) + if rng.chance(1, 4) { 1 } else { 0 }, 0)).collect()),
                13 => CommitInfo, 14 => LastTerm, 15 => if bad(rng) { SnapshotAt(rng.below(v.last + 3)) } else { Last }, _ => HasNextSince(i),
            };
            step(&mut r, q);
        }
    }
    (r.h.clone(), r.ops.clone())
}

fn rbig(rng: &mut Rng, small: u64) -> u64 {
    match rng.below(12) { 0 => u64::MAX, 1 => u64::MAX - 1, 2 => 1u64 << 63, _ => rng.below(small) }
}

fn malformed_case(rng: &mut Rng, len: usize) -> (Hdr, Vec<Op>) {
    let n0 = rng.below(4);
    let si = rng.below(3);
    let h = Hdr { dumpq: 1, si, st: if si > 0 { 1 } else { 0 }, tds: (0..n0).map(|_| (1 + rng.below(2), rng.below(5))).collect(), commit: rng.below(6),
        limit: if rng.chance(1, 4) { u64::MAX } else { rng.below(3) } };
    let mut ops = vec![];
    let s = 9u64;
    let ents = |rng: &mut Rng| -> Vec<E3> {
        let n = rng.below(4);
        let mut i = if rng.chance(1, 10) { rbig(rng, s) } else { rng.below(s) };
        let mut v = vec![];
        for _ in 0..n { v.push((i, rng.below(4), rng.below(6))); i = if rng.chance(1, 6) { rng.below(s) } else { i.wrapping_add(1) }; }
        v
    };
    for _ in 0..len.min(40) {
        let op = match rng.below(40) {
            0 => Append(ents(rng)), 1 => MaybeAppend(rbig(rng, s), rng.below(4), rbig(rng, s), ents(rng)), 2 => CommitTo(rbig(rng, s)),
            3 => AppliedTo(rbig(rng, s)), 4 => StableEntries(rng.below(s), rng.below(4)), 5 => StableSnap(rng.below(s)),
            6 => Restore(rng.below(s), rng.below(4)), 7 => MaybeCommit(rbig(rng, s), rng.below(4)), 8 => MaybePersist(rbig(rng, s), rng.below(4)),
            9 => MaybePersistSnap(rbig(rng, s)), 10 => Term(rbig(rng, s)), 11 => First, 12 => Last, 13 => LastTerm,
            14 => MatchTerm(rbig(rng, s), rbig(rng, 4)), 15 => FindConflict(ents(rng)), 16 => FindConflictByTerm(rbig(rng, s), rbig(rng, 4)),
            17 => UpToDate(rbig(rng, s), rbig(rng, 4)), 18 => Slice(rbig(rng, s), rbig(rng, s), rmax(rng)), 19 => Entries(rbig(rng, s), rmax(rng)),
            20 => NextSince(rbig(rng, s), rmax(rng)), 21 => Next(rmax(rng)), 22 => HasNextSince(rbig(rng, s)), 23 => SnapshotAt(rbig(rng, s)),
            24 => CommitInfo, 25 => UMaybeTerm(rbig(rng, s)), 26 => USlice(rbig(rng, s), rbig(rng, s)), 27 => UCheck(rbig(rng, s), rbig(rng, s)),
            28 => { let mut e = ents(rng); for x in e.iter_mut() { x.0 %= 1 << 20; } UTruncAppend(e) } 29 => HasNext, 30 => SAppendUnstable, 31 => SApplyUnstableSnap,
            32 => SCompact(rng.below(s)), 33 => SCommitTo(rng.below(s)),
            34 => { let mut e = ents(rng); for x in e.iter_mut() { x.0 %= 1 << 20; } SAppend(e) }
            35 => SApplySnap(rng.below(s), rng.below(4)), 36 => SSetCommit(rng.below(s)), 37 => Restart,
            38 => SetLimit(rbig(rng, 4)), _ => SetApplied(rng.below(s)),
        };
        ops.push(op);
    }
    // cut the case at the first panic so that every emitted op is compared
    let r = { let mut r = Runner::start(&h); for o in &ops { if !r.step(o.clone()) { break; } } r };
    (h, r.ops.clone())
}
