//! Runtime monitors (DESIGN 4.3): independent Rust-side oracles that watch simulated
//! cluster executions of the REAL implementation (no model involved) and report the first
//! violation of a property together with a replayable schedule.  They are the search
//! component of a check (DESIGN 5.2).
//!
//! `vharness monitor --prop <name> [--runs R] [--steps S] [--seed s] [--run k]
//!                   [--inject <name>] [--ignore sig1,sig2] [--strict] [--learner-campaign]`
//!
//! Output: `FAIL --prop <name> --seed <s> --run <k> --steps <S>` / `REASON <kind>: <text>` /
//! indented trace lines, or `MONITOR-OK runs=R calls=N`.
//!
//! REASON kinds per `--prop` (`all` = every one of them):
//! * no_panic (C20): `panic:<message> @ <file>:<line> [<source token>]`, `step-not-rejected`,
//!   `rejected-step-changed-state`
//! * election_safety (C02): `two-leaders`
//! * sm_safety (C01): `divergent-commit`, `self-contradiction`
//! * leader_completeness (C03): `leader-incomplete`, `vote-restriction`
//! * vote_restriction (C03): `vote-restriction`
//! * commit_rule (C04): `commit-old-term`, `commit-without-quorum`, `follower-commit-ahead`
//! * log_matching (C05): `log-mismatch`, `leader-log-shrunk`, `leader-log-rewrite`, `commit-regress`,
//!   `committed-entry-changed`, `committed-entry-lost`
//! * persist_before_send (C06): `unpersisted-release`, `double-vote`, `term-regress`, `vote-changed`,
//!   `restart-state`, `restart-behind-promise`
//! * ready_contract (C07): `apply-gap`, `apply-duplicate`, `apply-altered`, `apply-unpersisted`,
//!   `apply-uncommitted`, `apply-with-snapshot`, `snapshot-behind-applied`, `persist-handout-mismatch`,
//!   `persist-duplicate`, `hs-handout`, `must-sync-missing`, `has-ready-mismatch`, `has-ready-false-negative`
//! * read_index (C08): `stale-read`, `read-wrong-node`
//! * conf_change (C09): `two-pending-cc`, `inherited-pending-cc` (only with --strict, otherwise a NOTE),
//!   `campaign-with-pending-cc`, `non-voter-campaign`, `nonvoter-campaign-by-api` (only with
//!   --learner-campaign), `promotable-mismatch`, `conf-divergence`, `conf-return-mismatch`,
//!   `conf-changed-by-failed-apply`, `conf-changed-outside-apply`
//! * progress (C10): `stuck`, `stuck-no-leader`, `stuck-request-snapshot`, `stuck-nonvoter-higher-term`
//! * flow_control (C13): `append-anchor`, `append-not-contiguous`, `append-not-own-log`,
//!   `append-commit-ahead`, `append-oversize`, `heartbeat-commit`, `inflight-overflow`, `inflight-miscount`,
//!   `append-during-snapshot`, `probe-burst`, `append-while-probe-paused`, `uncommitted-overflow`
//! * snapshot (C15): `snapshot-behind-commit`, `snapshot-non-member`, `snapshot-needless-install`,
//!   `snapshot-install-state`, `snapshot-ignored-but-changed`, `snapshot-ignored-but-commit-moved`,
//!   `snapshot-to-unknown`, `snapshot-unneeded`, `snapshot-progress-state`, `snapshot-uncommitted`,
//!   `snapshot-resume`
//! * prevote (C16): `prevote-changed-state`, `term-raised-without-prevote-quorum`, `leader-disrupted`,
//!   `majority-term-changed` (the last two in the dedicated scenario: odd runs of `--prop prevote`,
//!   every fifth run of `--prop all`)
//! * transfer (C17): `timeout-now-premature`, `proposal-during-transfer`, `transfer-not-abandoned`,
//!   `transfer-to-non-voter`, `transfer-to-self`
//! Output also carries `NOTE <n> <text>` (non-failing observations), `IGNORED <n> <substring>` and
//! `COVER <n> <check>` (how often a check was exercised) lines after MONITOR-OK.
use crate::node::*;
use crate::sim::*;
use crate::util::*;
use raft::eraftpb::{ConfState, Entry, Message, MessageType};
use raft::{ProgressState, ReadOnlyOption, StateRole, Storage};
use std::collections::BTreeMap;

mod cluster;
mod local;
mod local2;
mod scenario;

pub const PROPS: &[&str] = &[
    "no_panic", "election_safety", "sm_safety", "log_matching", "ready_contract", "prevote", "vote_restriction",
    "flow_control", "commit_rule", "persist_before_send", "conf_change", "transfer", "snapshot", "read_index",
    "leader_completeness", "progress",
];

#[derive(Clone, Copy, Default, Debug)]
pub struct Flags {
    pub no_panic: bool,
    pub election_safety: bool,
    pub sm_safety: bool,
    pub log_matching: bool,
    pub ready_contract: bool,
    pub prevote: bool,
    pub vote_restriction: bool,
    pub flow_control: bool,
    pub commit_rule: bool,
    pub persist_before_send: bool,
    pub conf_change: bool,
    pub transfer: bool,
    pub snapshot: bool,
    pub read_index: bool,
    pub leader_completeness: bool,
    pub progress: bool,
}

impl Flags {
    pub fn of(name: &str) -> Option<Flags> {
        let mut f = Flags::default();
        match name {
            "no_panic" => f.no_panic = true,
            "election_safety" => f.election_safety = true,
            "sm_safety" => f.sm_safety = true,
            "log_matching" => f.log_matching = true,
            "ready_contract" => f.ready_contract = true,
            "prevote" => f.prevote = true,
            "vote_restriction" => f.vote_restriction = true,
            "flow_control" => f.flow_control = true,
            "commit_rule" => f.commit_rule = true,
            "persist_before_send" => f.persist_before_send = true,
            "conf_change" => f.conf_change = true,
            "transfer" => f.transfer = true,
            "snapshot" => f.snapshot = true,
            "read_index" => f.read_index = true,
            "leader_completeness" => {
                f.leader_completeness = true;
                f.vote_restriction = true
            }
            "progress" => f.progress = true,
            "all" => {
                f = Flags {
                    no_panic: true, election_safety: true, sm_safety: true, log_matching: true, ready_contract: true,
                    prevote: true, vote_restriction: true, flow_control: true, commit_rule: true,
                    persist_before_send: true, conf_change: true, transfer: true, snapshot: true, read_index: true,
                    leader_completeness: true, progress: true,
                }
            }
            _ => return None,
        }
        Some(f)
    }
}

// ---------------------------------------------------------------------------
// observations

/// (type, payload hash, payload length) of an entry
pub type Body = (u8, u64, usize);

#[derive(Clone, Debug, PartialEq, Eq)]
pub struct EK {
    pub term: u64,
    pub body: Body,
}

pub fn fnv(d: &[u8]) -> u64 {
    let mut h = 0xcbf29ce484222325u64;
    for b in d {
        h ^= *b as u64;
        h = h.wrapping_mul(0x100000001b3);
    }
    h
}

pub fn ek(e: &Entry) -> EK {
    EK { term: e.term, body: (e.get_entry_type() as u8, fnv(&e.data), e.data.len()) }
}

impl EK {
    pub fn is_cc(&self) -> bool {
        self.body.0 != 0
    }
    pub fn show(&self) -> String {
        format!("(term {}, type {}, len {}, hash {:x})", self.term, self.body.0, self.body.2, self.body.1 & 0xffff)
    }
}

#[derive(Clone, Debug, PartialEq, Eq, Default)]
pub struct ConfKey {
    pub voters: Vec<u64>,
    pub outgoing: Vec<u64>,
    pub learners: Vec<u64>,
    pub learners_next: Vec<u64>,
    pub auto_leave: bool,
}

pub fn conf_key(cs: &ConfState) -> ConfKey {
    let s = |v: &[u64]| {
        let mut v = v.to_vec();
        v.sort_unstable();
        v
    };
    ConfKey { voters: s(&cs.voters), outgoing: s(&cs.voters_outgoing), learners: s(&cs.learners), learners_next: s(&cs.learners_next), auto_leave: cs.auto_leave }
}

impl ConfKey {
    pub fn is_voter(&self, id: u64) -> bool {
        self.voters.contains(&id) || self.outgoing.contains(&id)
    }
    pub fn is_member(&self, id: u64) -> bool {
        self.is_voter(id) || self.learners.contains(&id) || self.learners_next.contains(&id)
    }
    pub fn members(&self) -> Vec<u64> {
        let mut v: Vec<u64> = self.voters.iter().chain(&self.outgoing).chain(&self.learners).chain(&self.learners_next).cloned().collect();
        v.sort_unstable();
        v.dedup();
        v
    }
    /// true iff `has` holds for a majority of each non-empty voter set
    pub fn quorum(&self, has: impl Fn(u64) -> bool) -> bool {
        for set in [&self.voters, &self.outgoing] {
            if set.is_empty() {
                continue;
            }
            let n = set.iter().filter(|v| has(**v)).count();
            if n < set.len() / 2 + 1 {
                return false;
            }
        }
        true
    }
}

#[derive(Clone, Debug)]
pub struct PrSnap {
    pub id: u64,
    pub matched: u64,
    pub next_idx: u64,
    pub state: ProgressState,
    pub paused: bool,
    pub pending_snapshot: u64,
    pub pending_request_snapshot: u64,
    pub ins_count: usize,
    pub ins_cap: usize,
}

/// The fields of one node the monitors look at, taken before and after every call.
#[derive(Clone, Debug)]
pub struct NodeSnap {
    pub id: u64,
    pub term: u64,
    pub vote: u64,
    pub role: StateRole,
    pub lead: u64,
    pub commit: u64,
    pub applied: u64,
    pub persisted: u64,
    pub limit: u64,
    /// index of log[0] (== last_index + 1 when the log holds no entry)
    pub first: u64,
    pub log: Vec<EK>,
    /// term at first - 1 (snapshot boundary), 0 if unknown
    pub bterm: u64,
    pub last_index: u64,
    pub last_term: u64,
    pub pending_snap: Option<(u64, u64)>,
    pub unstable_off: u64,
    pub unstable_len: usize,
    pub transferee: Option<u64>,
    pub promotable: bool,
    pub pending_conf_index: u64,
    pub usize_: u64,
    pub umax: u64,
    pub election_elapsed: u64,
    pub election_timeout: u64,
    pub pre_vote: bool,
    pub check_quorum: bool,
    pub batch: bool,
    pub conf: ConfKey,
    pub prs: Vec<PrSnap>,
    pub votes: Vec<(u64, bool)>,
    pub msgs_len: usize,
    pub pending_request_snapshot: u64,
    pub prev_hs: (u64, u64, u64),
    pub prev_ss: (u64, StateRole),
    pub commit_since: u64,
    pub max_msg_size: u64,
    pub read_safe: bool,
    pub read_states_len: usize,
    pub has_next: bool,
}

impl NodeSnap {
    pub fn entry(&self, idx: u64) -> Option<&EK> {
        if idx < self.first {
            return None;
        }
        self.log.get((idx - self.first) as usize)
    }
    /// term at idx when the log view knows it (entries, or the snapshot boundary, or index 0)
    pub fn term_at(&self, idx: u64) -> Option<u64> {
        if let Some(e) = self.entry(idx) {
            return Some(e.term);
        }
        if idx + 1 == self.first && (self.bterm != 0 || idx == 0) {
            return Some(self.bterm);
        }
        None
    }
    pub fn pr(&self, id: u64) -> Option<&PrSnap> {
        self.prs.iter().find(|p| p.id == id)
    }
    pub fn is_campaigning(&self) -> bool {
        self.role == StateRole::Candidate || self.role == StateRole::PreCandidate
    }
}

pub fn snap_node(n: &Node) -> NodeSnap {
    let r = &n.raft;
    let l = &r.raft_log;
    let pv = r.verif_private();
    let np = n.verif_private();
    let ents = l.all_entries();
    let last_index = l.last_index();
    let first = match ents.first() {
        Some(e) => e.index,
        None => last_index + 1,
    };
    let bterm = if first > 0 { l.term(first - 1).unwrap_or(0) } else { 0 };
    let leader = r.state == StateRole::Leader;
    let mut prs: Vec<PrSnap> = vec![];
    if leader {
        for (id, p) in r.prs().iter() {
            let d = format!("{:?}", p.ins);
            let cap: usize = dbg_field(&d, "cap").trim().parse().unwrap_or(0);
            prs.push(PrSnap {
                id: *id, matched: p.matched, next_idx: p.next_idx, state: p.state, paused: p.paused,
                pending_snapshot: p.pending_snapshot, pending_request_snapshot: p.pending_request_snapshot,
                ins_count: p.ins.count(), ins_cap: cap,
            });
        }
        prs.sort_by_key(|p| p.id);
    }
    let mut votes: Vec<(u64, bool)> = r.prs().votes().iter().map(|(k, v)| (*k, *v)).collect();
    votes.sort();
    NodeSnap {
        id: r.id,
        term: r.term,
        vote: r.vote,
        role: r.state,
        lead: r.leader_id,
        commit: l.committed,
        applied: l.applied,
        persisted: l.persisted,
        limit: l.max_apply_unpersisted_log_limit,
        first,
        log: ents.iter().map(ek).collect(),
        bterm,
        last_index,
        last_term: l.last_term(),
        pending_snap: l.unstable.snapshot.as_ref().map(|s| (s.get_metadata().index, s.get_metadata().term)),
        unstable_off: l.unstable.offset,
        unstable_len: l.unstable.entries.len(),
        transferee: r.lead_transferee,
        promotable: pv[0] != 0,
        pending_conf_index: r.pending_conf_index,
        usize_: pv[11],
        umax: pv[10],
        election_elapsed: r.election_elapsed as u64,
        election_timeout: pv[6],
        pre_vote: r.pre_vote,
        check_quorum: r.check_quorum,
        batch: pv[3] != 0,
        conf: conf_key(&r.prs().conf().to_conf_state()),
        prs,
        votes,
        msgs_len: r.msgs.len(),
        pending_request_snapshot: r.pending_request_snapshot,
        prev_hs: np.prev_hs,
        prev_ss: (np.prev_leader_id, np.prev_role),
        commit_since: np.commit_since_index,
        max_msg_size: r.max_msg_size,
        read_safe: r.read_only.option == ReadOnlyOption::Safe,
        read_states_len: r.read_states.len(),
        has_next: l.has_next_entries_since(np.commit_since_index),
    }
}

pub fn is_local(t: MessageType) -> bool {
    matches!(t, MessageType::MsgHup | MessageType::MsgBeat | MessageType::MsgUnreachable | MessageType::MsgSnapStatus | MessageType::MsgCheckQuorum)
}

pub fn is_response(t: MessageType) -> bool {
    matches!(
        t,
        MessageType::MsgAppendResponse | MessageType::MsgRequestVoteResponse | MessageType::MsgHeartbeatResponse
            | MessageType::MsgUnreachable | MessageType::MsgRequestPreVoteResponse
    )
}

/// Pre-call observation of the node a call is made on.
pub struct Pre {
    pub snap: NodeSnap,
    /// full state dump, only for steps that must be rejected without effect
    pub dump: Option<String>,
    /// expected error code of such a step (2 = StepLocalMsg, 3 = StepPeerNotFound)
    pub expect_err: u64,
}

/// One entry of the ghost global committed log.
#[derive(Clone, Debug)]
pub struct Cle {
    pub term: u64,
    pub body: Option<Body>,
    /// first reporter and its term at that time (an upper bound of the term the entry was committed in)
    pub by: u64,
    pub at_term: u64,
}

#[derive(Clone, Debug)]
pub struct Window {
    pub leader: usize,
    pub term: u64,
    pub maj: Vec<usize>,
}

pub struct MonitorSet {
    pub f: Flags,
    pub inject: String,
    pub ignore: Vec<String>,
    pub strict: bool,
    pub violation: Option<String>,
    pub halt: bool,
    pub notes: BTreeMap<String, u64>,
    pub ignored: BTreeMap<String, u64>,
    pub calls: u64,
    pub ids: Vec<u64>,
    pub snaps: Vec<Option<NodeSnap>>,
    // shared ghost: global committed log
    pub cl: BTreeMap<u64, Cle>,
    pub own: Vec<BTreeMap<u64, (u64, Option<Body>)>>,
    pub max_commit_ever: u64,
    // election safety
    pub leader_of: BTreeMap<u64, u64>,
    // commit rule
    pub max_leader_commit: u64,
    // persist before send
    pub promised_term: Vec<u64>,
    pub granted: BTreeMap<(u64, u64), u64>,
    // ready contract
    pub next_apply: Vec<u64>,
    pub handed: Vec<BTreeMap<u64, u64>>,
    pub last_has_ready: Vec<Option<bool>>,
    // read index: ctx -> (node id, bar, ambiguous)
    pub reads: BTreeMap<Vec<u8>, (u64, u64, bool)>,
    // conf change
    pub lead_start: Vec<u64>,
    pub cur_apply: Vec<u64>,
    pub conf_after: BTreeMap<u64, ConfKey>,
    // transfer: ticks seen while the same transfer is pending
    pub transfer_ticks: Vec<u64>,
    // prevote scenario window
    pub window: Option<Window>,
    pub inject_ctr: u64,
    pub panics_seen: u64,
    /// length of the simulator trace when the run was halted, and the cluster state then
    pub halt_at: usize,
    pub fail_state: Vec<String>,
    pub cover: BTreeMap<&'static str, u64>,
}

impl MonitorSet {
    pub fn new(f: Flags, inject: &str, ignore: &[String], strict: bool) -> MonitorSet {
        MonitorSet {
            f, inject: inject.to_string(), ignore: ignore.to_vec(), strict, violation: None, halt: false,
            notes: BTreeMap::new(), ignored: BTreeMap::new(), calls: 0, ids: vec![], snaps: vec![],
            cl: BTreeMap::new(), own: vec![], max_commit_ever: 0, leader_of: BTreeMap::new(), max_leader_commit: 0,
            promised_term: vec![], granted: BTreeMap::new(), next_apply: vec![], handed: vec![], last_has_ready: vec![],
            reads: BTreeMap::new(), lead_start: vec![], cur_apply: vec![], conf_after: BTreeMap::new(),
            transfer_ticks: vec![], window: None, inject_ctr: 0, panics_seen: 0, halt_at: 0, fail_state: vec![], cover: BTreeMap::new(),
        }
    }

    pub fn wants_halt(&self) -> bool {
        self.halt
    }

    pub fn inj(&self, name: &str) -> bool {
        self.inject == name
    }

    /// coverage counter (printed as COVER lines): how often a check was actually exercised
    pub fn cov(&mut self, k: &'static str) {
        *self.cover.entry(k).or_insert(0) += 1;
    }

    pub fn note(&mut self, k: &str) {
        *self.notes.entry(k.to_string()).or_insert(0) += 1;
    }

    /// Records a violation: `<kind>: <text>`.  Ignored signatures are only counted.
    pub fn fail(&mut self, kind: &str, text: String) {
        let msg = format!("{}: {}", kind, text);
        let norm = msg.replace(' ', "_");
        for ig in &self.ignore {
            if !ig.is_empty() && (norm.contains(ig.as_str()) || msg.contains(ig.as_str())) {
                *self.ignored.entry(ig.clone()).or_insert(0) += 1;
                if !kind.starts_with("panic") {
                    // the ghost state is no longer meaningful for this run: abandon it
                    // (after a panic the node is dead and the run goes on with the others)
                    self.halt = true;
                }
                return;
            }
        }
        if self.violation.is_none() {
            self.violation = Some(msg);
            self.halt = true;
        }
    }

    fn ensure(&mut self, nn: usize) {
        while self.snaps.len() < nn {
            self.snaps.push(None);
            self.own.push(BTreeMap::new());
            self.promised_term.push(0);
            self.next_apply.push(1);
            self.handed.push(BTreeMap::new());
            self.last_has_ready.push(None);
            self.lead_start.push(0);
            self.cur_apply.push(0);
            self.transfer_ticks.push(0);
        }
    }

    pub fn idx_of(&self, id: u64) -> Option<usize> {
        self.ids.iter().position(|x| *x == id)
    }

    // -----------------------------------------------------------------------
    // hooks called by the simulator

    pub fn on_boot(&mut self, sim: &Sim) {
        self.ids = sim.nodes.iter().map(|n| n.id).collect();
        self.ensure(sim.nodes.len());
        if let Some(n) = sim.nodes.first() {
            let cs = n.durable.initial_state().unwrap().conf_state;
            self.conf_after.insert(0, conf_key(&cs));
        }
        if self.inj("election_safety") {
            // ghost corruption: some other node is recorded as the leader of the first terms
            for t in 1..4 {
                self.leader_of.insert(t, 77);
            }
        }
    }

    pub fn pre(&mut self, node: &Node, c: &Call) -> Pre {
        let snap = snap_node(node);
        let mut dump = None;
        let mut expect_err = 0;
        if let Call::Step(m) = c {
            let t = m.get_msg_type();
            if is_local(t) {
                expect_err = 2;
            } else if is_response(t) && node.raft.prs().get(m.from).is_none() {
                expect_err = 3;
            }
            if expect_err != 0 && self.f.no_panic {
                let mut w = W::default();
                enc_rawnode(&mut w, node);
                dump = Some(w.0);
            }
        }
        Pre { snap, dump, expect_err }
    }

    pub fn on_restart(&mut self, sim: &Sim, i: usize) {
        self.ensure(sim.nodes.len());
        if self.ids.len() < sim.nodes.len() {
            self.ids = sim.nodes.iter().map(|n| n.id).collect();
        }
        let d = match sim.nodes[i].driver.as_ref() {
            Some(d) => d,
            None => return,
        };
        let post = snap_node(&d.node);
        self.next_apply[i] = sim.nodes[i].applied + 1;
        self.handed[i].clear();
        self.last_has_ready[i] = None;
        self.transfer_ticks[i] = 0;
        self.lead_start[i] = 0;
        self.restart_checks(sim, i, &post);
        self.state_checks(sim, i, None, &post);
        self.snaps[i] = Some(post);
    }

    pub fn on_start_failed(&mut self, sim: &Sim, i: usize, msg: &str) {
        if self.f.no_panic {
            let head: String = msg.chars().take(70).collect();
            self.fail(&format!("panic:{}", head), format!("node {} could not be restarted from its durable image", sim.nodes[i].id));
        } else {
            self.note("restart-failed");
        }
    }

    /// The oldest written Ready of node i became durable.
    pub fn on_fsync(&mut self, _sim: &Sim, _i: usize) {}

    pub fn on_crash(&mut self, _sim: &Sim, i: usize) {
        self.ensure(i + 1);
        self.snaps[i] = None;
        self.last_has_ready[i] = None;
        if let Some(w) = &self.window {
            if w.maj.contains(&i) {
                // a majority member died (panic): the window's premise no longer holds
                self.window = None;
            }
        }
    }

    pub fn after(&mut self, sim: &Sim, i: usize, c: &Call, o: &CallOutcome, pre: Pre) {
        self.calls += 1;
        self.ensure(sim.nodes.len());
        if let Some(p) = &o.panicked {
            self.panics_seen += 1;
            if self.f.no_panic {
                let (m, loc) = match p.rfind(" @ ") {
                    Some(k) => (&p[..k], &p[k + 3..]),
                    None => (p.as_str(), ""),
                };
                let flat = m.replace('\n', " ");
                let first_line = m.lines().next().unwrap_or("");
                let first_line = first_line.split(", raft_id").next().unwrap_or(first_line);
                let head: String = first_line.chars().take(90).collect();
                // stable format: panic:<message> @ <file>:<line> [<source text at that line as one token>]
                let kind = format!("panic:{} @ {} [{}]", head, loc, source_token(loc));
                self.fail(&kind, format!("node {} (role {:?}, term {}) panicked in {}: {}", pre.snap.id, pre.snap.role, pre.snap.term, call_brief(c), flat));
            }
            return;
        }
        let d = match sim.nodes[i].driver.as_ref() {
            Some(d) => d,
            None => return,
        };
        let post = snap_node(&d.node);
        let new_msgs: Vec<Message> = match c {
            Call::Ready => vec![],
            Call::Advance | Call::AdvanceAppend => match &o.light {
                Some(l) => l.messages().iter().skip(pre.snap.msgs_len).cloned().collect(),
                None => vec![],
            },
            _ => d.node.raft.msgs.iter().skip(pre.snap.msgs_len).cloned().collect(),
        };
        if self.f.no_panic {
            self.m_no_panic(sim, i, c, o, &pre, &post, &d.node);
        }
        self.local_checks(sim, i, c, o, &pre.snap, &post, &new_msgs, &d.node);
        self.state_checks(sim, i, Some((&pre.snap, c)), &post);
        self.snaps[i] = Some(post);
    }
}

/// One line per node: the cluster state when a run is halted.
pub fn describe(sim: &Sim) -> Vec<String> {
    let mut out = vec![];
    for n in &sim.nodes {
        let hs = n.durable.initial_state().map(|s| s.hard_state).unwrap_or_default();
        let st = format!("durable(term {} vote {} commit {} first {} last {}) live-store last {} unsynced Readies {} app_applied {}", hs.term, hs.vote, hs.commit, n.durable.first_index().unwrap_or(0), n.durable.last_index().unwrap_or(0), n.store.last_index().unwrap_or(0), n.unsynced.len(), n.applied);
        match n.driver.as_ref() {
            None => out.push(format!("node {} DOWN {}", n.id, st)),
            Some(d) => {
                let r = &d.node.raft;
                let l = &r.raft_log;
                let c = conf_key(&r.prs().conf().to_conf_state());
                out.push(format!(
                    "node {} {:?} term {} vote {} lead {} commit {} applied {} persisted {} last {} unstable@{}+{} transferee {:?} conf v{:?} o{:?} l{:?} ln{:?} {}",
                    n.id, r.state, r.term, r.vote, r.leader_id, l.committed, l.applied, l.persisted, l.last_index(), l.unstable.offset,
                    l.unstable.entries.len(), r.lead_transferee, c.voters, c.outgoing, c.learners, c.learners_next, st
                ));
            }
        }
    }
    out.push(format!("network: {} messages in flight", sim.net.len()));
    out
}

/// The source text at `file:line` squeezed into one identifier-like token ("?" if unreadable).
pub fn source_token(loc: &str) -> String {
    let mut it = loc.rsplitn(2, ':');
    let line: usize = it.next().and_then(|x| x.parse().ok()).unwrap_or(0);
    let file = it.next().unwrap_or("");
    let text = match std::fs::read_to_string(file) {
        Ok(t) => t,
        Err(_) => return "?".to_string(),
    };
    let lines: Vec<&str> = text.lines().collect();
    if line == 0 || line > lines.len() {
        return "?".to_string();
    }
    // a multi-line expression: the panic location is its first line; take up to three lines
    let hi = (line + 2).min(lines.len());
    let joined = lines[line - 1..hi].join(" ");
    let stmt = joined.split(';').next().unwrap_or("");
    let mut out = String::new();
    let mut last_us = true;
    for ch in stmt.chars() {
        if ch.is_ascii_alphanumeric() {
            out.push(ch);
            last_us = false;
        } else if !last_us {
            out.push('_');
            last_us = true;
        }
    }
    let out = out.trim_matches('_').to_string();
    out.chars().take(60).collect()
}

pub fn call_brief(c: &Call) -> String {
    match c {
        Call::Step(m) => format!("Step({:?} from {} term {})", m.get_msg_type(), m.from, m.term),
        other => {
            let s = format!("{:?}", other);
            s.chars().take(60).collect()
        }
    }
}

// ---------------------------------------------------------------------------
// command line

pub fn main(args: &[String]) {
    let prop = arg(args, "--prop", "all");
    let runs: u64 = arg(args, "--runs", "50").parse().unwrap();
    let steps: usize = arg(args, "--steps", "500").parse().unwrap();
    let seed: u64 = arg(args, "--seed", "1").parse().unwrap();
    let only: Option<u64> = arg(args, "--run", "").parse().ok();
    let inject = arg(args, "--inject", "");
    let ignore_s = arg(args, "--ignore", "");
    let ignore: Vec<String> = ignore_s.split(',').filter(|s| !s.is_empty()).map(|s| s.to_string()).collect();
    let strict = args.iter().any(|a| a == "--strict");
    let verbose = args.iter().any(|a| a == "--verbose");
    // By default the simulated application never calls campaign() on a node that is not a voter of
    // its own configuration (the library does not guard against it: hup() lacks the promotable
    // check); --learner-campaign lifts the restriction.
    let learner_campaign = args.iter().any(|a| a == "--learner-campaign");
    let vco = !learner_campaign;
    let flags = match Flags::of(&prop) {
        Some(f) => f,
        None => {
            eprintln!("unknown property monitor {}; known: all {}", prop, PROPS.join(" "));
            std::process::exit(2);
        }
    };
    let ks: Vec<u64> = match only {
        Some(k) => vec![k],
        None => (0..runs).collect(),
    };
    let mut calls = 0u64;
    let mut notes: BTreeMap<String, u64> = BTreeMap::new();
    let mut ignored: BTreeMap<String, u64> = BTreeMap::new();
    let mut cover: BTreeMap<&'static str, u64> = BTreeMap::new();
    for k in &ks {
        let mut sim = Sim::new(seed.wrapping_mul(1_000_003).wrapping_add(*k), Recorder::disabled());
        sim.keep_trace = true;
        sim.quiet = true;
        sim.extra_steps = flags.no_panic;
        sim.force_sim_snap = true;
        sim.voter_campaign_only = vco;
        sim.mon = Some(Box::new(MonitorSet::new(flags, &inject, &ignore, strict)));
        let scen = flags.prevote && ((prop == "prevote" && k % 2 == 1) || (prop != "prevote" && k % 5 == 4));
        if scen {
            scenario::prevote_scenario(&mut sim, steps);
        } else {
            sim.run(steps);
            if flags.progress && !sim.halted {
                scenario::fair_suffix(&mut sim);
            }
        }
        calls += sim.rec.calls;
        let m = sim.mon.take().unwrap();
        for (a, b) in &m.notes {
            *notes.entry(a.clone()).or_insert(0) += b;
        }
        for (a, b) in &m.ignored {
            *ignored.entry(a.clone()).or_insert(0) += b;
        }
        for (a, b) in &m.cover {
            *cover.entry(a).or_insert(0) += b;
        }
        if let Some(v) = &m.violation {
            let mut line = format!("FAIL --prop {} --seed {} --run {} --steps {}", prop, seed, k, steps);
            if !inject.is_empty() {
                line.push_str(&format!(" --inject {}", inject));
            }
            if !ignore.is_empty() {
                // one token: spaces become '_' (the matcher accepts both forms)
                line.push_str(&format!(" --ignore {}", ignore.join(",").replace(' ', "_")));
            }
            if strict {
                line.push_str(" --strict");
            }
            if learner_campaign {
                line.push_str(" --learner-campaign");
            }
            println!("{}", line);
            println!("REASON {}", v);
            let n = m.halt_at.min(sim.trace.len());
            let keep = 78usize.saturating_sub(m.fail_state.len());
            for l in &sim.trace[n.saturating_sub(keep)..n] {
                let l: String = if verbose { l.clone() } else { l.chars().take(400).collect() };
                println!("  {}", l);
            }
            for l in &m.fail_state {
                println!("  # {}", l);
            }
            return;
        }
    }
    println!("MONITOR-OK runs={} calls={}", ks.len(), calls);
    for (a, b) in notes {
        println!("NOTE {} {}", b, a);
    }
    for (a, b) in ignored {
        println!("IGNORED {} {}", b, a);
    }
    for (a, b) in cover {
        println!("COVER {} {}", b, a);
    }
}
