//! Cluster simulator: RawNode<MemStorage> nodes driven by a simulated
//! application that follows the documented Ready/advance contract, with a
//! lossy/duplicating/reordering network, crashes and restarts.  Every API call
//! goes through `Driver::exec`, which records the pointwise case (pre-state,
//! call) and the implementation's answer.
use crate::node::*;
use crate::util::*;
use protobuf::Message as PbMessage;
use raft::eraftpb::{ConfChange, ConfChangeType, ConfChangeV2, ConfState, Entry, EntryType, Message, MessageType, Snapshot};
use raft::storage::MemStorage;
use raft::{Config, RawNode, ReadOnlyOption, StateRole, Storage};
use std::collections::{BTreeMap, VecDeque};

pub struct SimNode {
    pub id: u64,
    pub cfg: Config,
    pub store: MemStorage,
    pub sstore: SimStorage,
    pub driver: Option<Driver>,
    /// applied index of the simulated state machine (durable together with the store)
    pub applied: u64,
    /// last index reported through advance_apply_to / advance
    pub reported: u64,
    /// Readies written with advance_append_async, not yet reported persisted: (number, persisted messages)
    pub async_pending: VecDeque<(u64, Vec<Message>)>,
    /// committed entries handed out and not yet applied
    pub to_apply: VecDeque<Entry>,
}

pub struct Recorder {
    pub shards: Vec<Shard>,
    pub rr: usize,
    pub calls: u64,
    pub panics: BTreeMap<String, u64>,
    pub hist: BTreeMap<&'static str, u64>,
    pub enabled: bool,
}

impl Recorder {
    pub fn put(&mut self, o: &CallOutcome, meta: &str) {
        self.calls += 1;
        if let Some(m) = &o.panicked {
            *self.panics.entry(m.split(" @ ").last().unwrap_or("?").to_string()).or_insert(0) += 1;
        }
        if !self.enabled {
            return;
        }
        let k = self.rr % self.shards.len();
        self.rr += 1;
        let sh = &mut self.shards[k];
        use std::io::Write;
        sh.cases.write_all(o.case_line.as_bytes()).unwrap();
        sh.cases.write_all(b"\n").unwrap();
        sh.imp.write_all(o.impl_line.as_bytes()).unwrap();
        sh.imp.write_all(b"\n").unwrap();
        if let Some(m) = sh.meta.as_mut() {
            m.write_all(meta.as_bytes()).unwrap();
            m.write_all(b"\n").unwrap();
        }
        sh.n += 1;
    }
}

pub struct Sim {
    pub nodes: Vec<SimNode>,
    pub net: Vec<Message>,
    pub rng: Rng,
    pub rec: Recorder,
    pub next_payload: u64,
    pub max_log: u64,
    pub trace: Vec<String>,
    pub keep_trace: bool,
    pub trace_tail: usize,
    pub run_id: u64,
    pub trace_len: u64,
    pub pt: crate::ptrace::PTrace,
}

fn logger() -> slog::Logger {
    slog::Logger::root(slog::Discard, slog::o!())
}

pub fn call_kind(c: &Call) -> &'static str {
    match c {
        Call::Tick => "tick",
        Call::Step(_) => "step",
        Call::Campaign => "campaign",
        Call::Propose(..) => "propose",
        Call::ProposeConfChange(..) => "propose_conf_change",
        Call::ApplyConfChange(_) => "apply_conf_change",
        Call::Ready => "ready",
        Call::HasReady => "has_ready",
        Call::AdvanceAppend => "advance_append",
        Call::Advance => "advance",
        Call::AdvanceAppendAsync => "advance_append_async",
        Call::OnPersistReady(_) => "on_persist_ready",
        Call::AdvanceApplyTo(_) => "advance_apply_to",
        Call::AdvanceApply => "advance_apply",
        Call::ReportUnreachable(_) => "report_unreachable",
        Call::ReportSnapshot(..) => "report_snapshot",
        Call::RequestSnapshot => "request_snapshot",
        Call::TransferLeader(_) => "transfer_leader",
        Call::ReadIndex(_) => "read_index",
        Call::Ping => "ping",
        _ => "knob",
    }
}

impl Sim {
    pub fn new(seed: u64, rec: Recorder) -> Sim {
        Sim { nodes: vec![], net: vec![], rng: Rng::new(seed), rec, next_payload: 1, max_log: 12, trace: vec![], keep_trace: false, trace_tail: 60, run_id: seed, trace_len: 0, pt: Default::default() }
    }

    /// Random cluster shape and per-node configuration.
    pub fn boot(&mut self) {
        let rng = &mut self.rng;
        let big = rng.chance(1, 4);
        let nv = 1 + rng.below(if big { 5 } else { 3 });
        let nl = if rng.chance(1, 4) { 1 + rng.below(2) } else { 0 };
        let voters: Vec<u64> = (1..=nv).collect();
        let learners: Vec<u64> = (nv + 1..=nv + nl).collect();
        let pre_vote = rng.chance(1, 2);
        let check_quorum = rng.chance(1, 2);
        let batch = rng.chance(1, 4);
        let lease = check_quorum && rng.chance(1, 4);
        let sim_snap = !rng.chance(1, 8);
        for id in voters.iter().chain(learners.iter()) {
            let mut cfg = Config::new(*id);
            cfg.election_tick = 5 + rng.below(4) as usize;
            cfg.heartbeat_tick = 1 + rng.below(2) as usize;
            cfg.max_size_per_msg = *rng.pick(&[0u64, 40, 200, u64::MAX]);
            cfg.max_inflight_msgs = *rng.pick(&[1usize, 2, 3, 8, 256]);
            cfg.check_quorum = check_quorum;
            cfg.pre_vote = pre_vote;
            cfg.batch_append = batch;
            cfg.skip_bcast_commit = rng.chance(1, 5);
            cfg.read_only_option = if lease { ReadOnlyOption::LeaseBased } else { ReadOnlyOption::Safe };
            cfg.max_uncommitted_size = *rng.pick(&[u64::MAX, u64::MAX, 64, 300]);
            if cfg.max_uncommitted_size < cfg.max_size_per_msg {
                cfg.max_size_per_msg = 40;
            }
            cfg.max_committed_size_per_ready = *rng.pick(&[u64::MAX, u64::MAX, 30, 100]);
            cfg.max_apply_unpersisted_log_limit = *rng.pick(&[0u64, 0, 1, 3]);
            cfg.priority = if rng.chance(1, 6) { rng.below(3) as i64 } else { 0 };
            cfg.disable_proposal_forwarding = rng.chance(1, 8);
            let store = MemStorage::new_with_conf_state((voters.clone(), learners.clone()));
            let sstore = SimStorage::new(store.clone(), sim_snap);
            self.nodes.push(SimNode { id: *id, cfg, store, sstore, driver: None, applied: 0, reported: 0, async_pending: VecDeque::new(), to_apply: VecDeque::new() });
        }
        for i in 0..self.nodes.len() {
            self.start(i);
        }
        self.pt.inc = voters.clone();
        self.pt.enabled = true;
    }

    pub fn start(&mut self, i: usize) {
        let n = &mut self.nodes[i];
        let mut cfg = n.cfg.clone();
        cfg.applied = n.applied;
        raft::verif_raft::set_timeout_seed(Some(self.rng.next() | 1));
        n.sstore.set_applied(n.applied);
        let r = catch(|| RawNode::new(&cfg, n.sstore.clone(), &logger()));
        let _ = raft::verif_raft::take_draws();
        match r {
            Ok(Ok(node)) => {
                let (t, v) = (node.raft.term, node.raft.vote);
                n.driver = Some(Driver { node, last_rd: None });
                n.reported = n.applied;
                let id = n.id;
                self.pt.restart(id, t, v);
                n.async_pending.clear();
                n.to_apply.clear();
            }
            Ok(Err(_)) | Err(_) => {
                *self.rec.panics.entry("RawNode::new failed".to_string()).or_insert(0) += 1;
            }
        }
    }

    fn idx_of(&self, id: u64) -> Option<usize> {
        self.nodes.iter().position(|n| n.id == id)
    }

    pub fn call(&mut self, i: usize, c: Call) -> Option<CallOutcome> {
        let d = self.nodes[i].driver.as_mut()?;
        let role = d.node.raft.state;
        let ppre = (d.node.raft.term, d.node.raft.vote, d.node.raft.state);
        let o = d.exec(&c);
        let ppost = (d.node.raft.term, d.node.raft.vote, d.node.raft.state);
        let gfrom = match &c {
            Call::Step(m) if m.get_msg_type() == MessageType::MsgRequestVoteResponse && !m.reject && m.term == ppre.0 => Some(m.from),
            _ => None,
        };
        let nid = self.nodes[i].id;
        if o.panicked.is_none() {
            self.pt.call(nid, ppre, ppost, gfrom);
            if let Call::ApplyConfChange(_) = &c {
                if o.conf_state.is_some() {
                    self.pt.enabled = false;
                }
            }
            if let (Call::Ready, Some(rv)) = (&c, o.ready.as_ref()) {
                if rv.hs.is_some() {
                    self.pt.ready_hs(nid);
                }
            }
        } else {
            self.pt.crash(nid);
        }
        let meta = format!("{} {:?} {} run={} ev={}", call_kind(&c), role,
            if let Call::Step(m) = &c { format!("{:?}", m.get_msg_type()) } else { "-".to_string() },
            self.run_id, self.trace_len);
        self.trace_len += 1;
        *self.rec.hist.entry(call_kind(&c)).or_insert(0) += 1;
        if self.keep_trace {
            self.trace.push(format!("{} {:?}", self.nodes[i].id, c));
        }
        self.rec.put(&o, &meta);
        if let Some(p) = &o.panicked {
            // a panicked node is dead: the application would crash
            if self.keep_trace {
                let n = self.trace.len();
                println!("PANIC on node {}: {}", self.nodes[i].id, p);
                for l in &self.trace[n.saturating_sub(self.trace_tail)..] {
                    println!("  {}", l);
                }
            }
            self.nodes[i].driver = None;
            return None;
        }
        Some(o)
    }

    fn send(&mut self, msgs: Vec<Message>) {
        for m in msgs {
            self.pt.send(&m);
            if self.net.len() < 400 {
                self.net.push(m);
            }
        }
    }

    /// Applies handed-out committed entries to the simulated state machine: conf
    /// changes go through apply_conf_change.  `report` also tells raft (advance_apply_to);
    /// that is not done between ready() and advance*().
    fn apply_entries(&mut self, i: usize, upto_all: bool, report: bool) {
        let limit = if upto_all { usize::MAX } else { 1 + self.rng.below(3) as usize };
        let mut k = 0;
        while k < limit {
            let e = match self.nodes[i].to_apply.pop_front() {
                Some(e) => e,
                None => break,
            };
            k += 1;
            let cc = match e.get_entry_type() {
                EntryType::EntryNormal => None,
                EntryType::EntryConfChange => {
                    let mut c = ConfChange::default();
                    c.merge_from_bytes(&e.data).ok().map(|_| raft_proto::ConfChangeI::into_v2(c))
                }
                EntryType::EntryConfChangeV2 => {
                    let mut c = ConfChangeV2::default();
                    c.merge_from_bytes(&e.data).ok().map(|_| c)
                }
            };
            if let Some(cc) = cc {
                if let Some(o) = self.call(i, Call::ApplyConfChange(cc)) {
                    if let Some(cs) = o.conf_state {
                        self.nodes[i].store.wl().set_conf_state(cs);
                    }
                } else {
                    return;
                }
            }
            if e.index > self.nodes[i].applied {
                self.nodes[i].applied = e.index;
                self.nodes[i].sstore.set_applied(e.index);
            }
        }
        if report {
            self.report_applied(i);
        }
    }

    fn report_applied(&mut self, i: usize) {
        if self.nodes[i].driver.is_some() && self.nodes[i].applied > self.nodes[i].reported {
            let a = self.nodes[i].applied;
            self.nodes[i].reported = a;
            self.call(i, Call::AdvanceApplyTo(a));
        }
    }

    fn write_ready(&mut self, i: usize, rv: &ReadyView) {
        let n = &mut self.nodes[i];
        let mut st = n.store.wl();
        if rv.snapshot.get_metadata().index != 0 {
            let _ = st.apply_snapshot(rv.snapshot.clone());
            n.applied = rv.snapshot.get_metadata().index;
            n.sstore.set_applied(n.applied);
            n.to_apply.clear();
        }
        if !rv.entries.is_empty() {
            let _ = catch(|| st.append(&rv.entries));
        }
        if let Some((t, v, c)) = rv.hs {
            let hs = st.mut_hard_state();
            hs.term = t;
            hs.vote = v;
            hs.commit = c;
            self.pt.fsync(n.id, t, v);
        }
    }

    /// One synchronous or asynchronous Ready round on node i.
    pub fn ready_round(&mut self, i: usize) {
        if self.nodes[i].driver.is_none() || self.nodes[i].driver.as_ref().unwrap().last_rd.is_some() {
            return;
        }
        let has = match self.call(i, Call::HasReady) {
            Some(o) => o.flag,
            None => return,
        };
        if !has {
            return;
        }
        let o = match self.call(i, Call::Ready) {
            Some(o) => o,
            None => return,
        };
        let rv = o.ready.unwrap();
        self.send(rv.messages.clone());
        self.write_ready(i, &rv);
        for e in &rv.committed_entries {
            self.nodes[i].to_apply.push_back(e.clone());
        }
        let mode = self.rng.below(10);
        if mode < 5 {
            // sync: handle committed entries, then advance (which reports applied itself)
            self.send(rv.persisted_messages.clone());
            self.apply_entries(i, true, false);
            if self.nodes[i].driver.is_none() {
                return;
            }
            if let Some(o) = self.call(i, Call::Advance) {
                self.nodes[i].reported = self.nodes[i].reported.max(self.nodes[i].applied);
                self.after_light(i, o);
            }
        } else if mode < 7 {
            self.send(rv.persisted_messages.clone());
            if let Some(o) = self.call(i, Call::AdvanceAppend) {
                self.after_light(i, o);
            }
            if self.nodes[i].driver.is_some() {
                let lazy = self.rng.chance(1, 2);
                self.apply_entries(i, !lazy, true);
            }
        } else {
            self.nodes[i].async_pending.push_back((rv.number, rv.persisted_messages.clone()));
            self.call(i, Call::AdvanceAppendAsync);
            if self.nodes[i].driver.is_some() && self.rng.chance(1, 2) {
                self.apply_entries(i, false, true);
            }
        }
    }

    fn after_light(&mut self, i: usize, o: CallOutcome) {
        if let Some(l) = o.light {
            if let Some(c) = l.commit_index() {
                self.nodes[i].store.wl().mut_hard_state().commit = c;
            }
            self.send(l.messages().to_vec());
            for e in l.committed_entries() {
                self.nodes[i].to_apply.push_back(e.clone());
            }
            self.apply_entries(i, true, true);
        }
    }

    /// Reports the oldest (or several) async Readies persisted, then releases their messages.
    pub fn persist_async(&mut self, i: usize) {
        if self.nodes[i].driver.is_none() || self.nodes[i].async_pending.is_empty() {
            return;
        }
        let k = 1 + self.rng.below(self.nodes[i].async_pending.len() as u64) as usize;
        let mut msgs = vec![];
        let mut num = 0;
        for _ in 0..k {
            let (n, m) = self.nodes[i].async_pending.pop_front().unwrap();
            num = n;
            msgs.extend(m);
        }
        if self.call(i, Call::OnPersistReady(num)).is_some() {
            self.send(msgs);
        }
    }

    fn deliver(&mut self) {
        if self.net.is_empty() {
            return;
        }
        let k = self.rng.below(self.net.len().min(12) as u64) as usize;
        let m = if self.rng.chance(9, 10) { self.net.remove(k) } else { self.net[k].clone() };
        if let Some(i) = self.idx_of(m.to) {
            self.call(i, Call::Step(m));
        }
    }

    fn leader(&self) -> Option<usize> {
        self.nodes.iter().position(|n| n.driver.as_ref().map_or(false, |d| d.node.raft.state == StateRole::Leader))
    }

    fn payload(&mut self) -> Vec<u8> {
        let len = *self.rng.pick(&[0usize, 1, 3, 8, 20, 45]);
        self.next_payload += 1;
        (0..len).map(|k| ((self.next_payload as usize + k) % 251) as u8).collect()
    }

    fn random_cc(&mut self) -> CcKind {
        let max_id = self.nodes.len() as u64 + 2;
        let n = 1 + self.rng.below(3);
        let changes: Vec<(u64, u64)> = (0..n).map(|_| (self.rng.below(3), self.rng.below(max_id + 1))).collect();
        match self.rng.below(10) {
            0 => CcKind::Raw(1 + self.rng.below(2), vec![0xff, 0xff, 0x01]),
            1..=3 => {
                let mut cc = ConfChange::default();
                cc.set_change_type(match changes[0].0 {
                    0 => ConfChangeType::AddNode,
                    1 => ConfChangeType::RemoveNode,
                    _ => ConfChangeType::AddLearnerNode,
                });
                cc.node_id = changes[0].1;
                CcKind::V1(cc)
            }
            4 => CcKind::V2(cc_v2(0, &[])),
            _ => CcKind::V2(cc_v2(self.rng.below(3), &changes)),
        }
    }

    fn compact(&mut self, i: usize) {
        let n = &mut self.nodes[i];
        let first = n.store.first_index().unwrap();
        if n.applied > first {
            let to = first + 1 + self.rng.below(n.applied - first);
            // the snapshot point a leader would ship must be the compaction point's commit
            let _ = catch(|| n.store.wl().compact(to));
        }
    }

    pub fn step_random(&mut self) {
        let nn = self.nodes.len();
        let i = self.rng.below(nn as u64) as usize;
        let r = self.rng.below(1000);
        match r {
            0..=219 => {
                self.call(i, Call::Tick);
            }
            220..=519 => self.deliver(),
            520..=719 => self.ready_round(i),
            720..=769 => {
                self.persist_async(i);
                if self.nodes[i].driver.as_ref().map_or(false, |d| d.last_rd.is_none()) {
                    self.apply_entries(i, false, true);
                }
            }
            770..=839 => {
                let t = self.leader().filter(|_| !self.rng.chance(1, 5)).unwrap_or(i);
                let p = self.payload();
                let ctx = if self.rng.chance(1, 5) { vec![7] } else { vec![] };
                self.call(t, Call::Propose(ctx, p));
            }
            840..=864 => {
                let t = self.leader().filter(|_| !self.rng.chance(1, 4)).unwrap_or(i);
                let cc = self.random_cc();
                self.call(t, Call::ProposeConfChange(vec![], cc));
            }
            865..=884 => {
                let ctx = vec![(self.next_payload % 250) as u8, 1, 2];
                self.next_payload += 1;
                self.call(i, Call::ReadIndex(ctx));
            }
            885..=899 => {
                let to = 1 + self.rng.below(nn as u64 + 1);
                self.call(i, Call::TransferLeader(to));
            }
            900..=909 => {
                self.call(i, Call::Campaign);
            }
            910..=929 => self.compact(i),
            930..=939 => {
                if !self.net.is_empty() {
                    let k = self.rng.below(self.net.len() as u64) as usize;
                    self.net.remove(k);
                }
            }
            940..=949 => {
                let id = 1 + self.rng.below(nn as u64 + 1);
                if self.rng.chance(1, 2) {
                    self.call(i, Call::ReportUnreachable(id));
                } else {
                    let f = self.rng.chance(1, 2);
                    self.call(i, Call::ReportSnapshot(id, f));
                }
            }
            950..=957 => {
                self.call(i, Call::RequestSnapshot);
            }
            958..=969 => {
                // crash (volatile state lost; everything written to the store is durable)
                if self.nodes[i].driver.is_some() && self.nodes.iter().filter(|n| n.driver.is_some()).count() > 1 {
                    self.nodes[i].driver = None;
                    let nid = self.nodes[i].id;
                    self.pt.crash(nid);
                    self.nodes[i].async_pending.clear();
                    self.nodes[i].to_apply.clear();
                }
            }
            970..=984 => {
                if self.nodes[i].driver.is_none() {
                    self.start(i);
                }
            }
            _ => {
                let c = match self.rng.below(9) {
                    0 => Call::SetPriority(self.rng.below(3) as i64 - 1),
                    1 => Call::SetApplyLimit(*self.rng.pick(&[0u64, 1, 3, 5])),
                    2 => Call::AdjustInflight(1 + self.rng.below(nn as u64 + 1), self.rng.below(5)),
                    3 => Call::SetCheckQuorum(self.rng.chance(1, 2)),
                    4 => Call::EnableGroupCommit(self.rng.chance(1, 2)),
                    5 => Call::AssignCommitGroups((1..=nn as u64).map(|k| (k, 1 + self.rng.below(2))).collect()),
                    6 => Call::SkipBcastCommit(self.rng.chance(1, 2)),
                    7 => Call::Ping,
                    _ => Call::MaybeFreeInflight,
                };
                self.call(i, c);
            }
        }
    }

    /// A healthy phase: tick everybody, deliver everything, run ready rounds, so that
    /// elections complete and logs grow.
    pub fn healthy_phase(&mut self, rounds: usize) {
        for _ in 0..rounds {
            for i in 0..self.nodes.len() {
                self.call(i, Call::Tick);
            }
            for _ in 0..3 {
                for i in 0..self.nodes.len() {
                    self.ready_round(i);
                    self.persist_async(i);
                    self.apply_entries(i, true, true);
                }
                let msgs = std::mem::take(&mut self.net);
                for m in msgs {
                    if let Some(i) = self.idx_of(m.to) {
                        self.call(i, Call::Step(m));
                    }
                }
            }
            if self.rng.chance(1, 3) {
                if let Some(l) = self.leader() {
                    let p = self.payload();
                    self.call(l, Call::Propose(vec![], p));
                }
            }
        }
    }

    pub fn run(&mut self, steps: usize) {
        self.boot();
        let mut done = 0;
        while done < steps {
            if self.rng.chance(1, 3) {
                let r = 2 + self.rng.below(12) as usize;
                self.healthy_phase(r);
                done += r * 4;
            } else {
                let k = 10 + self.rng.below(60) as usize;
                for _ in 0..k {
                    self.step_random();
                }
                done += k;
            }
            // keep logs short so that state dumps stay small
            for i in 0..self.nodes.len() {
                let n = &self.nodes[i];
                let first = n.store.first_index().unwrap();
                if n.applied > first + self.max_log {
                    self.compact(i);
                }
            }
        }
    }
}

pub fn unused(_: &Snapshot, _: &ConfState, _: &Entry, _: MessageType) {}
