//! Cluster simulator: RawNode<MemStorage> nodes driven by a simulated
//! application that follows the documented Ready/advance contract, with a
//! lossy/duplicating/reordering network, crashes and restarts.  Every API call
//! goes through `Driver::exec`, which records the pointwise case (pre-state,
//! call) and the implementation's answer.
use crate::node::*;
use crate::util::*;
use protobuf::Message as PbMessage;
use raft::eraftpb::{ConfChange, ConfChangeType, ConfChangeV2, ConfState, Entry, EntryType, Message, MessageType, Snapshot};
use raft::storage::MemStorage;
use raft::{Config, RawNode, ReadOnlyOption, StateRole, Storage};
use std::collections::{BTreeMap, VecDeque};

pub struct SimNode {
    pub id: u64,
    pub cfg: Config,
    pub store: MemStorage,
    pub sstore: SimStorage,
    /// the durable image of the storage: what a crash leaves behind (a separate MemStorage fed
    /// with the same operations, later for asynchronously persisted Readies)
    pub durable: MemStorage,
    /// every operation applied to `durable`, in order (a crash rebuilds the live store from it)
    pub durable_ops: Vec<StoreOp>,
    /// Readies written to the live store (advance_append_async) and not yet fsynced
    pub unsynced: VecDeque<ReadyView>,
    pub init_cs: (Vec<u64>, Vec<u64>),
    pub sim_snap: bool,
    pub driver: Option<Driver>,
    /// applied index of the simulated state machine (durable together with the store)
    pub applied: u64,
    /// last index reported through advance_apply_to / advance
    pub reported: u64,
    /// Readies written with advance_append_async, not yet reported persisted: (number, persisted messages)
    pub async_pending: VecDeque<(u64, Vec<Message>)>,
    /// committed entries handed out and not yet applied
    pub to_apply: VecDeque<Entry>,
}

/// A storage write of the simulated application.
#[derive(Clone)]
pub enum StoreOp {
    Snapshot(Snapshot),
    Append(Vec<Entry>),
    HardState(u64, u64, u64),
    Commit(u64),
    ConfState(ConfState),
    Compact(u64),
}

pub fn apply_op(st: &MemStorage, op: &StoreOp) {
    let mut w = st.wl();
    match op {
        StoreOp::Snapshot(s) => {
            let _ = w.apply_snapshot(s.clone());
        }
        StoreOp::Append(e) => {
            let _ = catch(|| w.append(e));
        }
        StoreOp::HardState(t, v, c) => {
            let hs = w.mut_hard_state();
            hs.term = *t;
            hs.vote = *v;
            hs.commit = *c;
        }
        StoreOp::Commit(c) => {
            w.mut_hard_state().commit = *c;
        }
        StoreOp::ConfState(cs) => w.set_conf_state(cs.clone()),
        StoreOp::Compact(i) => {
            let _ = catch(|| w.compact(*i));
        }
    }
}

pub fn ready_ops(rv: &ReadyView) -> Vec<StoreOp> {
    let mut v = vec![];
    if rv.snapshot.get_metadata().index != 0 {
        v.push(StoreOp::Snapshot(rv.snapshot.clone()));
    }
    if !rv.entries.is_empty() {
        v.push(StoreOp::Append(rv.entries.clone()));
    }
    if let Some((t, vv, c)) = rv.hs {
        v.push(StoreOp::HardState(t, vv, c));
    }
    v
}

pub struct Recorder {
    pub shards: Vec<Shard>,
    pub rr: usize,
    pub calls: u64,
    pub panics: BTreeMap<String, u64>,
    pub hist: BTreeMap<&'static str, u64>,
    pub enabled: bool,
}

impl Recorder {
    /// A recorder that writes no case files (monitor mode): only counts calls and panics.
    pub fn disabled() -> Recorder {
        Recorder { shards: vec![], rr: 0, calls: 0, panics: Default::default(), hist: Default::default(), enabled: false }
    }

    pub fn put(&mut self, o: &CallOutcome, meta: &str) {
        self.calls += 1;
        if let Some(m) = &o.panicked {
            *self.panics.entry(m.split(" @ ").last().unwrap_or("?").to_string()).or_insert(0) += 1;
        }
        if !self.enabled {
            return;
        }
        let k = self.rr % self.shards.len();
        self.rr += 1;
        let sh = &mut self.shards[k];
        use std::io::Write;
        sh.cases.write_all(o.case_line.as_bytes()).unwrap();
        sh.cases.write_all(b"\n").unwrap();
        sh.imp.write_all(o.impl_line.as_bytes()).unwrap();
        sh.imp.write_all(b"\n").unwrap();
        if let Some(m) = sh.meta.as_mut() {
            m.write_all(meta.as_bytes()).unwrap();
            m.write_all(b"\n").unwrap();
        }
        sh.n += 1;
    }
}

pub struct Sim {
    pub nodes: Vec<SimNode>,
    pub net: Vec<Message>,
    pub rng: Rng,
    pub rec: Recorder,
    pub next_payload: u64,
    /// messages delivered earlier (bounded sample): re-delivered much later as stale duplicates
    pub archive: Vec<Message>,
    pub max_log: u64,
    pub trace: Vec<String>,
    pub keep_trace: bool,
    pub trace_tail: usize,
    pub run_id: u64,
    pub trace_len: u64,
    /// attached runtime monitors (None: the simulator behaves exactly as without this field)
    pub mon: Option<Box<crate::monitor::MonitorSet>>,
    /// set by a monitor violation: the run stops
    pub halted: bool,
    /// no "PANIC on node" print when a call panics (monitor mode)
    pub quiet: bool,
    /// monitor-only: mixes ill-addressed steps (local message types, responses of unknown
    /// peers) into the random events; consumes random numbers only when set
    pub extra_steps: bool,
    /// adversarial runs (pointwise tie (A) only, no P traces, no monitors): hand-made peer
    /// messages with fields chosen around the receiver's state are stepped as well
    pub adversarial: bool,
    /// monitor-only: forces pre_vote and check_quorum on, no learners, priority 0, >= 3 voters
    pub force_prevote_cq: bool,
    /// monitor-only: every node's Storage::snapshot is the application's real snapshot (never
    /// MemStorage::snapshot, which fabricates an index it does not have)
    pub force_sim_snap: bool,
    /// monitor-only: the application never calls campaign() on a node that is not a voter of
    /// its own configuration
    pub voter_campaign_only: bool,
    /// no membership change is ever proposed (P-level traces then cover the whole run)
    pub fixed_conf: bool,
    /// run profile (pointwise tie coverage): 0 none, 1 flow control, 2 transfer + membership,
    /// 3 snapshots, 4 reads: a quarter of the random events come from the profile's own list
    pub focus: u8,
    /// number of nodes (set at boot)
    pub nodes_len_hint: u64,
    /// message of the most recent panic of any node
    pub last_panic: Option<String>,
    pub pt: crate::ptrace::PTrace,
}

fn logger() -> slog::Logger {
    slog::Logger::root(slog::Discard, slog::o!())
}

pub fn call_kind(c: &Call) -> &'static str {
    match c {
        Call::Tick => "tick",
        Call::Step(_) => "step",
        Call::Campaign => "campaign",
        Call::Propose(..) => "propose",
        Call::ProposeConfChange(..) => "propose_conf_change",
        Call::ApplyConfChange(_) => "apply_conf_change",
        Call::Ready => "ready",
        Call::HasReady => "has_ready",
        Call::AdvanceAppend => "advance_append",
        Call::Advance => "advance",
        Call::AdvanceAppendAsync => "advance_append_async",
        Call::OnPersistReady(_) => "on_persist_ready",
        Call::AdvanceApplyTo(_) => "advance_apply_to",
        Call::AdvanceApply => "advance_apply",
        Call::ReportUnreachable(_) => "report_unreachable",
        Call::ReportSnapshot(..) => "report_snapshot",
        Call::RequestSnapshot => "request_snapshot",
        Call::TransferLeader(_) => "transfer_leader",
        Call::ReadIndex(_) => "read_index",
        Call::Ping => "ping",
        _ => "knob",
    }
}

impl Sim {
    pub fn new(seed: u64, rec: Recorder) -> Sim {
        Sim { nodes: vec![], net: vec![], rng: Rng::new(seed), rec, next_payload: 1, archive: vec![], max_log: 12, trace: vec![], keep_trace: false, trace_tail: 60, run_id: seed, trace_len: 0, mon: None, halted: false, quiet: false, extra_steps: false, adversarial: false, force_prevote_cq: false, force_sim_snap: false, voter_campaign_only: false, fixed_conf: false, focus: 0, nodes_len_hint: 0, last_panic: None, pt: Default::default() }
    }

    /// A cluster of the given shape with the given per-node configuration (scripted scenarios).
    pub fn boot_fixed(&mut self, voters: &[u64], learners: &[u64], mk: impl Fn(u64) -> Config) {
        for id in voters.iter().chain(learners.iter()) {
            let cfg = mk(*id);
            let store = MemStorage::new_with_conf_state((voters.to_vec(), learners.to_vec()));
            let sstore = SimStorage::new(store.clone(), true);
            let durable = MemStorage::new_with_conf_state((voters.to_vec(), learners.to_vec()));
            self.nodes.push(SimNode { id: *id, cfg, store, sstore, durable, durable_ops: vec![], unsynced: VecDeque::new(),
                init_cs: (voters.to_vec(), learners.to_vec()), sim_snap: true, driver: None, applied: 0, reported: 0, async_pending: VecDeque::new(), to_apply: VecDeque::new() });
        }
        for i in 0..self.nodes.len() {
            self.start(i);
        }
        self.pt.inc = voters.to_vec();
        self.pt.enabled = true;
        self.with_mon(|m, s| m.on_boot(s));
    }

    /// Random cluster shape and per-node configuration.
    pub fn boot(&mut self) {
        let rng = &mut self.rng;
        let big = rng.chance(1, 4);
        let nv = 1 + rng.below(if big { 5 } else { 3 });
        let nl = if rng.chance(1, 4) { 1 + rng.below(2) } else { 0 };
        let voters: Vec<u64> = (1..=nv).collect();
        let learners: Vec<u64> = (nv + 1..=nv + nl).collect();
        let pre_vote = rng.chance(1, 2);
        let check_quorum = rng.chance(1, 2);
        let batch = rng.chance(1, 4);
        let lease = check_quorum && rng.chance(1, 4);
        let sim_snap = !rng.chance(1, 8) || self.force_sim_snap;
        let force = self.force_prevote_cq;
        let (voters, learners, pre_vote, check_quorum, lease) = if force {
            let nv = if nv < 3 { 3 } else { nv };
            ((1..=nv).collect::<Vec<u64>>(), Vec::<u64>::new(), true, true, false)
        } else {
            (voters, learners, pre_vote, check_quorum, lease)
        };
        for id in voters.iter().chain(learners.iter()) {
            let mut cfg = Config::new(*id);
            cfg.election_tick = 5 + rng.below(4) as usize;
            cfg.heartbeat_tick = 1 + rng.below(2) as usize;
            cfg.max_size_per_msg = *rng.pick(&[0u64, 40, 200, u64::MAX]);
            cfg.max_inflight_msgs = *rng.pick(&[1usize, 2, 3, 8, 256]);
            cfg.check_quorum = check_quorum;
            cfg.pre_vote = pre_vote;
            cfg.batch_append = batch;
            cfg.skip_bcast_commit = rng.chance(1, 5);
            cfg.read_only_option = if lease { ReadOnlyOption::LeaseBased } else { ReadOnlyOption::Safe };
            cfg.max_uncommitted_size = *rng.pick(&[u64::MAX, u64::MAX, 64, 300]);
            if cfg.max_uncommitted_size < cfg.max_size_per_msg {
                cfg.max_size_per_msg = 40;
            }
            cfg.max_committed_size_per_ready = *rng.pick(&[u64::MAX, u64::MAX, 30, 100]);
            if self.focus == 2 && rng.chance(2, 3) {
                // small pages: scans of unapplied entries and hand-outs take several pages
                cfg.max_committed_size_per_ready = *rng.pick(&[1u64, 30, 60]);
            }
            cfg.max_apply_unpersisted_log_limit = *rng.pick(&[0u64, 0, 1, 3]);
            // priorities are only set later through the SetPriority knob: at term 0 a priority-based
            // pre-vote rejection hits the known finding F9 (term-0 response), which would mask everything else
            cfg.priority = if rng.chance(1, 6) { 0 * rng.below(3) as i64 } else { 0 };
            cfg.disable_proposal_forwarding = rng.chance(1, 8);
            if force {
                cfg.priority = 0;
            }
            let store = MemStorage::new_with_conf_state((voters.clone(), learners.clone()));
            let sstore = SimStorage::new(store.clone(), sim_snap);
            let durable = MemStorage::new_with_conf_state((voters.clone(), learners.clone()));
            self.nodes.push(SimNode { id: *id, cfg, store, sstore, durable, durable_ops: vec![], unsynced: VecDeque::new(),
                init_cs: (voters.clone(), learners.clone()), sim_snap, driver: None, applied: 0, reported: 0, async_pending: VecDeque::new(), to_apply: VecDeque::new() });
        }
        for i in 0..self.nodes.len() {
            self.start(i);
        }
        self.pt.inc = voters.clone();
        // P-level traces only from runs whose application hands out real snapshots: plain
        // MemStorage::snapshot (a test double) raises the snapshot index to the requested one,
        // above the commit index, and a follower then reports uncommitted entries committed
        self.pt.enabled = sim_snap;
        self.pt.reads = !lease;
        self.with_mon(|m, s| m.on_boot(s));
    }

    /// Runs `f` on the attached monitor set (if any) with read access to the simulator.
    pub fn with_mon(&mut self, f: impl FnOnce(&mut crate::monitor::MonitorSet, &Sim)) {
        if let Some(mut m) = self.mon.take() {
            f(&mut m, self);
            if m.wants_halt() && !self.halted {
                self.halted = true;
                m.halt_at = self.trace.len();
                m.fail_state = crate::monitor::describe(self);
            }
            self.mon = Some(m);
        }
    }

    pub(crate) fn note(&mut self, f: impl FnOnce() -> String) {
        if self.mon.is_some() && self.keep_trace {
            let l = f();
            self.trace.push(l);
        }
    }

    pub fn start(&mut self, i: usize) {
        self.nodes_len_hint = self.nodes.len() as u64;
        let n = &mut self.nodes[i];
        let mut cfg = n.cfg.clone();
        cfg.applied = n.applied;
        raft::verif_raft::set_timeout_seed(Some(self.rng.next() | 1));
        n.sstore.set_applied(n.applied);
        let r = catch(|| RawNode::new(&cfg, n.sstore.clone(), &logger()));
        let draws: Vec<u64> = raft::verif_raft::take_draws().into_iter().map(|x| x as u64).collect();
        if self.rec.enabled {
            let (case_line, impl_line) = new_case(&cfg, &n.sstore, &draws, &r);
            let o = CallOutcome { case_line, impl_line, panicked: None, ret_code: 0, ready: None, light: None, conf_state: None, flag: false };
            let meta = format!("new {} {}", n.applied, match &r { Ok(Ok(_)) => "ok", Ok(Err(_)) => "err", Err(_) => "panic" });
            self.rec.put(&o, &meta);
            // a second, perturbed configuration over the same storage (mostly rejected or panicking;
            // not used by the simulation itself): exercises Config::validate and the start-up checks
            if self.rng.chance(1, 2) {
                let mut c2 = cfg.clone();
                match self.rng.below(12) {
                    0 => c2.id = 0,
                    1 => c2.heartbeat_tick = 0,
                    2 => c2.election_tick = c2.heartbeat_tick,
                    3 => c2.min_election_tick = c2.election_tick.saturating_sub(1).max(1),
                    4 => {
                        c2.min_election_tick = c2.election_tick + 2;
                        c2.max_election_tick = c2.election_tick + self.rng.below(4) as usize;
                    }
                    5 => c2.max_inflight_msgs = 0,
                    6 => {
                        c2.read_only_option = raft::ReadOnlyOption::LeaseBased;
                        c2.check_quorum = false;
                    }
                    7 => c2.max_uncommitted_size = c2.max_size_per_msg.saturating_sub(1),
                    8 => c2.applied = self.rng.below(12),
                    9 => c2.applied = n.applied + 1 + self.rng.below(3),
                    10 => {
                        c2.min_election_tick = c2.election_tick + self.rng.below(3) as usize;
                        c2.max_election_tick = c2.min_election_tick + 1 + self.rng.below(5) as usize;
                    }
                    _ => c2.max_apply_unpersisted_log_limit = self.rng.below(4),
                }
                // sometimes the stored hard state is perturbed instead: a vote for any id (a learner,
                // a node that is not (yet) in the stored configuration, nobody) at the stored or a
                // higher term, in a private copy of the storage rebuilt from the durable operations
                let mut store2 = n.sstore.clone();
                if self.rng.chance(1, 3) {
                    c2 = cfg.clone();
                    let fresh = MemStorage::new_with_conf_state(n.init_cs.clone());
                    for op in &n.durable_ops {
                        apply_op(&fresh, op);
                    }
                    let mut hs = fresh.initial_state().unwrap().hard_state;
                    hs.vote = self.rng.below(self.nodes_len_hint + 3);
                    hs.term += self.rng.below(2);
                    fresh.wl().set_hardstate(hs);
                    let s2 = SimStorage::new(fresh, n.sim_snap);
                    s2.set_applied(n.applied.min(s2.mem.last_index().unwrap()));
                    c2.applied = s2.applied();
                    store2 = s2;
                }
                raft::verif_raft::set_timeout_seed(Some(self.rng.next() | 1));
                let st2 = store2.clone();
                let r2 = catch(|| RawNode::new(&c2, st2, &logger()));
                let d2: Vec<u64> = raft::verif_raft::take_draws().into_iter().map(|x| x as u64).collect();
                let (case_line, impl_line) = new_case(&c2, &store2, &d2, &r2);
                let o = CallOutcome { case_line, impl_line, panicked: None, ret_code: 0, ready: None, light: None, conf_state: None, flag: false };
                let meta = format!("new-perturbed {} {}", c2.applied, match &r2 { Ok(Ok(_)) => "ok", Ok(Err(_)) => "err", Err(_) => "panic" });
                self.rec.put(&o, &meta);
            }
        }
        match r {
            Ok(Ok(node)) => {
                let (t, v) = (node.raft.term, node.raft.vote);
                n.driver = Some(Driver { node, last_rd: None });
                n.reported = n.applied;
                let id = n.id;
                self.pt.restart(id, t, v);
                n.async_pending.clear();
                n.to_apply.clear();
                if self.pt.enabled {
                    let lg = &n.driver.as_ref().unwrap().node.raft.raft_log;
                    let (first, ents, cm) = (lg.first_index(), lg.all_entries(), lg.committed);
                    self.pt.observe(id, first, &ents, cm, &[]);
                }
                self.note(|| format!("{} (re)start", id));
                self.with_mon(|m, s| m.on_restart(s, i));
            }
            Ok(Err(e)) => {
                *self.rec.panics.entry("RawNode::new failed".to_string()).or_insert(0) += 1;
                let msg = format!("RawNode::new failed: {:?}", e);
                self.with_mon(|m, s| m.on_start_failed(s, i, &msg));
            }
            Err(e) => {
                *self.rec.panics.entry("RawNode::new failed".to_string()).or_insert(0) += 1;
                let msg = format!("RawNode::new failed: {}", e);
                self.with_mon(|m, s| m.on_start_failed(s, i, &msg));
            }
        }
    }

    pub(crate) fn idx_of(&self, id: u64) -> Option<usize> {
        self.nodes.iter().position(|n| n.id == id)
    }

    pub fn call(&mut self, i: usize, c: Call) -> Option<CallOutcome> {
        if self.halted {
            return None;
        }
        let pre = match self.mon.as_mut() {
            Some(m) => match self.nodes[i].driver.as_ref() {
                Some(d) => Some(m.pre(&d.node, &c)),
                None => None,
            },
            None => None,
        };
        // pre-state flag for the case's meta line: a committed membership entry is still unapplied
        // (the state in which the campaign guards of C09 decide)
        let ucc = self.rec.enabled && self.unapplied_committed_conf_change(i) != 0;
        let d = self.nodes[i].driver.as_mut()?;
        let role = d.node.raft.state;
        let ppre = (d.node.raft.term, d.node.raft.vote, d.node.raft.state);
        let msgs_before = d.node.raft.msgs.len();
        // read-index layer (P/Read.v): pending requests and handed-out read states before the call
        let reads_pre: Option<(Vec<Vec<u8>>, usize)> = if self.pt.enabled && self.pt.reads {
            Some((d.node.raft.read_only.read_index_queue.iter().cloned().collect(), d.node.raft.read_states.len()))
        } else {
            None
        };
        let o = d.exec(&c);
        let ppost = (d.node.raft.term, d.node.raft.vote, d.node.raft.state);
        let gfrom = match &c {
            Call::Step(m) if m.get_msg_type() == MessageType::MsgRequestVoteResponse && !m.reject && m.term == ppre.0 => Some(m.from),
            _ => None,
        };
        let nid = self.nodes[i].id;
        if o.panicked.is_none() {
            self.pt.call(nid, ppre, ppost, gfrom);
            if let Call::ApplyConfChange(_) = &c {
                if o.conf_state.is_some() {
                    self.pt.enabled = false;
                }
            }
            if let (Call::Ready, Some(rv)) = (&c, o.ready.as_ref()) {
                if rv.hs.is_some() {
                    self.pt.ready_hs(nid);
                }
            }
            if self.pt.enabled {
                let d = self.nodes[i].driver.as_ref().unwrap();
                let lg = &d.node.raft.raft_log;
                let acks: Vec<u64> = if d.node.raft.msgs.len() >= msgs_before {
                    d.node.raft.msgs[msgs_before..]
                        .iter()
                        .filter(|m| m.get_msg_type() == MessageType::MsgAppendResponse && !m.reject && m.index >= 1)
                        .map(|m| m.index)
                        .collect()
                } else {
                    vec![]
                };
                let first = lg.first_index();
                let ents = lg.all_entries();
                self.pt.observe(nid, first, &ents, lg.committed, &acks);
                if let Some((pending_pre, rs_pre)) = reads_pre {
                    let r = &d.node.raft;
                    let term = r.term;
                    let mut evs: Vec<(u8, Vec<u8>, u64, u64)> = vec![]; // (kind, ctx, index, peer)
                    // requests recorded by this call (a leader in Safe mode)
                    for ctx in r.read_only.read_index_queue.iter() {
                        if !pending_pre.contains(ctx) {
                            if let Some(st) = r.read_only.pending_read_index.get(ctx) {
                                evs.push((10, ctx.clone(), st.index, 0));
                            }
                        }
                    }
                    let new_msgs: &[Message] = if r.msgs.len() >= msgs_before { &r.msgs[msgs_before..] } else { &[] };
                    // heartbeat acknowledgements created by this call
                    for m in new_msgs {
                        if m.get_msg_type() == MessageType::MsgHeartbeatResponse && !m.context.is_empty() {
                            evs.push((11, m.context.to_vec(), 0, m.to));
                        }
                    }
                    // reads served by a leader in this call: local read states and responses to forwarded requests
                    if ppre.2 == StateRole::Leader {
                        let mut served: Vec<(Vec<u8>, u64)> = vec![];
                        if r.read_states.len() >= rs_pre {
                            for rs in &r.read_states[rs_pre..] {
                                served.push((rs.request_ctx.clone(), rs.index));
                            }
                        }
                        for m in new_msgs {
                            if m.get_msg_type() == MessageType::MsgReadIndexResp && !m.entries.is_empty() {
                                served.push((m.entries[0].data.to_vec(), m.index));
                            }
                        }
                        // the acknowledgement that triggered the release was counted for a re-recorded
                        // duplicate of an already answered request (matched by context alone): every OTHER
                        // read it releases was not confirmed by a heartbeat round of its own or a later
                        // request - the known finding `stale-read-by-duplicates`, not an abstract serve
                        let dup_trigger: Option<Vec<u8>> = match &c {
                            Call::Step(m) if m.get_msg_type() == MessageType::MsgHeartbeatResponse && self.pt.read_dups.contains(&(nid, m.context.to_vec())) => Some(m.context.to_vec()),
                            _ => None,
                        };
                        for (ctx, idx) in served {
                            if let Some(d) = &dup_trigger {
                                if *d != ctx {
                                    self.pt.released_by_duplicate += 1;
                                    self.pt.tainted_reads.insert(ctx.clone());
                                    continue;
                                }
                            }
                            if !pending_pre.contains(&ctx) && !evs.iter().any(|e| e.0 == 10 && e.1 == ctx) {
                                // answered at once (the leader alone is the quorum): request and service coincide
                                evs.push((10, ctx.clone(), idx, 0));
                            }
                            evs.push((12, ctx, idx, 0));
                        }
                    }
                    for (k, ctx, idx, peer) in evs {
                        match k {
                            10 => self.pt.read_req(nid, term, &ctx, idx),
                            11 => self.pt.hb_ack(nid, peer, term, &ctx),
                            _ => self.pt.read_serve(nid, &ctx, idx),
                        }
                    }
                }
            }
        } else {
            self.pt.crash(nid);
        }
        let meta = format!("{} {:?} {} run={} ev={}{}", call_kind(&c), role,
            if let Call::Step(m) = &c { format!("{:?}", m.get_msg_type()) } else { "-".to_string() },
            self.run_id, self.trace_len, if ucc { " ucc" } else { "" });
        self.trace_len += 1;
        *self.rec.hist.entry(call_kind(&c)).or_insert(0) += 1;
        if self.keep_trace {
            self.trace.push(format!("{} {:?}", self.nodes[i].id, c));
        }
        self.rec.put(&o, &meta);
        // has_ready is a pure function of the state: it is also evaluated (as one more case of the
        // pointwise tie) in the transient state right after every other call
        if self.rec.enabled && o.panicked.is_none() && !matches!(c, Call::HasReady | Call::Ready) {
            if let Some(d) = self.nodes[i].driver.as_mut() {
                if d.last_rd.is_none() {
                    let o2 = d.exec(&Call::HasReady);
                    if o2.panicked.is_none() {
                        let meta2 = format!("has_ready {:?} after-{} run={} ev={}", role, call_kind(&c), self.run_id, self.trace_len);
                        self.rec.put(&o2, &meta2);
                    }
                }
            }
        }
        if let Some(p) = &o.panicked {
            // a panicked node is dead: the application would crash
            if self.keep_trace && !self.quiet {
                let n = self.trace.len();
                println!("PANIC on node {}: {}", self.nodes[i].id, p);
                for l in &self.trace[n.saturating_sub(self.trace_tail)..] {
                    println!("  {}", l);
                }
            }
            self.nodes[i].driver = None;
            self.last_panic = Some(p.clone());
            // the process is gone: exactly as in a crash, writes that were not fsynced are lost
            self.nodes[i].async_pending.clear();
            self.nodes[i].to_apply.clear();
            self.lose_unsynced(i);
            if let Some(pre) = pre {
                self.with_mon(|m, s| m.after(s, i, &c, &o, pre));
                self.with_mon(|m, s| m.on_crash(s, i));
            }
            return None;
        }
        if let Some(pre) = pre {
            self.with_mon(|m, s| m.after(s, i, &c, &o, pre));
        }
        Some(o)
    }

    pub(crate) fn send(&mut self, i: usize, msgs: Vec<Message>) {
        if self.mon.is_some() {
            for m in &msgs {
                self.with_mon(|mm, s| mm.on_send(s, i, m));
            }
        }
        for m in msgs {
            self.pt.send(&m);
            if self.net.len() < 400 {
                self.net.push(m);
            }
        }
    }

    /// Applies handed-out committed entries to the simulated state machine: conf
    /// changes go through apply_conf_change.  `report` also tells raft (advance_apply_to);
    /// that is not done between ready() and advance*().
    pub(crate) fn apply_entries(&mut self, i: usize, upto_all: bool, report: bool) {
        let limit = if upto_all { usize::MAX } else { 1 + self.rng.below(3) as usize };
        let mut k = 0;
        while k < limit {
            // the application applies an entry only once the commit index covering it is durable
            // (the crate's documentation: persist the commit index with or before applying)
            let dcommit = self.nodes[i].durable.initial_state().unwrap().hard_state.commit;
            match self.nodes[i].to_apply.front() {
                Some(e) if e.index <= dcommit => {}
                Some(_) if self.nodes[i].unsynced.front().map_or(false, |r| !r.must_sync) => {
                    // the commit index that covers the entry sits in a write the application left
                    // unsynced because it did not ask for must_sync: it is fsynced before applying
                    while self.nodes[i].unsynced.front().map_or(false, |r| !r.must_sync) {
                        self.fsync_one(i);
                    }
                    continue;
                }
                _ => break,
            }
            let e = self.nodes[i].to_apply.pop_front().unwrap();
            k += 1;
            if self.mon.is_some() {
                self.with_mon(|m, s| m.on_apply(s, i, &e));
            }
            let cc = match e.get_entry_type() {
                EntryType::EntryNormal => None,
                EntryType::EntryConfChange => {
                    let mut c = ConfChange::default();
                    c.merge_from_bytes(&e.data).ok().map(|_| raft_proto::ConfChangeI::into_v2(c))
                }
                EntryType::EntryConfChangeV2 => {
                    let mut c = ConfChangeV2::default();
                    c.merge_from_bytes(&e.data).ok().map(|_| c)
                }
            };
            if let Some(cc) = cc {
                if let Some(o) = self.call(i, Call::ApplyConfChange(cc)) {
                    if let Some(cs) = o.conf_state {
                        self.store_op(i, StoreOp::ConfState(cs), true);
                    }
                } else {
                    return;
                }
            }
            if e.index > self.nodes[i].applied {
                self.nodes[i].applied = e.index;
                self.nodes[i].sstore.set_applied(e.index);
            }
        }
        if report {
            self.report_applied(i);
        }
    }

    pub(crate) fn report_applied(&mut self, i: usize) {
        if self.nodes[i].driver.is_some() && self.nodes[i].applied > self.nodes[i].reported {
            let a = self.nodes[i].applied;
            self.nodes[i].reported = a;
            self.call(i, Call::AdvanceApplyTo(a));
        }
    }

    /// Applies an operation to the live store and (always for application-level state) to the durable one.
    fn store_op(&mut self, i: usize, op: StoreOp, durable_too: bool) {
        apply_op(&self.nodes[i].store, &op);
        if durable_too {
            apply_op(&self.nodes[i].durable, &op);
            self.nodes[i].durable_ops.push(op);
        }
    }

    /// Writes a Ready to the live store; `sync` also makes it durable at once, otherwise it is
    /// fsynced later (`fsync_one`) and a crash before that loses it.
    pub(crate) fn write_ready(&mut self, i: usize, rv: &ReadyView, sync: bool) {
        for op in ready_ops(rv) {
            apply_op(&self.nodes[i].store, &op);
        }
        let n = &mut self.nodes[i];
        if rv.snapshot.get_metadata().index != 0 {
            n.applied = rv.snapshot.get_metadata().index;
            n.sstore.set_applied(n.applied);
            n.to_apply.clear();
        }
        if self.mon.is_some() {
            self.with_mon(|m, s| m.on_write(s, i, rv));
        }
        self.nodes[i].unsynced.push_back(rv.clone());
        // an application that trusts Ready::must_sync: a Ready that does not ask for it is not
        // fsynced at once (it becomes durable with a later synchronous write, or never if the node crashes)
        let sync_requested = sync;
        let sync = sync && (rv.must_sync || self.rng.chance(1, 3));
        if sync {
            while !self.nodes[i].unsynced.is_empty() {
                self.fsync_one(i);
            }
        } else if sync_requested {
            // a synchronous round whose own Ready needs no fsync: advance() will still report every
            // earlier Ready persisted, so whatever earlier write asked for must_sync is made durable now
            while self.nodes[i].unsynced.iter().any(|r| r.must_sync) {
                self.fsync_one(i);
            }
        }
    }

    /// The oldest written Ready becomes durable.
    pub(crate) fn fsync_one(&mut self, i: usize) {
        let rv = match self.nodes[i].unsynced.pop_front() {
            Some(rv) => rv,
            None => return,
        };
        for op in ready_ops(&rv) {
            apply_op(&self.nodes[i].durable, &op);
            self.nodes[i].durable_ops.push(op);
        }
        if self.mon.is_some() {
            self.with_mon(|m, s| m.on_fsync(s, i));
        }
        let n = &self.nodes[i];
        if let Some((t, v, _)) = rv.hs {
            self.pt.fsync(n.id, t, v);
        }
        if self.pt.enabled {
            let first = n.durable.first_index().unwrap();
            let last = n.durable.last_index().unwrap();
            let ents = if last + 1 > first {
                n.durable.entries(first, last + 1, None, raft::GetEntriesContext::empty(false)).unwrap()
            } else {
                vec![]
            };
            self.pt.durable(n.id, first, &ents);
        }
    }

    /// A crash: the live store is rebuilt from the durable operations; written-but-unfsynced
    /// Readies are lost.
    pub(crate) fn lose_unsynced(&mut self, i: usize) {
        let n = &mut self.nodes[i];
        let fresh = MemStorage::new_with_conf_state(n.init_cs.clone());
        for op in &n.durable_ops {
            apply_op(&fresh, op);
        }
        n.store = fresh;
        n.sstore = SimStorage::new(n.store.clone(), n.sim_snap);
        n.unsynced.clear();
        // the state machine cannot be ahead of what the durable log holds
        let last = n.durable.last_index().unwrap();
        if n.applied > last {
            n.applied = last;
        }
        n.sstore.set_applied(n.applied);
    }

    /// One synchronous or asynchronous Ready round on node i.
    pub fn ready_round(&mut self, i: usize) {
        self.ready_round_with(i, None)
    }

    /// One Ready round; `forced` fixes the persistence mode (0-4 synchronous advance, 5-6
    /// advance_append, 7-9 asynchronous) instead of drawing it.
    pub fn ready_round_with(&mut self, i: usize, forced: Option<u64>) {
        if self.nodes[i].driver.is_none() || self.nodes[i].driver.as_ref().unwrap().last_rd.is_some() {
            return;
        }
        let has = match self.call(i, Call::HasReady) {
            Some(o) => o.flag,
            None => return,
        };
        if !has {
            return;
        }
        let o = match self.call(i, Call::Ready) {
            Some(o) => o,
            None => return,
        };
        let rv = o.ready.unwrap();
        self.send(i, rv.messages.clone());
        // the write is durable at once in the synchronous modes; asynchronous Readies are fsynced later
        let mode = match forced {
            Some(m) => m,
            // the transfer/membership profile lets the application lag behind with applying
            None if self.focus == 2 => 3 + self.rng.below(7),
            None => self.rng.below(10),
        };
        self.write_ready(i, &rv, mode < 7);
        for e in &rv.committed_entries {
            self.nodes[i].to_apply.push_back(e.clone());
        }
        if mode < 5 {
            // sync: handle committed entries, then advance (which reports applied itself)
            self.send(i, rv.persisted_messages.clone());
            self.apply_entries(i, true, false);
            if self.nodes[i].driver.is_none() {
                return;
            }
            if let Some(o) = self.call(i, Call::Advance) {
                self.nodes[i].reported = self.nodes[i].reported.max(self.nodes[i].applied);
                self.after_light(i, o);
            }
        } else if mode < 7 {
            self.send(i, rv.persisted_messages.clone());
            if let Some(o) = self.call(i, Call::AdvanceAppend) {
                self.after_light(i, o);
            }
            if self.nodes[i].driver.is_some() {
                let lazy = self.rng.chance(1, 2);
                self.apply_entries(i, !lazy, true);
            }
        } else {
            self.nodes[i].async_pending.push_back((rv.number, rv.persisted_messages.clone()));
            self.call(i, Call::AdvanceAppendAsync);
            if self.nodes[i].driver.is_some() && self.rng.chance(1, 2) {
                self.apply_entries(i, false, true);
            }
        }
    }

    pub(crate) fn after_light(&mut self, i: usize, o: CallOutcome) {
        if let Some(l) = o.light {
            if let Some(c) = l.commit_index() {
                self.store_op(i, StoreOp::Commit(c), true);
            }
            self.send(i, l.messages().to_vec());
            for e in l.committed_entries() {
                self.nodes[i].to_apply.push_back(e.clone());
            }
            self.apply_entries(i, true, true);
        }
    }

    /// Reports the oldest (or several) async Readies persisted, then releases their messages.
    pub fn persist_async(&mut self, i: usize) {
        if self.nodes[i].driver.is_none() || self.nodes[i].async_pending.is_empty() {
            return;
        }
        let k = 1 + self.rng.below(self.nodes[i].async_pending.len() as u64) as usize;
        let mut msgs = vec![];
        let mut num = 0;
        for _ in 0..k {
            let (n, m) = self.nodes[i].async_pending.pop_front().unwrap();
            num = n;
            msgs.extend(m);
            // everything written up to and including Ready n becomes durable (writes the application
            // left unsynced because they did not ask for must_sync lie in between)
            while let Some(front) = self.nodes[i].unsynced.front() {
                let fnum = front.number;
                self.fsync_one(i);
                if fnum == n {
                    break;
                }
            }
        }
        if self.call(i, Call::OnPersistReady(num)).is_some() {
            self.send(i, msgs);
        }
    }

    pub(crate) fn deliver(&mut self) {
        if self.net.is_empty() {
            return;
        }
        let k = self.rng.below(self.net.len().min(12) as u64) as usize;
        let m = if self.rng.chance(9, 10) { self.net.remove(k) } else { self.net[k].clone() };
        // snapshots are always kept for a later stale re-delivery, other messages as a bounded sample
        if self.archive.len() < 256 {
            self.archive.push(m.clone());
        } else if m.get_msg_type() == MessageType::MsgSnapshot || self.rng.chance(1, 4) {
            let j = self.rng.below(256) as usize;
            self.archive[j] = m.clone();
        }
        if let Some(i) = self.idx_of(m.to) {
            let is_app = matches!(m.get_msg_type(), MessageType::MsgAppend | MessageType::MsgHeartbeat);
            self.call(i, Call::Step(m));
            if is_app {
                self.after_append(i);
            }
        }
    }

    /// A node that has just learnt of committed membership entries it has not applied (or not even
    /// persisted, so that nothing can be handed to the application yet) is asked to campaign at
    /// once: the campaign guard must see them, on whichever page of the scan they are.
    fn after_append(&mut self, i: usize) {
        let k = self.unapplied_committed_conf_change(i);
        if (k == 2 && self.rng.chance(1, 2)) || (k == 1 && self.rng.chance(1, 4)) {
            if !self.adversarial || self.rng.chance(1, 2) {
                self.call(i, Call::Campaign);
            } else {
                let mut t = Message::default();
                t.set_msg_type(MessageType::MsgTimeoutNow);
                t.to = self.nodes[i].id;
                if let Some(d) = self.nodes[i].driver.as_ref() {
                    t.from = d.node.raft.leader_id;
                    t.term = d.node.raft.term;
                }
                if t.from != 0 {
                    self.call(i, Call::Step(t));
                }
            }
        }
    }

    /// 0: no membership entry in (applied, committed]; 1: there is one; 2: there is one that the
    /// store has not even persisted (so nothing can be handed to the application yet).
    fn unapplied_committed_conf_change(&self, i: usize) -> u8 {
        let d = match self.nodes[i].driver.as_ref() {
            Some(d) => d,
            None => return 0,
        };
        let l = &d.node.raft.raft_log;
        let lo = l.applied + 1;
        if l.committed < lo || lo < l.first_index() {
            return 0;
        }
        match l.slice(lo, l.committed + 1, None, raft::GetEntriesContext::empty(false)) {
            Ok(es) => {
                let mut r = 0;
                for e in es.iter().filter(|e| e.get_entry_type() != EntryType::EntryNormal) {
                    r = r.max(if e.index > l.persisted { 2 } else { 1 });
                }
                r
            }
            Err(_) => 0,
        }
    }

    pub(crate) fn leader(&self) -> Option<usize> {
        self.nodes.iter().position(|n| n.driver.as_ref().map_or(false, |d| d.node.raft.state == StateRole::Leader))
    }

    pub(crate) fn payload(&mut self) -> Vec<u8> {
        let len = *self.rng.pick(&[0usize, 1, 3, 8, 20, 45]);
        self.next_payload += 1;
        (0..len).map(|k| ((self.next_payload as usize + k) % 251) as u8).collect()
    }

    pub(crate) fn random_cc(&mut self) -> CcKind {
        let max_id = self.nodes.len() as u64 + 2;
        let n = 1 + self.rng.below(3);
        let changes: Vec<(u64, u64)> = (0..n).map(|_| (self.rng.below(3), self.rng.below(max_id + 1))).collect();
        match self.rng.below(10) {
            0 => CcKind::Raw(1 + self.rng.below(2), vec![0xff, 0xff, 0x01]),
            1..=3 => {
                let mut cc = ConfChange::default();
                cc.set_change_type(match changes[0].0 {
                    0 => ConfChangeType::AddNode,
                    1 => ConfChangeType::RemoveNode,
                    _ => ConfChangeType::AddLearnerNode,
                });
                cc.node_id = changes[0].1;
                CcKind::V1(cc)
            }
            4 => CcKind::V2(cc_v2(0, &[])),
            _ => CcKind::V2(cc_v2(self.rng.below(3), &changes)),
        }
    }

    /// A hand-made message for node i (adversarial runs only): any non-local type, any sender,
    /// term / index / commit values around the receiver's own.
    pub(crate) fn adversarial_msg(&mut self, i: usize) -> Option<Message> {
        let nn = self.nodes.len() as u64;
        let (id, term, committed, last, first, applied) = {
            let d = self.nodes[i].driver.as_ref()?;
            let r = &d.node.raft;
            (r.id, r.term, r.raft_log.committed, r.raft_log.last_index(), r.raft_log.first_index(), r.raft_log.applied)
        };
        use MessageType::*;
        let ty = *self.rng.pick(&[MsgAppend, MsgAppend, MsgAppendResponse, MsgAppendResponse, MsgRequestVote, MsgRequestVoteResponse,
            MsgSnapshot, MsgSnapshot, MsgHeartbeat, MsgHeartbeatResponse, MsgTimeoutNow, MsgReadIndex, MsgReadIndexResp,
            MsgRequestPreVote, MsgRequestPreVoteResponse, MsgTransferLeader, MsgPropose]);
        let around = |rng: &mut Rng, xs: &[u64]| -> u64 {
            let b = *rng.pick(xs);
            match rng.below(4) {
                0 => b.saturating_sub(1),
                1 => b + 1,
                _ => b,
            }
        };
        let mut m = Message::default();
        m.set_msg_type(ty);
        m.to = id;
        m.from = 1 + self.rng.below(nn + 1);
        m.term = if matches!(ty, MsgPropose | MsgReadIndex | MsgTransferLeader) && self.rng.chance(3, 4) { 0 } else { around(&mut self.rng, &[term, term, term + 1, 0]) };
        m.log_term = self.rng.below(term + 2);
        m.index = around(&mut self.rng, &[committed, last, first, 0, last + 2]);
        m.commit = around(&mut self.rng, &[committed, last, 0, last + 3]);
        m.commit_term = self.rng.below(term + 2);
        if matches!(ty, MsgRequestVote | MsgRequestPreVote | MsgRequestVoteResponse | MsgRequestPreVoteResponse) && last > committed && self.rng.chance(1, 2) {
            // commit information that points at a real entry above the receiver's commit index
            // (the commit fast-forward on vote traffic then applies)
            m.commit = committed + 1 + self.rng.below(last - committed);
            let real = self.nodes[i].driver.as_ref().and_then(|d| d.node.raft.raft_log.term(m.commit).ok()).unwrap_or(0);
            m.commit_term = real;
        }
        m.reject = self.rng.chance(1, 3);
        m.reject_hint = around(&mut self.rng, &[committed, last, 0]);
        m.request_snapshot = if self.rng.chance(1, 5) { around(&mut self.rng, &[committed, last]) } else { 0 };
        m.priority = self.rng.below(3) as i64 - 1;
        if self.rng.chance(1, 3) {
            m.context = vec![(self.next_payload % 250) as u8, 1, 2].into();
        }
        if matches!(ty, MsgAppend | MsgPropose | MsgReadIndex | MsgReadIndexResp) || self.rng.chance(1, 10) {
            let k = self.rng.below(4);
            let mut ents = vec![];
            for j in 0..k {
                let mut e = Entry::default();
                e.index = if ty == MsgPropose { 0 } else { m.index + 1 + j };
                e.term = if ty == MsgPropose { 0 } else { 1 + self.rng.below(m.term.max(1)) };
                if self.rng.chance(1, 4) {
                    let (ety, data) = match self.random_cc() {
                        CcKind::V1(cc) => (EntryType::EntryConfChange, cc.write_to_bytes().unwrap()),
                        CcKind::V2(cc) => (EntryType::EntryConfChangeV2, cc.write_to_bytes().unwrap()),
                        CcKind::Raw(t, d) => (if t == 1 { EntryType::EntryConfChange } else { EntryType::EntryConfChangeV2 }, d),
                    };
                    e.set_entry_type(ety);
                    e.data = data.into();
                } else {
                    e.data = self.payload().into();
                }
                ents.push(e);
            }
            m.set_entries(ents.into());
        }
        if ty == MsgAppend && self.rng.chance(1, 3) {
            // a well-formed catch-up append from the node's leader: anchored at the receiver's last
            // entry, entries of the current term (membership changes among them), and a commit index
            // that covers what it ships - what a follower that was cut off receives when it returns
            let (lead, lt) = {
                let d = self.nodes[i].driver.as_ref()?;
                (d.node.raft.leader_id, d.node.raft.raft_log.term(last).unwrap_or(0))
            };
            m.term = term;
            if lead != 0 && lead != id {
                m.from = lead;
            }
            m.index = last;
            m.log_term = lt;
            let k = 1 + self.rng.below(3);
            let mut ents = vec![];
            for j in 0..k {
                let mut e = Entry::default();
                e.index = last + 1 + j;
                e.term = term;
                if self.rng.chance(1, 2) {
                    let (ety, data) = match self.random_cc() {
                        CcKind::V1(cc) => (EntryType::EntryConfChange, cc.write_to_bytes().unwrap()),
                        CcKind::V2(cc) => (EntryType::EntryConfChangeV2, cc.write_to_bytes().unwrap()),
                        CcKind::Raw(t, d) => (if t == 1 { EntryType::EntryConfChange } else { EntryType::EntryConfChangeV2 }, d),
                    };
                    e.set_entry_type(ety);
                    e.data = data.into();
                } else {
                    e.data = self.payload().into();
                }
                ents.push(e);
            }
            m.set_entries(ents.into());
            m.commit = last + self.rng.below(k + 2);
            m.reject = false;
            m.request_snapshot = 0;
        }
        if ty == MsgSnapshot || self.rng.chance(1, 20) {
            let mut sn = Snapshot::default();
            let md = sn.mut_metadata();
            // around every boundary the install conditions look at
            md.index = *self.rng.pick(&[applied.saturating_sub(1), applied, applied + 1, committed.saturating_sub(1), committed, committed + 1,
                first.saturating_sub(1), last, last + 1, last + 2, 0]);
            md.term = self.rng.below(term + 2);
            let ids: Vec<u64> = (1..=nn + 1).collect();
            let cs = md.mut_conf_state();
            for x in &ids {
                if *x == id && self.rng.chance(2, 3) {
                    cs.voters.push(*x);
                    continue;
                }
                match self.rng.below(6) {
                    0 | 1 | 2 => cs.voters.push(*x),
                    3 => cs.learners.push(*x),
                    _ => {}
                }
            }
            if self.rng.chance(1, 4) {
                for x in &ids {
                    if self.rng.chance(1, 2) {
                        cs.voters_outgoing.push(*x);
                    }
                }
                for x in &ids {
                    if self.rng.chance(1, 5) {
                        cs.learners_next.push(*x);
                    }
                }
                cs.auto_leave = self.rng.chance(1, 2);
            }
            m.set_snapshot(sn);
        }
        Some(m)
    }

    pub(crate) fn compact(&mut self, i: usize) {
        let n = &mut self.nodes[i];
        let first = n.store.first_index().unwrap();
        if n.applied > first {
            let to = first + 1 + self.rng.below(n.applied - first);
            // the snapshot point a leader would ship must be the compaction point's commit
            let id = n.id;
            // never compact beyond what is durably committed in the durable image
            let dc = n.durable.initial_state().unwrap().hard_state.commit;
            if to > dc {
                return;
            }
            // MemStorage::compact: "the application's responsibility to not attempt to compact an index
            // greater than RaftLog.applied" - the library's applied index, which lags the application's
            // own until advance_apply / advance_apply_to
            if let Some(d) = n.driver.as_ref() {
                if to > d.node.raft.raft_log.applied {
                    return;
                }
            }
            let durable_too = to <= n.durable.last_index().unwrap() && to > n.durable.first_index().unwrap();
            self.store_op(i, StoreOp::Compact(to), durable_too);
            self.note(|| format!("{} compact store to {}", id, to));
        }
    }

    /// Monitor-only event (flag `extra_steps`): offers RawNode::step a local message type or a
    /// response from a peer that is not in the progress map.  Must be rejected, state unchanged.
    fn bogus_step(&mut self) {
        let nn = self.nodes.len();
        let i = self.rng.below(nn as u64) as usize;
        let term = self.nodes[i].driver.as_ref().map_or(0, |d| d.node.raft.term);
        let mut m = Message::default();
        let local = self.rng.chance(1, 2);
        let ty = if local {
            *self.rng.pick(&[MessageType::MsgHup, MessageType::MsgBeat, MessageType::MsgUnreachable, MessageType::MsgSnapStatus, MessageType::MsgCheckQuorum])
        } else {
            *self.rng.pick(&[MessageType::MsgAppendResponse, MessageType::MsgRequestVoteResponse, MessageType::MsgHeartbeatResponse, MessageType::MsgUnreachable, MessageType::MsgRequestPreVoteResponse])
        };
        m.set_msg_type(ty);
        m.to = self.nodes[i].id;
        m.from = if local { 1 + self.rng.below(nn as u64) } else { 90 + self.rng.below(5) };
        m.term = match self.rng.below(3) {
            0 => term,
            1 => term + 1,
            _ => 0,
        };
        m.index = self.rng.below(8);
        m.reject = self.rng.chance(1, 2);
        self.call(i, Call::Step(m));
    }

    pub fn step_random(&mut self) {
        if self.adversarial && self.rng.chance(1, 6) {
            let nn = self.nodes.len() as u64;
            let i = self.rng.below(nn) as usize;
            match self.rng.below(6) {
                0 => {
                    // a membership change applied out of the blue (not from the log), on the leader mostly
                    let t = self.leader().filter(|_| self.rng.chance(2, 3)).unwrap_or(i);
                    let n = 1 + self.rng.below(2);
                    let changes: Vec<(u64, u64)> = (0..n).map(|_| (self.rng.below(3), 1 + self.rng.below(nn + 1))).collect();
                    let cc = cc_v2(self.rng.below(3), if self.rng.chance(1, 8) { &[] } else { &changes });
                    if self.rng.chance(1, 3) {
                        let peer = changes[0].1;
                        self.call(t, Call::TransferLeader(peer));
                    }
                    self.call(t, Call::ApplyConfChange(cc));
                }
                3 if self.rng.chance(1, 2) => {
                    // the commit index moved by hand (within the log): states in which it runs ahead of
                    // what is persisted, applied or told to anybody
                    if let Some(d) = self.nodes[i].driver.as_ref() {
                        let (c, l) = (d.node.raft.raft_log.committed, d.node.raft.raft_log.last_index());
                        if l > c {
                            let k = c + 1 + self.rng.below(l - c);
                            self.call(i, Call::CommitTo(k));
                        }
                    }
                }
                1 | 2 => {
                    // a transfer to a voter, then at once a change that demotes / removes / re-adds it
                    if let Some(t) = self.leader() {
                        let lid = self.nodes[t].id;
                        let voters: Vec<u64> = self.nodes[t].driver.as_ref().map_or(vec![], |d| d.node.raft.prs().conf().voters().ids().iter().filter(|v| *v != lid).collect());
                        if !voters.is_empty() {
                            let peer = *self.rng.pick(&voters);
                            self.call(t, Call::TransferLeader(peer));
                            let ty = *self.rng.pick(&[2u64, 2, 1, 0]);
                            let tr = *self.rng.pick(&[0u64, 0, 1, 2]);
                            let cc = cc_v2(tr, &[(ty, peer)]);
                            self.call(t, Call::ApplyConfChange(cc));
                        }
                    }
                }
                _ => {
                    if let Some(m) = self.adversarial_msg(i) {
                        let is_app = m.get_msg_type() == MessageType::MsgAppend;
                        self.call(i, Call::Step(m));
                        if is_app {
                            self.after_append(i);
                        }
                    }
                }
            }
            return;
        }
        if self.focus != 0 && self.rng.chance(1, 4) {
            self.focus_event();
            return;
        }
        if self.extra_steps && self.rng.chance(1, 40) {
            self.bogus_step();
            return;
        }
        let nn = self.nodes.len();
        let i = self.rng.below(nn as u64) as usize;
        let r = self.rng.below(1000);
        match r {
            0..=219 => {
                self.call(i, Call::Tick);
            }
            220..=231 => {
                // a stale duplicate: some message delivered arbitrarily long ago arrives again
                if self.archive.is_empty() {
                    self.deliver();
                } else {
                    let snaps: Vec<usize> = (0..self.archive.len()).filter(|&j| self.archive[j].get_msg_type() == MessageType::MsgSnapshot).collect();
                    let j = if !snaps.is_empty() && self.rng.chance(1, 2) { *self.rng.pick(&snaps) } else { self.rng.below(self.archive.len() as u64) as usize };
                    let m = self.archive[j].clone();
                    if let Some(i) = self.idx_of(m.to) {
                        self.call(i, Call::Step(m));
                    }
                }
            }
            232..=519 => self.deliver(),
            520..=719 => self.ready_round(i),
            720..=769 => {
                self.persist_async(i);
                if self.nodes[i].driver.as_ref().map_or(false, |d| d.last_rd.is_none()) {
                    self.apply_entries(i, false, true);
                }
            }
            770..=779 => {
                // a batched proposal (as an application may forward): several entries in one
                // MsgPropose, membership changes anywhere in the batch
                let t = self.leader().filter(|_| !self.rng.chance(1, 5)).unwrap_or(i);
                let k = 2 + self.rng.below(3);
                let mut ents = vec![];
                for _ in 0..k {
                    let mut e = Entry::default();
                    if self.rng.chance(2, 5) && !self.fixed_conf {
                        let (ty, data) = match self.random_cc() {
                            CcKind::V1(cc) => (EntryType::EntryConfChange, cc.write_to_bytes().unwrap()),
                            CcKind::V2(cc) => (EntryType::EntryConfChangeV2, cc.write_to_bytes().unwrap()),
                            CcKind::Raw(t, d) => (if t == 1 { EntryType::EntryConfChange } else { EntryType::EntryConfChangeV2 }, d),
                        };
                        e.set_entry_type(ty);
                        e.data = data.into();
                    } else {
                        e.data = self.payload().into();
                    }
                    ents.push(e);
                }
                let mut m = Message::default();
                m.set_msg_type(MessageType::MsgPropose);
                m.from = 1 + self.rng.below(nn as u64);
                m.to = self.nodes[t].id;
                m.set_entries(ents.into());
                self.call(t, Call::Step(m));
            }
            780..=839 => {
                let t = self.leader().filter(|_| !self.rng.chance(1, 5)).unwrap_or(i);
                let p = self.payload();
                let ctx = if self.rng.chance(1, 5) { vec![7] } else { vec![] };
                self.call(t, Call::Propose(ctx, p));
            }
            840..=864 => {
                let t = self.leader().filter(|_| !self.rng.chance(1, 4)).unwrap_or(i);
                let cc = self.random_cc();
                if self.fixed_conf {
                    let p = self.payload();
                    self.call(t, Call::Propose(vec![], p));
                } else {
                    self.call(t, Call::ProposeConfChange(vec![], cc));
                }
            }
            865..=884 => {
                let ctx = vec![(self.next_payload % 250) as u8, (self.next_payload / 250 % 250) as u8, 2];
                self.next_payload += 1;
                self.call(i, Call::ReadIndex(ctx));
            }
            885..=899 => {
                let to = 1 + self.rng.below(nn as u64 + 1);
                self.call(i, Call::TransferLeader(to));
            }
            900..=909 => {
                let skip = self.voter_campaign_only && self.nodes[i].driver.as_ref().map_or(false, |d| !d.node.raft.promotable());
                if !skip {
                    self.call(i, Call::Campaign);
                }
            }
            910..=929 => self.compact(i),
            930..=939 => {
                if !self.net.is_empty() {
                    let k = self.rng.below(self.net.len() as u64) as usize;
                    let m = self.net.remove(k);
                    self.note(|| format!("net drop {:?} {}->{}", m.get_msg_type(), m.from, m.to));
                }
            }
            940..=949 => {
                let id = 1 + self.rng.below(nn as u64 + 1);
                if self.rng.chance(1, 2) {
                    self.call(i, Call::ReportUnreachable(id));
                } else {
                    let f = self.rng.chance(1, 2);
                    self.call(i, Call::ReportSnapshot(id, f));
                }
            }
            950..=957 => {
                self.call(i, Call::RequestSnapshot);
            }
            958..=969 => {
                // crash (volatile state lost; everything written to the store is durable)
                if self.nodes[i].driver.is_some() && self.nodes.iter().filter(|n| n.driver.is_some()).count() > 1 {
                    self.nodes[i].driver = None;
                    let nid = self.nodes[i].id;
                    self.pt.crash(nid);
                    self.nodes[i].async_pending.clear();
                    self.nodes[i].to_apply.clear();
                    self.lose_unsynced(i);
                    let id = self.nodes[i].id;
                    self.note(|| format!("{} crash", id));
                    self.with_mon(|m, s| m.on_crash(s, i));
                }
            }
            970..=984 => {
                if self.nodes[i].driver.is_none() {
                    self.start(i);
                }
            }
            _ => {
                let c = match self.rng.below(9) {
                    0 => Call::SetPriority(self.rng.below(3) as i64 - 1),
                    1 => Call::SetApplyLimit(*self.rng.pick(&[0u64, 1, 3, 5])),
                    2 => Call::AdjustInflight(1 + self.rng.below(nn as u64 + 1), self.rng.below(5)),
                    3 => Call::SetCheckQuorum(self.rng.chance(1, 2)),
                    4 => Call::EnableGroupCommit(self.rng.chance(1, 2)),
                    5 => Call::AssignCommitGroups((1..=nn as u64).map(|k| (k, 1 + self.rng.below(2))).collect()),
                    6 => Call::SkipBcastCommit(self.rng.chance(1, 2)),
                    7 => Call::Ping,
                    _ => Call::MaybeFreeInflight,
                };
                self.call(i, c);
            }
        }
    }

    /// One event of the run's profile (see `focus`): the rare operations of one area, aimed at the
    /// leader where that is where they matter.
    fn focus_event(&mut self) {
        let nn = self.nodes.len() as u64;
        let any = self.rng.below(nn) as usize;
        let l = self.leader().unwrap_or(any);
        let peer = 1 + self.rng.below(nn + 1);
        match self.focus {
            1 => match self.rng.below(8) {
                0 | 1 => {
                    let cap = self.rng.below(4);
                    self.call(l, Call::AdjustInflight(peer, cap));
                }
                2 => {
                    self.call(l, Call::ReportUnreachable(peer));
                }
                3 => {
                    let ok = self.rng.chance(1, 2);
                    self.call(l, Call::ReportSnapshot(peer, ok));
                }
                4 => {
                    let b = self.rng.chance(1, 2);
                    self.call(l, Call::SetBatchAppend(b));
                }
                5 => {
                    self.call(l, Call::MaybeFreeInflight);
                }
                _ => {
                    for _ in 0..(1 + self.rng.below(4)) {
                        let p = self.payload();
                        self.call(l, Call::Propose(vec![], p));
                    }
                }
            },
            2 => match self.rng.below(6) {
                0 | 1 => {
                    let t = if self.rng.chance(3, 4) { l } else { any };
                    self.call(t, Call::TransferLeader(peer));
                }
                2 | 3 if !self.fixed_conf => {
                    // demote / promote / remove one concrete node, simple or joint
                    let ty = self.rng.below(3);
                    let cc = if self.rng.chance(1, 2) {
                        let mut c = ConfChange::default();
                        c.set_change_type(match ty {
                            0 => ConfChangeType::AddNode,
                            1 => ConfChangeType::RemoveNode,
                            _ => ConfChangeType::AddLearnerNode,
                        });
                        c.node_id = peer;
                        CcKind::V1(c)
                    } else {
                        CcKind::V2(cc_v2(self.rng.below(3), &[(ty, peer)]))
                    };
                    self.call(l, Call::ProposeConfChange(vec![], cc));
                }
                4 if self.rng.chance(1, 2) => {
                    // the node with the largest apply backlog campaigns
                    let mut best = any;
                    for j in 0..self.nodes.len() {
                        if self.nodes[j].driver.is_some() && self.nodes[j].to_apply.len() > self.nodes[best].to_apply.len() {
                            best = j;
                        }
                    }
                    // ... or the one with the most committed entries its store has not persisted yet
                    // (the campaign guard has to look at them although nothing can be handed out)
                    if self.rng.chance(1, 2) {
                        let gap = |n: &SimNode| n.driver.as_ref().map_or(0, |d| {
                            let l = &d.node.raft.raft_log;
                            l.committed.saturating_sub(l.persisted.max(l.applied))
                        });
                        for j in 0..self.nodes.len() {
                            if gap(&self.nodes[j]) > gap(&self.nodes[best]) {
                                best = j;
                            }
                        }
                    }
                    self.call(best, Call::Campaign);
                }
                4 => {
                    // lose a message (keeps transfers and changes pending)
                    if !self.net.is_empty() {
                        let k = self.rng.below(self.net.len() as u64) as usize;
                        self.net.remove(k);
                    }
                }
                _ if !self.fixed_conf => {
                    // a membership change touching a node, then at once a transfer to that node:
                    // the change is applied while the transfer is pending
                    let ty = *self.rng.pick(&[1u64, 2, 2]);
                    let cc = if self.rng.chance(1, 2) {
                        let mut c = ConfChange::default();
                        c.set_change_type(if ty == 1 { ConfChangeType::RemoveNode } else { ConfChangeType::AddLearnerNode });
                        c.node_id = peer;
                        CcKind::V1(c)
                    } else {
                        CcKind::V2(cc_v2(self.rng.below(3), &[(ty, peer)]))
                    };
                    self.call(l, Call::ProposeConfChange(vec![], cc));
                    self.call(l, Call::TransferLeader(peer));
                }
                _ => {
                    self.call(l, Call::Tick);
                }
            },
            3 => match self.rng.below(6) {
                0 | 1 => self.compact(any),
                2 => {
                    self.call(any, Call::RequestSnapshot);
                }
                3 => {
                    let snaps: Vec<usize> = (0..self.archive.len()).filter(|&j| self.archive[j].get_msg_type() == MessageType::MsgSnapshot).collect();
                    if !snaps.is_empty() {
                        let m = self.archive[*self.rng.pick(&snaps)].clone();
                        if let Some(i) = self.idx_of(m.to) {
                            self.call(i, Call::Step(m));
                        }
                    }
                }
                4 => {
                    let ok = self.rng.chance(2, 3);
                    self.call(l, Call::ReportSnapshot(peer, ok));
                }
                _ => {
                    let p = self.payload();
                    self.call(l, Call::Propose(vec![], p));
                }
            },
            _ => {
                let ctx = if self.rng.chance(1, 6) && self.adversarial { vec![1, 1, 2] } else { vec![(self.next_payload % 250) as u8, (self.next_payload / 250 % 250) as u8, 2] };
                self.next_payload += 1;
                let t = if self.rng.chance(1, 2) { l } else { any };
                self.call(t, Call::ReadIndex(ctx));
            }
        }
    }

    /// A healthy phase: tick everybody, deliver everything, run ready rounds, so that
    /// elections complete and logs grow.
    pub fn healthy_phase(&mut self, rounds: usize) {
        for _ in 0..rounds {
            for i in 0..self.nodes.len() {
                self.call(i, Call::Tick);
            }
            for _ in 0..3 {
                for i in 0..self.nodes.len() {
                    self.ready_round(i);
                    self.persist_async(i);
                    self.apply_entries(i, true, true);
                }
                let msgs = std::mem::take(&mut self.net);
                for m in msgs {
                    if let Some(i) = self.idx_of(m.to) {
                        self.call(i, Call::Step(m));
                    }
                }
            }
            if self.rng.chance(1, 3) {
                if let Some(l) = self.leader() {
                    let p = self.payload();
                    self.call(l, Call::Propose(vec![], p));
                }
            }
        }
    }

    pub fn run(&mut self, steps: usize) {
        self.boot();
        let mut done = 0;
        while done < steps && !self.halted {
            if self.rng.chance(1, 3) {
                let r = 2 + self.rng.below(12) as usize;
                self.healthy_phase(r);
                done += r * 4;
            } else {
                let k = 10 + self.rng.below(60) as usize;
                for _ in 0..k {
                    self.step_random();
                }
                done += k;
            }
            // keep logs short so that state dumps stay small
            for i in 0..self.nodes.len() {
                let n = &self.nodes[i];
                let first = n.store.first_index().unwrap();
                if n.applied > first + self.max_log {
                    self.compact(i);
                }
            }
        }
    }
}

pub fn unused(_: &Snapshot, _: &ConfState, _: &Entry, _: MessageType) {}
