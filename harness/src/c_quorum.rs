//! C11: drives the real quorum code: raft::MajorityConfig directly, raft::JointConfig
//! (obtained from a ProgressTracker built with the public Changer, because the
//! outgoing half has no public constructor) and raft::ProgressTracker
//! (maximal_committed_index, record_vote, tally_votes, has_quorum).
//!
//! The voter sets are hash sets; every case carries the implementation's own
//! iteration order of each half (raw_slice() / to_conf_state()) so that the model
//! sorts exactly the same sequence.
//!
//! Wire format: see coq/Run/RunQuorum.v.
//!
//! Modes: `exhaustive`, `random` write cases + the implementation's answers;
//! `monitor --cases f1,f2,..` re-runs the REAL implementation on recorded case lines
//! and checks it against the naive counting oracle (the property's specification).
use crate::util::*;
use raft::eraftpb::{ConfChangeSingle, ConfChangeType};
use raft::{Changer, MajorityConfig, Progress, ProgressTracker};
use std::collections::{HashMap, HashSet};
use std::hash::BuildHasherDefault;

type Fx = BuildHasherDefault<fxhash::FxHasher>;
type FxSet = HashSet<u64, Fx>;
type PMap = HashMap<u64, Progress, Fx>;

const COMP: &str = "quorum";

/// One test case in implementation-independent form.
#[derive(Clone, Default)]
pub struct Case {
    pub inc: Vec<u64>,
    pub out: Vec<u64>,
    /// (id, matched, commit_group_id); ids unique
    pub acks: Vec<(u64, u64, u64)>,
    /// (id, vote) in record order; ids may repeat (first wins in the tracker)
    pub votes: Vec<(u64, bool)>,
    /// potential quorum for has_quorum
    pub set: Vec<u64>,
}

fn vote_code(s: &str) -> u64 {
    match s {
        "VotePending" => 0,
        "VoteLost" => 1,
        "VoteWon" => 2,
        other => panic!("unknown vote result {}", other),
    }
}

fn pmap(acks: &[(u64, u64, u64)]) -> PMap {
    let mut m = PMap::default();
    for &(id, idx, g) in acks {
        let mut p = Progress::new(1, 16);
        p.matched = idx;
        p.commit_group_id = g;
        m.insert(id, p);
    }
    m
}

/// first-wins map of the recorded votes (what record_vote builds)
fn vote_map(votes: &[(u64, bool)]) -> HashMap<u64, bool> {
    let mut m = HashMap::new();
    for &(id, v) in votes {
        m.entry(id).or_insert(v);
    }
    m
}

fn single(id: u64, t: ConfChangeType) -> ConfChangeSingle {
    let mut c = ConfChangeSingle::default();
    c.node_id = id;
    c.set_change_type(t);
    c
}

/// Builds a tracker whose config is incoming=`inc`, outgoing=`out` using only the
/// public Changer API (the same sequence as confchange::restore).  `inc` must be
/// non-empty and ids non-zero.
pub fn build_tracker(inc: &[u64], out: &[u64]) -> ProgressTracker {
    let mut t = ProgressTracker::new(16);
    if out.is_empty() {
        for &id in inc {
            let (cfg, ch) = Changer::new(&t).simple(&[single(id, ConfChangeType::AddNode)]).unwrap();
            t.apply_conf(cfg, ch, 1);
        }
    } else {
        for &id in out {
            let (cfg, ch) = Changer::new(&t).simple(&[single(id, ConfChangeType::AddNode)]).unwrap();
            t.apply_conf(cfg, ch, 1);
        }
        let mut ccs = vec![];
        for &id in out {
            ccs.push(single(id, ConfChangeType::RemoveNode));
        }
        for &id in inc {
            ccs.push(single(id, ConfChangeType::AddNode));
        }
        let (cfg, ch) = Changer::new(&t).enter_joint(false, &ccs).unwrap();
        t.apply_conf(cfg, ch, 1);
    }
    t
}

fn header(op: u64, inc: &[u64], out: &[u64], c: &Case) -> Vec<u64> {
    let mut input = vec![op];
    enc_list(inc, &mut input);
    enc_list(out, &mut input);
    input.push(c.acks.len() as u64);
    for &(id, i, g) in &c.acks {
        input.extend_from_slice(&[id, i, g]);
    }
    input.push(c.votes.len() as u64);
    for &(id, v) in &c.votes {
        input.extend_from_slice(&[id, v as u64]);
    }
    enc_list(&c.set, &mut input);
    input
}

/// What the implementation answered for one case, plus the iteration orders used.
pub struct Eval {
    pub op: u64,
    pub inc_order: Vec<u64>,
    pub out_order: Vec<u64>,
    /// the case as actually applied (op 2 drops acks of untracked ids)
    pub case: Case,
    pub out: Vec<u64>,
}

impl Eval {
    pub fn input(&self) -> Vec<u64> {
        header(self.op, &self.inc_order, &self.out_order, &self.case)
    }
}

/// op 0: MajorityConfig direct; only `c.inc` is used.
pub fn eval_majority(c: &Case) -> Eval {
    let set: FxSet = c.inc.iter().cloned().collect();
    let cfg = MajorityConfig::new(set);
    let order = cfg.raw_slice();
    let m = pmap(&c.acks);
    let vm = vote_map(&c.votes);
    let (i0, f0) = cfg.committed_index(false, &m);
    let (i1, f1) = cfg.committed_index(true, &m);
    let vr = format!("{}", cfg.vote_result(|id| vm.get(&id).cloned()));
    let out = vec![raft::majority(order.len()) as u64, i0, f0 as u64, i1, f1 as u64, vote_code(&vr)];
    let mut case = c.clone();
    case.out.clear();
    Eval { op: 0, inc_order: order, out_order: vec![], case, out }
}

/// op 1 (JointConfig direct, own acked map so acks may be missing) or
/// op 2 (through the ProgressTracker; every tracked id has a Progress).
/// `c.inc` must be non-empty and ids non-zero.
pub fn eval_joint(c: &Case, op: u64) -> Eval {
    let mut t = build_tracker(&c.inc, &c.out);
    let cs = t.conf().to_conf_state();
    let inc_order: Vec<u64> = cs.get_voters().to_vec();
    let out_order: Vec<u64> = cs.get_voters_outgoing().to_vec();
    {
        let mut a = inc_order.clone();
        a.sort_unstable();
        let mut b = c.inc.clone();
        b.sort_unstable();
        b.dedup();
        assert_eq!(a, b, "incoming half differs from the requested one");
        let mut a = out_order.clone();
        a.sort_unstable();
        let mut b = c.out.clone();
        b.sort_unstable();
        b.dedup();
        assert_eq!(a, b, "outgoing half differs from the requested one");
    }
    if op == 1 {
        let m = pmap(&c.acks);
        let vm = vote_map(&c.votes);
        let j = t.conf().voters();
        let (i0, f0) = j.committed_index(false, &m);
        let (i1, f1) = j.committed_index(true, &m);
        let vr = format!("{}", j.vote_result(|id| vm.get(&id).cloned()));
        let out = vec![i0, f0 as u64, i1, f1 as u64, vote_code(&vr)];
        Eval { op, inc_order, out_order, case: c.clone(), out }
    } else {
        // acks for untracked ids cannot be stored in the tracker: drop them from the case
        let mut c2 = c.clone();
        c2.acks.retain(|&(id, _, _)| t.get(id).is_some());
        for &(id, i, g) in &c2.acks {
            let p = t.get_mut(id).unwrap();
            p.matched = i;
            p.commit_group_id = g;
        }
        t.enable_group_commit(false);
        assert!(!t.group_commit());
        let (i0, f0) = t.maximal_committed_index();
        t.enable_group_commit(true);
        let (i1, f1) = t.maximal_committed_index();
        t.reset_votes();
        for &(id, v) in &c2.votes {
            t.record_vote(id, v);
        }
        let (g, r, res) = t.tally_votes();
        let vr = format!("{}", res);
        let pq: FxSet = c2.set.iter().cloned().collect();
        let hq = t.has_quorum(&pq);
        let out = vec![i0, f0 as u64, i1, f1 as u64, g as u64, r as u64, vote_code(&vr), hq as u64];
        Eval { op, inc_order, out_order, case: c2, out }
    }
}

pub fn run_majority(c: &Case, sh: &mut Shard) {
    let e = eval_majority(c);
    sh.put(COMP, &e.input(), &e.out);
}

pub fn run_joint(c: &Case, direct: bool, tracker: bool, sh: &mut Shard) {
    if direct {
        let e = eval_joint(c, 1);
        sh.put(COMP, &e.input(), &e.out);
    }
    if tracker {
        let e = eval_joint(c, 2);
        sh.put(COMP, &e.input(), &e.out);
    }
}

// ---------------------------------------------------------------------------
// The naive counting oracle = the property's specification (the statements proved
// in coq/M/QuorumProofs.v), evaluated independently of the Coq model.

/// (plain, group-commit) commit index of one majority set, by counting.
///  plain : largest acknowledged index with a majority behind it (missing = (0,0)),
///          empty set => (u64::MAX, true)
///  gc    : two distinct non-zero groups occur => (min(plain, G), true), G = largest
///          index replicated into two (non-zero) groups; all voters in one non-zero
///          group => (plain, false); otherwise => (smallest acknowledged index, false)
fn spec_commit(ids: &[u64], acks: &HashMap<u64, (u64, u64)>) -> ((u64, bool), (u64, bool)) {
    if ids.is_empty() {
        return ((u64::MAX, true), (u64::MAX, true));
    }
    let ig: Vec<(u64, u64)> = ids.iter().map(|id| acks.get(id).cloned().unwrap_or((0, 0))).collect();
    let q = ids.len() / 2 + 1;
    let cnt = |r: u64| ig.iter().filter(|x| x.0 >= r).count();
    let best = ig.iter().map(|x| x.0).filter(|&r| cnt(r) >= q).max().unwrap();
    let mut pair_best: Option<u64> = None;
    for x in &ig {
        for y in &ig {
            if x.1 != 0 && y.1 != 0 && x.1 != y.1 {
                let v = x.0.min(y.0);
                pair_best = Some(pair_best.map_or(v, |b| b.max(v)));
            }
        }
    }
    let gc = match pair_best {
        Some(g) => (g.min(best), true),
        None => {
            if ig.iter().all(|x| x.1 != 0) {
                (best, false)
            } else {
                (ig.iter().map(|x| x.0).min().unwrap(), false)
            }
        }
    };
    ((best, false), gc)
}

/// 0 pending, 1 lost, 2 won for one majority set
fn spec_vote(ids: &[u64], vm: &HashMap<u64, bool>) -> u64 {
    if ids.is_empty() {
        return 2;
    }
    let yes = ids.iter().filter(|id| vm.get(id) == Some(&true)).count();
    let missing = ids.iter().filter(|id| vm.get(id).is_none()).count();
    let q = ids.len() / 2 + 1;
    if yes >= q {
        2
    } else if yes + missing < q {
        1
    } else {
        0
    }
}

fn spec_joint_vote(i: u64, o: u64) -> u64 {
    if i == 2 && o == 2 {
        2
    } else if i == 1 || o == 1 {
        1
    } else {
        0
    }
}

const VNAME: [&str; 3] = ["VotePending", "VoteLost", "VoteWon"];

/// Checks the implementation's answers `e.out` against the specification.
fn check_eval(e: &Eval) -> Option<String> {
    let c = &e.case;
    let mut acks: HashMap<u64, (u64, u64)> = HashMap::new();
    for &(id, i, g) in &c.acks {
        acks.insert(id, (i, g));
    }
    let vm = vote_map(&c.votes);
    let (inc, out) = (&e.inc_order, &e.out_order);
    let o = &e.out;
    let (base, what) = match e.op {
        0 => (1, "MajorityConfig"),
        1 => (0, "JointConfig"),
        _ => (0, "ProgressTracker"),
    };
    if e.op == 0 && o[0] != (inc.len() / 2 + 1) as u64 {
        return Some(format!("majority({}) = {} but n/2+1 = {}", inc.len(), o[0], inc.len() / 2 + 1));
    }
    let (pi, gi) = spec_commit(inc, &acks);
    let (po, go) = spec_commit(out, &acks);
    let plain = (pi.0.min(po.0), pi.1 && po.1);
    let gc = (gi.0.min(go.0), gi.1 && go.1);
    let got_plain = (o[base], o[base + 1] != 0);
    let got_gc = (o[base + 2], o[base + 3] != 0);
    if got_plain != plain {
        return Some(format!(
            "{}: committed_index(no group commit) = {:?} but the largest index acknowledged by a majority of each non-empty voter set is {:?} (incoming {:?} outgoing {:?} acks {:?})",
            what, got_plain, plain, inc, out, c.acks
        ));
    }
    if got_gc.0 > got_plain.0 {
        return Some(format!("{}: group-commit index {} exceeds the plain quorum index {}", what, got_gc.0, got_plain.0));
    }
    if got_gc != gc {
        return Some(format!(
            "{}: committed_index(group commit) = {:?} but the specification (min of plain quorum index and largest index replicated into two groups) gives {:?} (incoming {:?} outgoing {:?} acks {:?})",
            what, got_gc, gc, inc, out, c.acks
        ));
    }
    let vpos = if e.op == 2 { 6 } else { base + 4 };
    let want = spec_joint_vote(spec_vote(inc, &vm), spec_vote(out, &vm));
    if o[vpos] != want {
        return Some(format!(
            "{}: vote result {} but counting gives {} (incoming {:?} outgoing {:?} votes {:?})",
            what, VNAME[o[vpos] as usize % 3], VNAME[want as usize], inc, out, c.votes
        ));
    }
    if e.op == 2 {
        let member = |id: &u64| inc.contains(id) || out.contains(id);
        let granted = vm.iter().filter(|(id, v)| member(id) && **v).count() as u64;
        let rejected = vm.iter().filter(|(id, v)| member(id) && !**v).count() as u64;
        if (o[4], o[5]) != (granted, rejected) {
            return Some(format!("tally_votes counted granted={} rejected={} but the recorded votes of members are granted={} rejected={}", o[4], o[5], granted, rejected));
        }
        let half = |h: &Vec<u64>| h.is_empty() || h.iter().filter(|id| c.set.contains(id)).count() >= h.len() / 2 + 1;
        let hq = half(inc) && half(out);
        if (o[7] != 0) != hq {
            return Some(format!("has_quorum({:?}) = {} but the set {} a majority of each non-empty half (incoming {:?} outgoing {:?})", c.set, o[7] != 0, if hq { "contains" } else { "does not contain" }, inc, out));
        }
    }
    None
}

/// `quorum <numbers>` -> (op, Case); None if malformed.
fn decode_case(line: &str) -> Option<(u64, Case)> {
    let mut it = line.split_whitespace();
    if it.next()? != COMP {
        return None;
    }
    let v: Vec<u64> = it.map(|x| x.parse().ok()).collect::<Option<Vec<u64>>>()?;
    let mut p = 0usize;
    let mut next = |p: &mut usize| -> Option<u64> {
        let x = *v.get(*p)?;
        *p += 1;
        Some(x)
    };
    let op = next(&mut p)?;
    let mut c = Case::default();
    let n = next(&mut p)?;
    for _ in 0..n {
        c.inc.push(next(&mut p)?);
    }
    let n = next(&mut p)?;
    for _ in 0..n {
        c.out.push(next(&mut p)?);
    }
    let n = next(&mut p)?;
    for _ in 0..n {
        let (a, b, g) = (next(&mut p)?, next(&mut p)?, next(&mut p)?);
        c.acks.retain(|x| x.0 != a); // HashMap::insert: later wins
        c.acks.push((a, b, g));
    }
    let n = next(&mut p)?;
    for _ in 0..n {
        let (a, b) = (next(&mut p)?, next(&mut p)?);
        c.votes.push((a, b != 0));
    }
    let n = next(&mut p)?;
    for _ in 0..n {
        c.set.push(next(&mut p)?);
    }
    if op > 2 {
        return None;
    }
    Some((op, c))
}

/// Rebuilds the real objects for the case, runs the real implementation, checks the
/// specification.  `inject`: test-only fault injection (adds 1 to out[pos]) used to
/// exercise the FAIL path of the monitor itself.
fn monitor_case(op: u64, c: &Case, inject: Option<usize>) -> Option<(Eval, String)> {
    let mut e = if op == 0 {
        eval_majority(c)
    } else {
        if c.inc.is_empty() || c.inc.contains(&0) || c.out.contains(&0) {
            return None; // not constructible through the public API
        }
        eval_joint(c, op)
    };
    if let Some(pos) = inject {
        if pos < e.out.len() {
            e.out[pos] = e.out[pos].wrapping_add(1);
        }
    }
    check_eval(&e).map(|r| (e, r))
}

/// Greedy one-element-removal shrinking of a failing case.
fn shrink(op: u64, c: &Case, inject: Option<usize>) -> Case {
    let mut best = c.clone();
    loop {
        let mut cands: Vec<Case> = vec![];
        for k in 0..best.acks.len() { let mut x = best.clone(); x.acks.remove(k); cands.push(x); }
        for k in 0..best.votes.len() { let mut x = best.clone(); x.votes.remove(k); cands.push(x); }
        for k in 0..best.set.len() { let mut x = best.clone(); x.set.remove(k); cands.push(x); }
        for k in 0..best.out.len() { let mut x = best.clone(); x.out.remove(k); cands.push(x); }
        for k in 0..best.inc.len() { let mut x = best.clone(); x.inc.remove(k); cands.push(x); }
        match cands.into_iter().find(|x| monitor_case(op, x, inject).is_some()) {
            Some(x) => best = x,
            None => return best,
        }
    }
}

fn monitor(args: &[String]) {
    let files = arg(args, "--cases", "");
    let inject: Option<usize> = arg(args, "--inject", "").parse().ok();
    let mut n = 0u64;
    for f in files.split(',').filter(|x| !x.is_empty()) {
        let text = std::fs::read_to_string(f).unwrap();
        for line in text.lines() {
            if let Some((op, c)) = decode_case(line) {
                n += 1;
                if monitor_case(op, &c, inject).is_some() {
                    let small = shrink(op, &c, inject);
                    let (e, reason) = monitor_case(op, &small, inject).unwrap();
                    println!("FAIL {} {}", COMP, e.input().iter().map(|x| x.to_string()).collect::<Vec<_>>().join(" "));
                    println!("REASON {}", reason);
                    return;
                }
            }
        }
    }
    println!("MONITOR-OK cases={}", n);
}

fn subsets(n: u64) -> Vec<Vec<u64>> {
    (0..(1u64 << n)).map(|m| (1..=n).filter(|i| m & (1 << (i - 1)) != 0).collect()).collect()
}

fn union(a: &[u64], b: &[u64]) -> Vec<u64> {
    let mut u: Vec<u64> = a.iter().chain(b.iter()).cloned().collect();
    u.sort_unstable();
    u.dedup();
    u
}

/// All assignments ids -> option in 0..k (k = "missing" when allow_missing), odometer order.
fn for_each_assignment(n: usize, k: u64, mut f: impl FnMut(&[u64])) {
    let mut a = vec![0u64; n];
    loop {
        f(&a);
        let mut i = 0;
        loop {
            if i == n {
                return;
            }
            a[i] += 1;
            if a[i] < k {
                break;
            }
            a[i] = 0;
            i += 1;
        }
    }
}

struct Out {
    shards: Vec<Shard>,
    rr: usize,
}
impl Out {
    fn next(&mut self) -> &mut Shard {
        let k = self.rr % self.shards.len();
        self.rr += 1;
        &mut self.shards[k]
    }
}

/// Bounded-exhaustive: ids ⊆ {1..depth} per half, indexes 0..3, groups 0..2,
/// missing acks, votes over {yes,no,missing}.
fn exhaustive(depth: u64, o: &mut Out) {
    const NIDX: u64 = 4;
    const NGRP: u64 = 3;
    let subs = subsets(depth);
    let ack_of = |ids: &[u64], a: &[u64], allow_missing: bool| -> Vec<(u64, u64, u64)> {
        let mut v = vec![];
        for (k, &id) in ids.iter().enumerate() {
            let mut x = a[k];
            if allow_missing {
                if x == 0 {
                    continue;
                }
                x -= 1;
            }
            v.push((id, x / NGRP, x % NGRP));
        }
        v
    };
    let votes_of = |ids: &[u64], a: &[u64]| -> (Vec<(u64, bool)>, Vec<u64>) {
        let mut v = vec![];
        let mut s = vec![];
        for (k, &id) in ids.iter().enumerate() {
            match a[k] {
                0 => {}
                1 => {
                    v.push((id, true));
                    s.push(id)
                }
                _ => v.push((id, false)),
            }
        }
        (v, s)
    };
    let all: Vec<u64> = (1..=depth).collect();
    // majority configs (including the empty one)
    for inc in &subs {
        for_each_assignment(inc.len(), NIDX * NGRP + 1, |a| {
            let c = Case { inc: inc.clone(), acks: ack_of(inc, a, true), ..Default::default() };
            run_majority(&c, o.next());
        });
        // votes range over all ids so that votes of non-members are exercised
        for_each_assignment(all.len(), 3, |a| {
            let (votes, set) = votes_of(&all, a);
            let c = Case { inc: inc.clone(), votes, set, ..Default::default() };
            run_majority(&c, o.next());
        });
    }
    // joint configs: incoming non-empty (the Changer refuses an empty incoming half)
    for inc in subs.iter().filter(|s| !s.is_empty()) {
        for out in &subs {
            let u = union(inc, out);
            for_each_assignment(u.len(), NIDX * NGRP + 1, |a| {
                let c = Case { inc: inc.clone(), out: out.clone(), acks: ack_of(&u, a, true), ..Default::default() };
                run_joint(&c, true, false, o.next());
            });
            for_each_assignment(u.len(), NIDX * NGRP, |a| {
                let c = Case { inc: inc.clone(), out: out.clone(), acks: ack_of(&u, a, false), ..Default::default() };
                run_joint(&c, false, true, o.next());
            });
            for_each_assignment(all.len(), 3, |a| {
                let (votes, set) = votes_of(&all, a);
                let c = Case { inc: inc.clone(), out: out.clone(), votes, set, ..Default::default() };
                run_joint(&c, true, false, o.next());
                run_joint(&c, false, true, o.next());
            });
        }
    }
}

fn random_case(rng: &mut Rng, o: &mut Out) {
    // id pool: small ids so that halves overlap, sometimes huge ids
    let pool: Vec<u64> = {
        let n = 1 + rng.below(14);
        let mut p: Vec<u64> = vec![];
        while (p.len() as u64) < n {
            let id = if rng.chance(1, 8) { u64::MAX - rng.below(4) } else if rng.chance(1, 6) { 1 + rng.below(1 << 40) } else { 1 + rng.below(20) };
            if !p.contains(&id) {
                p.push(id);
            }
        }
        p
    };
    let half = |rng: &mut Rng| -> Vec<u64> {
        let n = rng.below(10).min(pool.len() as u64);
        let mut h: Vec<u64> = vec![];
        while (h.len() as u64) < n {
            let id = *rng.pick(&pool);
            if !h.contains(&id) {
                h.push(id);
            }
        }
        h
    };
    let inc = half(rng);
    let out = if rng.chance(1, 4) { vec![] } else { half(rng) };
    // index pool with ties, 0 and u64::MAX
    let ipool: Vec<u64> = {
        let n = 1 + rng.below(5);
        (0..n)
            .map(|_| match rng.below(8) {
                0 => 0,
                1 => u64::MAX,
                2 => u64::MAX - 1,
                3 => rng.next(),
                _ => rng.below(12),
            })
            .collect()
    };
    let ngrp = 1 + rng.below(4); // groups 0..ngrp-1 (<= 3)
    let all_grouped = rng.chance(1, 3);
    let miss = rng.below(4); // probability miss/8 of a missing ack
    let mut acks = vec![];
    for &id in &pool {
        if rng.below(8) < miss {
            continue;
        }
        let g = if all_grouped { 1 + rng.below(3) } else { rng.below(ngrp) };
        acks.push((id, *rng.pick(&ipool), g));
    }
    let mut votes = vec![];
    let mut set = vec![];
    let pyes = 1 + rng.below(6);
    for &id in &pool {
        match rng.below(8) {
            x if x < pyes => {
                votes.push((id, true));
                if !rng.chance(1, 10) {
                    set.push(id)
                }
            }
            7 => {}
            _ => votes.push((id, false)),
        }
    }
    // a few duplicate records (first wins) and votes of strangers
    for _ in 0..rng.below(3) {
        votes.push((*rng.pick(&pool), rng.chance(1, 2)));
    }
    if rng.chance(1, 3) {
        votes.push((1000 + rng.below(5), rng.chance(1, 2)));
        set.push(2000 + rng.below(5));
    }
    let c = Case { inc: inc.clone(), out: out.clone(), acks, votes, set };
    run_majority(&c, o.next());
    if !out.is_empty() {
        let c2 = Case { inc: out.clone(), ..c.clone() };
        run_majority(&c2, o.next());
    }
    if !inc.is_empty() {
        run_joint(&c, true, true, o.next());
    }
}

pub fn main(args: &[String]) {
    let mode = arg(args, "--mode", "exhaustive");
    if mode == "monitor" {
        return monitor(args);
    }
    let dir = arg(args, "--out", "/verif/build/run");
    let nsh: usize = arg(args, "--shards", "16").parse().unwrap();
    let seed: u64 = arg(args, "--seed", "1").parse().unwrap();
    std::fs::create_dir_all(&dir).unwrap();
    let mut total = 0;
    if mode == "exhaustive" {
        let depth: u64 = arg(args, "--depth", "3").parse().unwrap();
        let shards = (0..nsh).map(|k| Shard::create(&dir, "quorum-exh", k)).collect();
        let mut o = Out { shards, rr: 0 };
        exhaustive(depth, &mut o);
        for s in o.shards {
            total += s.finish();
        }
    } else {
        let count: usize = arg(args, "--count", "100000").parse().unwrap();
        let mut rng = Rng::new(seed);
        let shards = (0..nsh).map(|k| Shard::create(&dir, "quorum-rnd", k)).collect();
        let mut o = Out { shards, rr: 0 };
        for _ in 0..count {
            random_case(&mut rng, &mut o);
        }
        for s in o.shards {
            total += s.finish();
        }
    }
    println!("cases={}", total);
}
