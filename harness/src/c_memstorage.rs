//! C19: drives the real raft::storage::MemStorage (MemStorageCore through
//! `wl()`/`rl()`, and the `Storage` trait) and records its answers.
//!
//! A panic inside a `wl()`/`rl()` guard poisons the RwLock, so a case always
//! ends at its first panic; the exhaustive driver then replays the mutation
//! prefix on a fresh store to continue its query battery.
//!
//! Private state that the public API cannot show directly:
//!  * `snapshot_metadata.{index,term}`: found by probing `term(c)` for the
//!    snapshot indexes this driver applied (for c < first_index, `term(c)` is Ok
//!    only at the snapshot index);
//!  * `snapshot_metadata.conf_state`: never observable (no method reads it);
//!  * `trigger_snap_unavailable`, `trigger_log_unavailable`: only through the
//!    behaviour of `snapshot()` / `entries()`;
//!  * `get_entries_context`: only destructively, via `take_get_entries_context`.
use crate::util::*;
use protobuf::Message as _;
use raft::eraftpb::{ConfState, Entry, EntryType, HardState, Snapshot};
use raft::storage::MemStorage;
use raft::{Error, GetEntriesContext, Storage, StorageError};

pub const PANIC: u64 = 999999;
pub const NO_LIMIT: u64 = u64::MAX;
const COMP: &str = "memstorage";

#[derive(Clone, Debug, PartialEq)]
pub struct Cs { v: Vec<u64>, l: Vec<u64>, vo: Vec<u64>, ln: Vec<u64>, al: bool }

#[derive(Clone, Debug, PartialEq)]
pub struct Ent { ty: u64, term: u64, index: u64, dlen: u64, fill: u64, clen: u64 }

#[derive(Clone, Debug, PartialEq)]
pub enum Op {
    SetHs(u64, u64, u64),
    SetCommit(u64),
    CommitTo(u64),
    SetCs(Cs),
    ApplySnap(u64, u64, Cs),
    Compact(u64),
    Append(Vec<Ent>),
    CommitToConf(u64, Option<Cs>),
    TrigSnap,
    TrigLog(bool),
    TakeCtx,
    InitConf(Vec<u64>, Vec<u64>),
    QInit,
    QEntries(u64, u64, Option<u64>, bool),
    QTerm(u64),
    QFirst,
    QLast,
    QSnap(u64, u64),
    QHard,
    Dump,
}

#[derive(Clone, Debug)]
pub enum Init { New, WithConf(Vec<u64>, Vec<u64>) }

fn enc_cs_in(c: &Cs, out: &mut Vec<u64>) {
    enc_list(&c.v, out); enc_list(&c.l, out); enc_list(&c.vo, out); enc_list(&c.ln, out);
    out.push(c.al as u64);
}

impl Op {
    fn enc(&self, out: &mut Vec<u64>) {
        match self {
            Op::SetHs(t, v, c) => out.extend_from_slice(&[0, *t, *v, *c]),
            Op::SetCommit(c) => out.extend_from_slice(&[1, *c]),
            Op::CommitTo(i) => out.extend_from_slice(&[2, *i]),
            Op::SetCs(c) => { out.push(3); enc_cs_in(c, out) }
            Op::ApplySnap(i, t, c) => { out.extend_from_slice(&[4, *i, *t]); enc_cs_in(c, out) }
            Op::Compact(i) => out.extend_from_slice(&[5, *i]),
            Op::Append(es) => {
                out.push(6); out.push(es.len() as u64);
                for e in es { out.extend_from_slice(&[e.ty, e.term, e.index, e.dlen, e.fill, e.clen]); }
            }
            Op::CommitToConf(i, c) => {
                out.extend_from_slice(&[7, *i]);
                match c { None => out.push(0), Some(c) => { out.push(1); enc_cs_in(c, out) } }
            }
            Op::TrigSnap => out.push(8),
            Op::TrigLog(b) => out.extend_from_slice(&[9, *b as u64]),
            Op::TakeCtx => out.push(10),
            Op::InitConf(v, l) => { out.push(11); enc_list(v, out); enc_list(l, out) }
            Op::QInit => out.push(20),
            Op::QEntries(lo, hi, mx, c) => {
                out.extend_from_slice(&[21, *lo, *hi]);
                match mx { None => out.push(0), Some(m) => { out.push(1); out.push(*m) } }
                out.push(*c as u64);
            }
            Op::QTerm(i) => out.extend_from_slice(&[22, *i]),
            Op::QFirst => out.push(23),
            Op::QLast => out.push(24),
            Op::QSnap(q, t) => out.extend_from_slice(&[25, *q, *t]),
            Op::QHard => out.push(26),
            Op::Dump => out.push(30),
        }
    }
    fn is_mutation(&self) -> bool {
        !matches!(self, Op::QInit | Op::QEntries(..) | Op::QTerm(_) | Op::QFirst | Op::QLast
            | Op::QSnap(..) | Op::QHard | Op::Dump | Op::TakeCtx)
    }
}

fn enc_init(i: &Init, out: &mut Vec<u64>) {
    match i {
        Init::New => out.push(0),
        Init::WithConf(v, l) => { out.push(1); enc_list(v, out); enc_list(l, out) }
    }
}

fn mk_store(i: &Init) -> MemStorage {
    match i {
        Init::New => MemStorage::new(),
        Init::WithConf(v, l) => MemStorage::new_with_conf_state((v.clone(), l.clone())),
    }
}

fn mk_cs(c: &Cs) -> ConfState {
    let mut x = ConfState::default();
    x.voters = c.v.clone();
    x.learners = c.l.clone();
    x.voters_outgoing = c.vo.clone();
    x.learners_next = c.ln.clone();
    x.auto_leave = c.al;
    x
}

fn mk_entry(e: &Ent) -> Entry {
    let mut x = Entry::default();
    x.set_entry_type(match e.ty { 0 => EntryType::EntryNormal, 1 => EntryType::EntryConfChange, _ => EntryType::EntryConfChangeV2 });
    x.term = e.term;
    x.index = e.index;
    x.data = vec![e.fill as u8; e.dlen as usize].into();
    x.context = vec![e.fill as u8; e.clen as usize].into();
    x
}

fn mk_snap(i: u64, t: u64, c: &Cs) -> Snapshot {
    let mut s = Snapshot::default();
    s.mut_metadata().index = i;
    s.mut_metadata().term = t;
    *s.mut_metadata().mut_conf_state() = mk_cs(c);
    s
}

fn enc_cs_out(c: &ConfState, out: &mut Vec<u64>) {
    enc_list(&c.voters, out); enc_list(&c.learners, out);
    enc_list(&c.voters_outgoing, out); enc_list(&c.learners_next, out);
    out.push(c.auto_leave as u64);
}

fn enc_hs_out(h: &HardState, out: &mut Vec<u64>) {
    out.extend_from_slice(&[h.term, h.vote, h.commit]);
}

fn enc_entries_out(es: &[Entry], out: &mut Vec<u64>) {
    out.push(es.len() as u64);
    for e in es {
        out.push(e.get_entry_type() as i32 as u64);
        out.push(e.term);
        out.push(e.index);
        out.push(e.data.len() as u64);
        out.push(e.data.iter().map(|b| *b as u64).sum());
        out.push(e.context.len() as u64);
        assert!(!e.sync_log);
    }
}

fn err_code(e: &Error) -> u64 {
    match e {
        Error::Store(StorageError::Compacted) => 1,
        Error::Store(StorageError::Unavailable) => 2,
        Error::Store(StorageError::SnapshotOutOfDate) => 3,
        Error::Store(StorageError::SnapshotTemporarilyUnavailable) => 4,
        Error::Store(StorageError::LogTemporarilyUnavailable) => 5,
        _ => 99,
    }
}

/// Which function was running when the panic fired (chosen by the op), used
/// with the message text to name the model's site.
#[derive(Clone, Copy, PartialEq)]
enum Fun { CommitTo, Snapshot, Compact, Append, Entries, Term, Init, ApplySnap, First }

fn site_of(f: Fun, msg: &str) -> u64 {
    // `snapshot_metadata.index + 1` in MemStorageCore::first_index
    if msg.contains("attempt to add with overflow") && msg.ends_with("storage.rs:226") { return 1901; }
    let oob = msg.contains("index out of bounds");
    let len0 = msg.contains("the len is 0 ");
    let sub = msg.contains("attempt to subtract with overflow");
    let add = msg.contains("attempt to add with overflow");
    let range_end = msg.contains("range end index");
    let range_start = msg.contains("range start index") || msg.contains("slice index starts at");
    let s = match f {
        Fun::CommitTo if msg.contains("but the entry does not exist") => 1902,
        Fun::CommitTo if oob => 1903,
        Fun::Snapshot if oob && len0 => 1904,
        Fun::Snapshot if sub => 1905,
        Fun::Snapshot if oob => 1906,
        Fun::Snapshot if msg.contains("< snapshot_metadata.index") => 1907,
        Fun::Compact if add => 1908,
        Fun::Compact if msg.contains("compact not received raft logs") => 1909,
        Fun::Compact if range_end => 1910,
        Fun::Append if msg.contains("overwrite compacted raft logs") => 1911,
        Fun::Append if add => 1912,
        Fun::Append if msg.contains("raft logs should be continuous") => 1913,
        Fun::Append if range_start || range_end => 1914,
        Fun::Entries if add => 1915,
        Fun::Entries if msg.contains("index out of bound (last:") => 1916,
        Fun::Entries if oob && len0 => 1917,
        Fun::Entries if sub => 1918,
        Fun::Entries if range_start => 1919,
        Fun::Entries if range_end => 1920,
        Fun::Term if oob => 1921,
        Fun::Init if msg.contains("initialized()") => 1922,
        _ => 9999,
    };
    if s == 9999 { eprintln!("UNMAPPED PANIC: {}", msg); }
    s
}

fn put_res_unit(r: Result<raft::Result<()>, String>, f: Fun, out: &mut Vec<u64>) -> bool {
    match r {
        Ok(Ok(())) => { out.push(0); true }
        Ok(Err(e)) => { out.push(1); out.push(err_code(&e)); true }
        Err(m) => { out.push(PANIC); out.push(site_of(f, &m)); false }
    }
}

pub struct Driver {
    pub s: MemStorage,
    /// snapshot indexes applied so far (latest last) plus 0: probe candidates
    pub cands: Vec<u64>,
}

impl Driver {
    pub fn new(i: &Init) -> Driver { Driver { s: mk_store(i), cands: vec![0] } }

    fn dump(&mut self, out: &mut Vec<u64>) -> bool {
        let s = &self.s;
        let hs = s.rl().hard_state().clone();
        enc_hs_out(&hs, out);
        let st = s.initial_state().unwrap();
        assert!(st.hard_state == hs);
        enc_cs_out(&st.conf_state, out);
        let first = match catch(|| s.first_index().unwrap()) {
            Ok(f) => f,
            Err(m) => { out.push(PANIC); out.push(site_of(Fun::First, &m)); return false }
        };
        let last = s.last_index().unwrap();
        out.push(first); out.push(last);
        if first <= last {
            match catch(|| s.entries(first, last.wrapping_add(1), NO_LIMIT, GetEntriesContext::empty(false))) {
                Ok(Ok(es)) => enc_entries_out(&es, out),
                Ok(Err(e)) => { out.push(1); out.push(err_code(&e)); return false }
                Err(m) => { out.push(PANIC); out.push(site_of(Fun::Entries, &m)); return false }
            }
        } else {
            out.push(0);
        }
        // snapshot point: for c < first, term(c) is Ok only at snapshot_metadata.index
        let mut found = None;
        for c in self.cands.iter().rev() {
            if *c < first {
                if let Ok(t) = s.term(*c) { found = Some((*c, t)); break; }
            }
        }
        match found {
            Some((c, t)) => { out.push(c); out.push(t) }
            None => { out.push(777777); out.push(777777) }
        }
        true
    }

    /// Applies one op to the real store, appends its encoded result; false after a panic.
    pub fn apply(&mut self, op: &Op, out: &mut Vec<u64>) -> bool {
        let s = self.s.clone();
        match op {
            Op::SetHs(t, v, c) => {
                let mut h = HardState::default(); h.term = *t; h.vote = *v; h.commit = *c;
                s.wl().set_hardstate(h); out.push(0); true
            }
            Op::SetCommit(c) => { s.wl().mut_hard_state().set_commit(*c); out.push(0); true }
            Op::CommitTo(i) => put_res_unit(catch(|| s.wl().commit_to(*i)), Fun::CommitTo, out),
            Op::SetCs(c) => { s.wl().set_conf_state(mk_cs(c)); out.push(0); true }
            Op::ApplySnap(i, t, c) => {
                let r = catch(|| s.wl().apply_snapshot(mk_snap(*i, *t, c)));
                if let Ok(Ok(())) = r { self.cands.push(*i); }
                put_res_unit(r, Fun::ApplySnap, out)
            }
            Op::Compact(i) => put_res_unit(catch(|| s.wl().compact(*i)), Fun::Compact, out),
            Op::Append(es) => {
                let v: Vec<Entry> = es.iter().map(mk_entry).collect();
                put_res_unit(catch(|| s.wl().append(&v)), Fun::Append, out)
            }
            Op::CommitToConf(i, c) => {
                let c2 = c.as_ref().map(mk_cs);
                put_res_unit(catch(|| s.wl().commit_to_and_set_conf_states(*i, c2)), Fun::CommitTo, out)
            }
            Op::TrigSnap => { s.wl().trigger_snap_unavailable(); out.push(0); true }
            Op::TrigLog(b) => { s.wl().trigger_log_unavailable(*b); out.push(0); true }
            Op::TakeCtx => {
                let c = s.wl().take_get_entries_context();
                out.push(0);
                match c { None => out.push(0), Some(c) => { out.push(1); out.push(c.can_async() as u64) } }
                true
            }
            Op::InitConf(v, l) => {
                let r = catch(|| -> raft::Result<()> { s.initialize_with_conf_state((v.clone(), l.clone())); Ok(()) });
                put_res_unit(r, Fun::Init, out)
            }
            Op::QInit => {
                let st = s.initial_state().unwrap();
                out.push(0); enc_hs_out(&st.hard_state, out); enc_cs_out(&st.conf_state, out); true
            }
            Op::QEntries(lo, hi, mx, c) => {
                match catch(|| s.entries(*lo, *hi, *mx, GetEntriesContext::empty(*c))) {
                    Ok(Ok(es)) => { out.push(0); enc_entries_out(&es, out); true }
                    Ok(Err(e)) => { out.push(1); out.push(err_code(&e)); true }
                    Err(m) => { out.push(PANIC); out.push(site_of(Fun::Entries, &m)); false }
                }
            }
            Op::QTerm(i) => {
                match catch(|| s.term(*i)) {
                    Ok(Ok(t)) => { out.push(0); out.push(t); true }
                    Ok(Err(e)) => { out.push(1); out.push(err_code(&e)); true }
                    Err(m) => { out.push(PANIC); out.push(site_of(Fun::Term, &m)); false }
                }
            }
            Op::QFirst => {
                match catch(|| s.first_index().unwrap()) {
                    Ok(f) => { out.push(0); out.push(f); true }
                    Err(m) => { out.push(PANIC); out.push(site_of(Fun::First, &m)); false }
                }
            }
            Op::QLast => { out.push(0); out.push(s.last_index().unwrap()); true }
            Op::QSnap(q, t) => {
                match catch(|| s.snapshot(*q, *t)) {
                    Ok(Ok(sn)) => {
                        assert!(sn.data.is_empty());
                        let m = sn.get_metadata();
                        out.push(0); out.push(m.index); out.push(m.term); enc_cs_out(m.get_conf_state(), out); true
                    }
                    Ok(Err(e)) => { out.push(1); out.push(err_code(&e)); true }
                    Err(m) => { out.push(PANIC); out.push(site_of(Fun::Snapshot, &m)); false }
                }
            }
            Op::QHard => { let h = s.rl().hard_state().clone(); out.push(0); enc_hs_out(&h, out); true }
            Op::Dump => self.dump(out),
        }
    }
}

// ---------------------------------------------------------------- exhaustive

const DLENS: [u64; 5] = [0, 1, 127, 128, 300];
const MAXI: u64 = 6;
const MAXT: u64 = 3;

struct Exh { shards: Vec<Shard>, rr: usize, depth: usize, nodes: u64, queries: u64, full_to: usize, narrow_from: usize }

fn cs_a() -> Cs { Cs { v: vec![1, 2, 3], l: vec![], vo: vec![], ln: vec![], al: false } }
fn cs_b() -> Cs { Cs { v: vec![1, 2], l: vec![4], vo: vec![1, 3], ln: vec![5], al: true } }

impl Exh {
    fn emit(&mut self, input: &[u64], out: &[u64]) {
        let k = self.rr % self.shards.len();
        self.rr += 1;
        self.shards[k].put(COMP, input, out);
    }

    /// Replays the mutation prefix on a fresh store. Returns None if it panicked
    /// (then the case has been completed in input/out).
    fn replay(&self, init: &Init, muts: &[Op], input: &mut Vec<u64>, out: &mut Vec<u64>) -> Option<Driver> {
        input.clear(); out.clear();
        enc_init(init, input);
        let mut d = Driver::new(init);
        for m in muts {
            m.enc(input);
            if !d.apply(m, out) { return None; }
        }
        Some(d)
    }

    fn query(&mut self, d: &mut Option<Driver>, init: &Init, muts: &[Op], q: Op,
             input: &mut Vec<u64>, out: &mut Vec<u64>) -> Option<usize> {
        // returns Some(start offset of this query's output) if it did not panic
        self.queries += 1;
        q.enc(input);
        let at = out.len();
        let ok = d.as_mut().unwrap().apply(&q, out);
        if ok { Some(at) } else {
            self.emit(input, out);
            *d = self.replay(init, muts, input, out);
            None
        }
    }

    fn dfs(&mut self, init: &Init, muts: &mut Vec<Op>) {
        self.nodes += 1;
        let mut input = vec![]; let mut out = vec![];
        let mut d = self.replay(init, muts, &mut input, &mut out);
        if d.is_none() { self.emit(&input, &out); return; }
        // state dump
        if self.query(&mut d, init, muts, Op::Dump, &mut input, &mut out).is_none() { return; }
        let (first, last) = { let s = &d.as_ref().unwrap().s; (s.first_index().unwrap(), s.last_index().unwrap()) };
        let full = muts.len() <= self.full_to;
        // ---- query battery
        for q in [Op::QFirst, Op::QLast, Op::QHard, Op::QInit] {
            self.query(&mut d, init, muts, q, &mut input, &mut out);
        }
        for i in 0..=last + 2 { self.query(&mut d, init, muts, Op::QTerm(i), &mut input, &mut out); }
        let lo0 = first.saturating_sub(1);
        let mut los: Vec<u64> = (lo0..=last + 2).collect();
        if lo0 > 0 { los.insert(0, 0); }
        for &lo in &los {
            let mut his: Vec<u64> = (lo0..=last + 2).collect();
            if lo0 > 0 { his.insert(0, 0); }
            for &hi in &his {
                if !full && hi + 1 < lo { continue; }
                let r = self.query(&mut d, init, muts, Op::QEntries(lo, hi, None, false), &mut input, &mut out);
                let at = match r { Some(at) => at, None => continue };
                if out[at] != 0 { continue; }
                let n = out[at + 1];
                // sizes of the entries of the range, from the real encoder
                let mut maxes: Vec<u64> = vec![0];
                if n >= 2 {
                    let es = d.as_ref().unwrap().s.entries(lo, hi, None, GetEntriesContext::empty(false)).unwrap();
                    let s1 = es[0].compute_size() as u64; let s2 = es[1].compute_size() as u64;
                    maxes.extend_from_slice(&[s1, s1 + s2 - 1, s1 + s2, NO_LIMIT - 1, NO_LIMIT]);
                    if n >= 3 { let s3 = es[2].compute_size() as u64; maxes.push(s1 + s2 + s3 - 1); maxes.push(s1 + s2 + s3); }
                }
                for mx in maxes {
                    self.query(&mut d, init, muts, Op::QEntries(lo, hi, Some(mx), false), &mut input, &mut out);
                }
            }
        }
        // asynchronous context (only matters with trigger_log_unavailable), then the stored context
        self.query(&mut d, init, muts, Op::QEntries(first, last + 1, None, true), &mut input, &mut out);
        self.query(&mut d, init, muts, Op::TakeCtx, &mut input, &mut out);
        self.query(&mut d, init, muts, Op::TakeCtx, &mut input, &mut out);
        for q in [0, first, last + 1] {
            self.query(&mut d, init, muts, Op::QSnap(q, 1), &mut input, &mut out);
        }
        self.emit(&input, &out);
        if muts.len() == self.depth { return; }
        // ---- children
        let s = d.as_ref().unwrap().s.clone();
        let hs = s.rl().hard_state().clone();
        let mut cands: Vec<Op> = vec![];
        for pos in lo0..=last + 2 {
            let legal = pos >= first && pos <= last + 1;
            let base = if pos == 0 { 1 } else { s.term(pos - 1).unwrap_or(1).max(1) };
            for n in 1..=2u64 {
                if !legal && n > 1 { continue; }
                if legal && pos + n - 1 > MAXI { continue; }
                for dt in 0..=1u64 {
                    let t = base + dt;
                    if t > MAXT { continue; }
                    if !legal && dt > 0 { continue; }
                    let es: Vec<Ent> = (0..n).map(|k| {
                        let ix = pos + k;
                        let dl = DLENS[((ix * 2 + t + muts.len() as u64) % 5) as usize];
                        Ent { ty: if (ix + t) % 4 == 3 { 1 } else { 0 }, term: t, index: ix, dlen: dl,
                              fill: 1 + (ix + t) % 7, clen: if ix % 3 == 2 { 2 } else { 0 } }
                    }).collect();
                    cands.push(Op::Append(es));
                }
            }
        }
        for i in 0..=last + 2 { cands.push(Op::Compact(i)); }
        let mut sidx: Vec<u64> = vec![0, lo0, first, (first + last) / 2, last, last + 1, last + 2];
        sidx.sort(); sidx.dedup();
        for i in sidx {
            if i > MAXI { continue; }
            for t in [1u64, 3] {
                cands.push(Op::ApplySnap(i, t, if t == 1 { cs_a() } else { cs_b() }));
            }
        }
        for i in lo0..=last + 1 { cands.push(Op::CommitTo(i)); }
        let mut cidx = vec![0, lo0, last + 1]; cidx.sort(); cidx.dedup();
        for c in cidx { if c != hs.commit { cands.push(Op::SetCommit(c)); } }
        if muts.iter().all(|m| !matches!(m, Op::SetHs(..))) { cands.push(Op::SetHs(2, 1, last)); }
        if muts.iter().all(|m| !matches!(m, Op::TrigSnap)) { cands.push(Op::TrigSnap); }
        if muts.iter().all(|m| !matches!(m, Op::TrigLog(_))) { cands.push(Op::TrigLog(true)); }
        if muts.iter().all(|m| !matches!(m, Op::CommitToConf(..))) { cands.push(Op::CommitToConf(last, Some(cs_b()))); }
        if muts.len() >= self.narrow_from {
            // deep levels: keep one representative per kind and position class
            cands.retain(|c| match c {
                Op::Append(es) => es.len() == 1 || (es[0].index == last + 1 && es[0].term == es[1].term),
                Op::Compact(i) => *i == first + 1 || *i == last || *i == last + 1 || *i == last + 2,
                Op::ApplySnap(i, t, _) => (*i == lo0 && *t == 1) || (*i == last + 1 && *t == 3) || (*i == (first + last) / 2 && *t == 3),
                Op::CommitTo(i) => *i == last || *i == first,
                Op::SetCommit(_) | Op::SetHs(..) | Op::CommitToConf(..) => false,
                _ => true,
            });
        }
        for op in cands {
            muts.push(op);
            self.dfs(init, muts);
            muts.pop();
        }
    }
}

// -------------------------------------------------------------------- random

fn rand_cs(rng: &mut Rng) -> Cs {
    let l = |rng: &mut Rng, p: u64| -> Vec<u64> {
        if rng.chance(p, 10) { (0..1 + rng.below(3)).map(|_| 1 + rng.below(6)).collect() } else { vec![] }
    };
    Cs { v: l(rng, 9), l: l(rng, 3), vo: l(rng, 2), ln: l(rng, 2), al: rng.chance(1, 5) }
}

fn rand_dlen(rng: &mut Rng) -> u64 {
    let r = rng.below(100);
    if r < 20 { 0 } else if r < 35 { 1 } else if r < 50 { 127 } else if r < 65 { 128 }
    else if r < 80 { 300 } else if r < 88 { 126 } else if r < 94 { 125 + rng.below(6) }
    else if r < 97 { 16383 } else if r < 99 { 16384 } else { 16379 + rng.below(8) }
}

fn rand_ents(rng: &mut Rng, pos: u64, n: u64, term0: u64, broken: bool) -> Vec<Ent> {
    let mut t = term0.max(1);
    (0..n).map(|k| {
        if rng.chance(1, 4) { t += 1; }
        let mut ix = pos.wrapping_add(k);
        if broken && k > 0 && rng.chance(1, 2) { ix = rng.below(pos + n + 3); }
        Ent { ty: if rng.chance(1, 6) { 1 + rng.below(2) } else { 0 }, term: t, index: ix, dlen: rand_dlen(rng),
              fill: rng.below(256), clen: if rng.chance(1, 5) { 1 + rng.below(200) } else { 0 } }
    }).collect()
}

fn random_case(rng: &mut Rng, len: usize, sh: &mut Shard) {
    let init = if rng.chance(1, 2) { Init::New } else { Init::WithConf(vec![1, 2, 3], if rng.chance(1, 3) { vec![4] } else { vec![] }) };
    let mut d = Driver::new(&init);
    let mut input = vec![]; let mut out = vec![];
    enc_init(&init, &mut input);
    let wild = rng.chance(1, 6);     // this case also issues contract-violating calls
    let huge = rng.chance(1, 25);    // this case plays near u64::MAX
    for step in 0..len {
        // observations used only to pick mostly-valid arguments
        let last = d.s.last_index().unwrap();
        if last >= u64::MAX - 8 {
            // near u64::MAX: no probing (first_index() itself may overflow), wrapping arithmetic only
            let near = |rng: &mut Rng| u64::MAX - rng.below(4);
            let op = match rng.below(12) {
                0 => Op::Append(rand_ents(rng, last.wrapping_add(1), 1, 5, false)),
                1 => { let p = near(rng); let n = 1 + rng.below(2); Op::Append(rand_ents(rng, p, n, 5, false)) }
                2 => Op::Compact(near(rng)),
                3 => Op::QEntries(near(rng), near(rng), None, false),
                4 => Op::QTerm(near(rng)),
                5 => Op::QSnap(near(rng), 0),
                6 => Op::CommitTo(near(rng)),
                7 => Op::QFirst,
                8 => Op::QLast,
                9 => Op::ApplySnap(near(rng), 6, cs_b()),
                10 => Op::SetCommit(near(rng)),
                _ => Op::Dump,
            };
            op.enc(&mut input);
            if !d.apply(&op, &mut out) { break; }
            continue;
        }
        let first = d.s.first_index().unwrap();
        let hs = d.s.rl().hard_state().clone();
        let lterm = d.s.term(last).unwrap_or(1);
        let r = rng.below(100);
        let any = |rng: &mut Rng| rng.below(last.saturating_add(3).max(1));
        let op = if huge && step == 2 {
            Op::ApplySnap(u64::MAX - rng.below(3), 5, cs_a())
        } else if r < 30 {
            let n = 1 + rng.below(4);
            let pos = if wild && rng.chance(1, 4) { any(rng) }
                      else if last >= first && rng.chance(1, 3) { first.saturating_add(rng.below((last - first).saturating_add(1))) }
                      else { last.wrapping_add(1) };
            let t0 = if pos > 0 { d.s.term(pos - 1).unwrap_or(lterm) } else { 1 };
            let broken = wild && rng.chance(1, 5);
            Op::Append(rand_ents(rng, pos, n, t0.max(hs.term.min(t0.saturating_add(1))), broken))
        } else if r < 40 {
            let i = if wild && rng.chance(1, 3) { any(rng) } else if hs.commit >= first && rng.chance(3, 4) { first.saturating_add(rng.below((hs.commit - first).saturating_add(1))) } else { rng.below(first.saturating_add(1)) };
            Op::Compact(i)
        } else if r < 48 {
            let i = if wild || rng.chance(1, 3) { any(rng) } else { last.saturating_add(rng.below(4)) };
            Op::ApplySnap(i, lterm + rng.below(2), rand_cs(rng))
        } else if r < 58 {
            let i = if wild && rng.chance(1, 3) { any(rng) } else if last >= first { first.saturating_add(rng.below((last - first).saturating_add(1))) } else { any(rng) };
            if last < first && !(wild && rng.chance(1, 10)) {
                // nothing to commit to: append instead
                { let n = 1 + rng.below(3); Op::Append(rand_ents(rng, last.wrapping_add(1), n, lterm, false)) }
            } else if rng.chance(1, 5) { Op::CommitToConf(i, if rng.chance(1, 2) { Some(rand_cs(rng)) } else { None }) } else { Op::CommitTo(i) }
        } else if r < 61 { Op::SetHs(lterm + rng.below(2), rng.below(4), if wild { any(rng) } else { hs.commit }) }
        else if r < 63 { Op::SetCommit(if wild { any(rng) } else { hs.commit.max(first.saturating_sub(1)).min(last) }) }
        else if r < 65 { Op::SetCs(rand_cs(rng)) }
        else if r < 67 { Op::TrigSnap }
        else if r < 70 { Op::TrigLog(rng.chance(1, 2)) }
        else if r < 72 { Op::TakeCtx }
        else if r < 73 { if wild && rng.chance(1, 4) { Op::InitConf(vec![7], vec![]) } else { Op::QHard } }
        else if r < 85 {
            let (lo, hi) = if wild && rng.chance(1, 3) { (any(rng), any(rng)) }
                else if last >= first { let lo = first.saturating_add(rng.below((last - first).saturating_add(1))); (lo, lo.saturating_add(rng.below(last.saturating_add(2) - lo))) }
                else { (first, first.saturating_add(rng.below(2))) };
            // keep the empty-vector panic rare in non-wild cases
            let (lo, hi) = if last < first && !wild && !rng.chance(1, 20) { (first.saturating_sub(1), first) } else { (lo, hi) };
            let mx = match rng.below(6) {
                0 => None, 1 => Some(0), 2 => Some(NO_LIMIT), 3 => Some(rng.below(700)),
                _ => {
                    // a boundary value computed from the real sizes
                    if lo >= first && hi <= last.saturating_add(1) && lo < hi && last >= first {
                        let es = d.s.entries(lo, hi, None, GetEntriesContext::empty(false)).unwrap();
                        let k = 1 + rng.below(es.len() as u64) as usize;
                        let s: u64 = es[..k].iter().map(|e| e.compute_size() as u64).sum();
                        Some(s - rng.below(2))
                    } else { Some(rng.below(300)) }
                }
            };
            Op::QEntries(lo, hi, mx, rng.chance(1, 4))
        } else if r < 92 { Op::QTerm(if rng.chance(1, 2) { any(rng) } else { first.saturating_sub(1).saturating_add(rng.below(last.saturating_sub(first).saturating_add(3))) }) }
        else if r < 97 { Op::QSnap(if rng.chance(1, 2) { 0 } else { any(rng) }, rng.below(4)) }
        else if r < 98 { Op::QFirst } else if r < 99 { Op::QLast } else { Op::QInit };
        op.enc(&mut input);
        if !d.apply(&op, &mut out) { break; }
        if op.is_mutation() {
            Op::Dump.enc(&mut input);
            if !d.dump(&mut out) { break; }
        }
    }
    sh.put(COMP, &input, &out);
}

/// Hand-picked edge cases: u64::MAX indexes, non-contiguous appends, the empty-vector read.
fn edge_cases(sh: &mut Shard) -> u64 {
    let e = |ix: u64, t: u64, dl: u64| Ent { ty: 0, term: t, index: ix, dlen: dl, fill: 9, clen: 0 };
    let m = u64::MAX;
    let cases: Vec<Vec<Op>> = vec![
        vec![Op::QEntries(1, 1, None, false)],
        vec![Op::QEntries(1, 0, None, false)],
        vec![Op::QEntries(0, 0, None, false)],
        vec![Op::QEntries(1, 2, None, false)],
        vec![Op::QEntries(2, 1, None, false)],
        vec![Op::TrigLog(true), Op::QEntries(1, 1, None, true), Op::TakeCtx, Op::QEntries(1, 1, None, false)],
        vec![Op::ApplySnap(5, 2, cs_a()), Op::Dump, Op::QEntries(6, 6, None, false)],
        vec![Op::Append(vec![e(1, 1, 0), e(2, 1, 0)]), Op::QEntries(1, 1, None, false), Op::QEntries(3, 3, None, false), Op::QEntries(2, 1, None, false), Op::Dump],
        vec![Op::Append(vec![e(1, 1, 0), e(2, 1, 0), e(3, 1, 0)]), Op::Compact(3), Op::Dump, Op::QEntries(3, 1, None, false)],
        vec![Op::Append(vec![e(1, 1, 0), e(2, 1, 0), e(3, 1, 0)]), Op::Compact(3), Op::QTerm(2), Op::QTerm(0), Op::QSnap(0, 0), Op::SetCommit(1), Op::QSnap(0, 0)],
        vec![Op::ApplySnap(m, 1, cs_a()), Op::QLast, Op::QTerm(m), Op::QSnap(0, 0), Op::QFirst],
        vec![Op::ApplySnap(m, 1, cs_a()), Op::QTerm(3)],
        vec![Op::ApplySnap(m, 1, cs_a()), Op::Compact(3)],
        vec![Op::ApplySnap(m, 1, cs_a()), Op::Append(vec![e(m, 1, 0)])],
        vec![Op::ApplySnap(m, 1, cs_a()), Op::QEntries(m, m, None, false)],
        vec![Op::ApplySnap(m, 1, cs_a()), Op::ApplySnap(m, 2, cs_a())],
        vec![Op::ApplySnap(m, 1, cs_a()), Op::Dump],
        vec![Op::ApplySnap(m - 1, 1, cs_a()), Op::Dump, Op::Append(vec![e(m, 1, 3)]), Op::QLast, Op::QFirst, Op::QTerm(m), Op::CommitTo(m), Op::QSnap(0, 0), Op::Compact(m), Op::QEntries(m, m, None, false)],
        vec![Op::ApplySnap(m - 1, 1, cs_a()), Op::Append(vec![e(m, 1, 3)]), Op::Append(vec![e(m, 2, 3)])],
        vec![Op::ApplySnap(m - 1, 1, cs_a()), Op::Append(vec![e(m, 1, 3)]), Op::Compact(m)],
        vec![Op::ApplySnap(m - 1, 1, cs_a()), Op::Append(vec![e(m, 1, 3)]), Op::Compact(m - 1), Op::Dump],
        vec![Op::ApplySnap(m - 1, 1, cs_a()), Op::Append(vec![e(m, 1, 3)]), Op::Dump],
        vec![Op::ApplySnap(m - 2, 1, cs_a()), Op::Append(vec![e(m - 1, 1, 3), e(m, 1, 3)]), Op::Dump],
        vec![Op::ApplySnap(m - 2, 1, cs_a()), Op::Append(vec![e(m - 1, 1, 3), e(m, 1, 3)]), Op::Compact(m)],
        vec![Op::ApplySnap(m - 2, 1, cs_a()), Op::Append(vec![e(m - 1, 1, 3), e(m, 1, 3)]), Op::QEntries(m - 1, m, Some(1), false), Op::QEntries(m, m - 1, None, false)],
        vec![Op::Append(vec![e(1, 1, 0), e(5, 1, 0)]), Op::QLast, Op::QTerm(3), Op::QTerm(5)],
        vec![Op::Append(vec![e(1, 1, 0), e(5, 1, 0)]), Op::CommitTo(4)],
        vec![Op::Append(vec![e(1, 1, 0), e(5, 1, 0)]), Op::Compact(4)],
        vec![Op::Append(vec![e(1, 1, 0), e(5, 1, 0)]), Op::Append(vec![e(4, 1, 0)])],
        vec![Op::Append(vec![e(1, 1, 0), e(5, 1, 0)]), Op::QEntries(1, 5, None, false)],
        vec![Op::Append(vec![e(1, 1, 0), e(5, 1, 0)]), Op::SetCommit(4), Op::QSnap(0, 0)],
        vec![Op::Append(vec![e(1, 1, 0), e(5, 1, 0)]), Op::Dump],
        vec![Op::Append(vec![e(1, 1, 0), e(0, 1, 0), e(5, 1, 0)]), Op::Compact(2), Op::Dump, Op::QTerm(0)],
        vec![Op::Append(vec![e(3, 1, 0), e(1, 1, 0)]), Op::Dump],
        vec![Op::InitConf(vec![1], vec![2]), Op::QInit, Op::InitConf(vec![1], vec![])],
        vec![Op::SetCommit(3), Op::QSnap(0, 0)],
        vec![Op::ApplySnap(4, 2, cs_b()), Op::SetCommit(3), Op::QSnap(0, 0)],
        vec![Op::ApplySnap(4, 2, cs_b()), Op::SetCommit(5), Op::QSnap(0, 0)],
        vec![Op::ApplySnap(4, 2, cs_b()), Op::QSnap(9, 0), Op::TrigSnap, Op::QSnap(0, 0), Op::QSnap(0, 0)],
        // zero-size entries (index 0 can only be stored through a non-contiguous append)
        vec![Op::Append(vec![e(1, 0, 0), e(0, 0, 0), e(0, 0, 0), e(3, 1, 10), e(4, 1, 10)]), Op::QLast],
        vec![Op::Append(vec![e(1, 0, 0), e(0, 0, 0), e(0, 0, 0), e(5, 1, 10)]), Op::Compact(2), Op::QFirst, Op::QLast,
             Op::QEntries(0, 3, Some(1), false), Op::QEntries(0, 2, Some(0), false)],
        // compact(last + 1) rewinds first/last to the snapshot point
        vec![Op::Append(vec![e(1, 1, 0), e(2, 1, 0), e(3, 1, 0)]), Op::Compact(4), Op::QFirst, Op::QLast, Op::Dump,
             Op::QTerm(3), Op::Append(vec![e(4, 1, 0)])],
        vec![Op::Append(vec![e(1, 1, 0), e(2, 1, 0), e(3, 1, 0)]), Op::Compact(4), Op::Append(vec![e(1, 2, 0)]), Op::Dump],
    ];
    let mut n = 0;
    for (k, ops) in cases.iter().enumerate() {
        let init = if k % 2 == 0 { Init::New } else { Init::WithConf(vec![1, 2, 3], vec![]) };
        let mut d = Driver::new(&init);
        let mut input = vec![]; let mut out = vec![];
        enc_init(&init, &mut input);
        for op in ops {
            op.enc(&mut input);
            if !d.apply(op, &mut out) { break; }
        }
        sh.put(COMP, &input, &out);
        n += 1;
    }
    n
}


// ------------------------------------------------------------------- monitor
//
// Independent oracle for C19 (search / adjudication only; it shares nothing
// with the Coq model): the property's own sequence model -- a snapshot point
// (index, term) followed by contiguous entries -- in plain Rust.  The monitor
// re-runs recorded cases on the REAL MemStorage.  Operations outside their
// documented preconditions are skipped (executed on neither side).  After every
// executed mutation a query battery is compared with the oracle, and every
// query contained in the case is compared too.

#[derive(Clone, Debug, PartialEq)]
struct OEnt { ty: u64, term: u64, index: u64, dlen: u64, dsum: u64, clen: u64 }

/// Self-test of the monitor (`--inject k`): 1 = the oracle mis-sizes entries whose data is >= 128 bytes,
/// 2 = the oracle forgets to truncate on an overwriting append.  Never set in checks.
static INJECT: std::sync::atomic::AtomicU64 = std::sync::atomic::AtomicU64::new(0);
fn inject() -> u64 { INJECT.load(std::sync::atomic::Ordering::Relaxed) }

fn varint_len(v: u64) -> u64 { let mut n = 1; let mut x = v >> 7; while x > 0 { n += 1; x >>= 7; } n }

impl OEnt {
    /// protobuf size of the entry (proto3: default-valued fields are not written)
    fn size(&self) -> u64 {
        let vf = |v: u64| if v == 0 { 0 } else { 1 + varint_len(v) };
        let bf = |l: u64| if l == 0 { 0 } else { 1 + varint_len(l) + l };
        vf(self.ty) + vf(self.term) + vf(self.index) + bf(self.dlen) + bf(self.clen)
            - if inject() == 1 && self.dlen >= 128 { 1 } else { 0 }
    }
    fn of_real(e: &Entry) -> OEnt {
        OEnt { ty: e.get_entry_type() as i32 as u64, term: e.term, index: e.index, dlen: e.data.len() as u64,
               dsum: e.data.iter().map(|b| *b as u64).sum(), clen: e.context.len() as u64 }
    }
    fn of_ent(e: &Ent) -> OEnt {
        OEnt { ty: e.ty.min(2), term: e.term, index: e.index, dlen: e.dlen, dsum: (e.fill & 255) * e.dlen, clen: e.clen }
    }
}

/// Indexes at or above this are outside every documented use (index + 1 must fit a u64).
const SANE: u64 = 1 << 62;

struct Oracle {
    si: u64, st: u64,          // snapshot point
    first: u64,                // index of ents[0] (= si + 1 until a compaction moves it up)
    ents: Vec<OEnt>,
    hs: (u64, u64, u64),       // term, vote, commit
    cs: Cs,
    trig_snap: bool, trig_log: bool, ctx: Option<bool>,
    /// terms of indexes that were once held (compacted away since): to tell "documented error" from "wrong data"
    known: std::collections::HashMap<u64, u64>,
}

struct Failure { kind: &'static str, msg: String }
fn fail<T>(kind: &'static str, msg: String) -> Result<T, Failure> { Err(Failure { kind, msg }) }

impl Oracle {
    fn new(i: &Init) -> Oracle {
        let cs = match i { Init::New => Cs { v: vec![], l: vec![], vo: vec![], ln: vec![], al: false },
                           Init::WithConf(v, l) => Cs { v: v.clone(), l: l.clone(), vo: vec![], ln: vec![], al: false } };
        Oracle { si: 0, st: 0, first: 1, ents: vec![], hs: (0, 0, 0), cs, trig_snap: false, trig_log: false, ctx: None,
                 known: Default::default() }
    }
    fn last(&self) -> u64 { self.first + self.ents.len() as u64 - 1 }
    fn holds(&self, i: u64) -> bool { !self.ents.is_empty() && i >= self.first && i <= self.last() }
    fn term_at(&self, i: u64) -> Option<u64> {
        if i == self.si { Some(self.st) } else if self.holds(i) { Some(self.ents[(i - self.first) as usize].term) } else { None }
    }
    fn commit_valid(&self) -> bool { self.hs.2 == self.si || self.holds(self.hs.2) }
    fn default_cs(&self) -> bool { self.cs.v.is_empty() && self.cs.l.is_empty() && self.cs.vo.is_empty() && self.cs.ln.is_empty() && !self.cs.al }

    /// Is the mutation within its documented precondition?  (queries are judged in check_query)
    fn permitted(&self, op: &Op) -> bool {
        match op {
            Op::SetHs(..) | Op::SetCommit(_) | Op::SetCs(_) | Op::TrigSnap | Op::TrigLog(_) | Op::TakeCtx => true,
            // "Panics if there is no such entry in raft logs"
            Op::CommitTo(i) | Op::CommitToConf(i, _) => self.holds(*i),
            Op::ApplySnap(i, _, _) => *i < SANE,
            // "not attempt to compact an index greater than RaftLog.applied" (<= last index)
            Op::Compact(i) => *i <= self.first || *i <= self.last(),
            // "Panics if ents contains compacted entries, or there's a gap"; ents contiguous
            Op::Append(es) => es.is_empty() || (
                es[0].index >= self.first && es[0].index <= self.last() + 1 && es[0].index < SANE
                && es.iter().enumerate().all(|(k, e)| e.index == es[0].index + k as u64)),
            // assert!(!initialized())
            Op::InitConf(..) => self.default_cs(),
            _ => true,
        }
    }

    /// Effect of a permitted mutation; returns the expected storage error code (0 = Ok).
    fn step(&mut self, op: &Op) -> u64 {
        match op {
            Op::SetHs(t, v, c) => self.hs = (*t, *v, *c),
            Op::SetCommit(c) => self.hs.2 = *c,
            Op::CommitTo(i) => { self.hs.0 = self.term_at(*i).unwrap(); self.hs.2 = *i }
            Op::CommitToConf(i, c) => {
                self.hs.0 = self.term_at(*i).unwrap(); self.hs.2 = *i;
                if let Some(c) = c { self.cs = c.clone(); }
            }
            Op::SetCs(c) => self.cs = c.clone(),
            Op::ApplySnap(i, t, c) => {
                if *i < self.first { return 3; } // SnapshotOutOfDate, nothing changes
                self.si = *i; self.st = *t; self.first = *i + 1; self.ents.clear();
                self.hs.0 = self.hs.0.max(*t); self.hs.2 = *i; self.cs = c.clone();
                self.known.clear();
            }
            Op::Compact(i) => {
                if *i > self.first {
                    let k = (*i - self.first) as usize;
                    for e in self.ents.drain(..k) { self.known.insert(e.index, e.term); }
                    self.first = *i;
                }
            }
            Op::Append(es) => {
                if !es.is_empty() {
                    let k = (es[0].index - self.first) as usize;
                    if inject() != 2 { self.ents.truncate(k); }
                    self.ents.extend(es.iter().map(OEnt::of_ent));
                }
            }
            Op::TrigSnap => self.trig_snap = true,
            Op::TrigLog(b) => self.trig_log = *b,
            Op::TakeCtx => {}
            Op::InitConf(v, l) => self.cs = Cs { v: v.clone(), l: l.clone(), vo: vec![], ln: vec![], al: false },
            _ => {}
        }
        0
    }
}

fn cs_of_real(c: &ConfState) -> Cs {
    Cs { v: c.voters.clone(), l: c.learners.clone(), vo: c.voters_outgoing.clone(), ln: c.learners_next.clone(), al: c.auto_leave }
}

/// Compares one query of the real store with the oracle.  Ok(false) = outside the
/// documented precondition, not executed.
fn check_query(s: &MemStorage, o: &mut Oracle, q: &Op) -> Result<bool, Failure> {
    match q {
        Op::QFirst => {
            match catch(|| s.first_index()) {
                Ok(Ok(f)) if f == o.first => {}
                Ok(r) => return fail("first-index", format!("first_index() = {:?}, sequence model says {}", r, o.first)),
                Err(m) => return fail("unexpected-panic", format!("first_index(): {}", m)),
            }
        }
        Op::QLast => {
            match catch(|| s.last_index()) {
                Ok(Ok(l)) if l == o.last() => {}
                Ok(r) => return fail("last-index", format!("last_index() = {:?}, sequence model says {}", r, o.last())),
                Err(m) => return fail("unexpected-panic", format!("last_index(): {}", m)),
            }
        }
        Op::QHard => {
            let h = s.rl().hard_state().clone();
            if (h.term, h.vote, h.commit) != o.hs {
                return fail("hard-state", format!("hard_state() = ({}, {}, {}), expected {:?}", h.term, h.vote, h.commit, o.hs));
            }
        }
        Op::QInit => {
            let st = s.initial_state().unwrap();
            let h = &st.hard_state;
            if (h.term, h.vote, h.commit) != o.hs || cs_of_real(&st.conf_state) != o.cs {
                return fail("initial-state", format!("initial_state() = {:?}, expected hard state {:?} conf {:?}", st, o.hs, o.cs));
            }
        }
        Op::QTerm(i) => {
            let r = match catch(|| s.term(*i)) { Ok(r) => r, Err(m) => return fail("unexpected-panic", format!("term({}): {}", i, m)) };
            let code = r.as_ref().err().map(err_code);
            let good = if *i == o.si {
                // the snapshot point keeps its term; once compaction has moved past it Compacted is also a documented answer
                r.as_ref().ok() == Some(&o.st) || (o.si + 1 < o.first && code == Some(1))
            } else if *i < o.first {
                code == Some(1) || (r.is_ok() && o.known.get(i) == r.as_ref().ok())
            } else if *i > o.last() {
                code == Some(2)
            } else {
                r.as_ref().ok() == o.term_at(*i).as_ref()
            };
            if !good {
                return fail("term", format!("term({}) = {:?} with snapshot point ({}, {}), first {}, last {}, model term {:?}",
                                            i, r, o.si, o.st, o.first, o.last(), o.term_at(*i)));
            }
        }
        Op::QEntries(lo, hi, mx, can_async) => {
            // documented: range [low, high), panics if high > last_index + 1
            if lo > hi || *hi > o.last() + 1 { return Ok(false); }
            let r = catch(|| s.entries(*lo, *hi, *mx, GetEntriesContext::empty(*can_async)));
            let r = match r {
                Ok(r) => r,
                Err(m) => {
                    if lo == hi && *lo >= o.first {
                        return fail("entries-empty-range", format!("entries({}, {}) panics (first {}, last {}, {} entries held) instead of returning Ok([]): {}",
                                                                   lo, hi, o.first, o.last(), o.ents.len(), m));
                    }
                    return fail("unexpected-panic", format!("entries({}, {}, {:?}): {}", lo, hi, mx, m));
                }
            };
            if *lo < o.first {
                if r.as_ref().err().map(err_code) != Some(1) {
                    return fail("entries-compacted", format!("entries({}, {}) = {:?} but first index is {}: expected Compacted", lo, hi, r, o.first));
                }
                return Ok(true);
            }
            if o.trig_log && *can_async {
                if r.as_ref().err().map(err_code) != Some(5) {
                    return fail("entries-log-unavailable", format!("entries({}, {}) = {:?}: expected LogTemporarilyUnavailable", lo, hi, r));
                }
                o.ctx = Some(*can_async);
                return Ok(true);
            }
            let got: Vec<OEnt> = match r {
                Ok(es) => es.iter().map(OEnt::of_real).collect(),
                Err(e) => return fail("entries-error", format!("entries({}, {}, {:?}) = Err({:?}) within [first {}, last+1 {}]", lo, hi, mx, e, o.first, o.last() + 1)),
            };
            let range: &[OEnt] = &o.ents[(*lo - o.first) as usize..(*hi - o.first) as usize];
            let what = format!("entries({}, {}, {:?})", lo, hi, mx);
            if got.len() > range.len() || got[..] != range[..got.len()] {
                return fail("entries-not-prefix", format!("{} returned {:?}, not a prefix of the held range {:?}", what, got, range));
            }
            if lo < hi && got.is_empty() { return fail("entries-empty", format!("{} returned nothing for a non-empty range", what)); }
            let total: u64 = got.iter().map(|e| e.size()).sum();
            match mx {
                None | Some(NO_LIMIT) => {
                    if got.len() != range.len() { return fail("entries-truncated", format!("{} returned {} of {} entries without a limit", what, got.len(), range.len())); }
                }
                Some(m) => {
                    if total > *m && got.len() != 1 {
                        return fail("entries-over-limit", format!("{} returned {} entries of total size {} > max", what, got.len(), total));
                    }
                    if got.len() < range.len() && total + range[got.len()].size() <= *m {
                        return fail("entries-not-maximal", format!("{} returned {} entries (size {}), the next one (size {}) still fits", what, got.len(), total, range[got.len()].size()));
                    }
                }
            }
        }
        Op::QSnap(req, to) => {
            if !o.trig_snap && !o.commit_valid() { return Ok(false); } // commit designates nothing the store holds
            if *req >= SANE { return Ok(false); }
            let r = match catch(|| s.snapshot(*req, *to)) { Ok(r) => r, Err(m) => return fail("unexpected-panic", format!("snapshot({}, {}) with commit {}: {}", req, to, o.hs.2, m)) };
            if o.trig_snap {
                o.trig_snap = false;
                if r.as_ref().err().map(err_code) != Some(4) {
                    return fail("snapshot-unavailable", format!("snapshot({}) = {:?} after trigger_snap_unavailable: expected SnapshotTemporarilyUnavailable", req, r));
                }
                return Ok(true);
            }
            let sn = match r { Ok(sn) => sn, Err(e) => return fail("snapshot-error", format!("snapshot({}) = Err({:?})", req, e)) };
            let m = sn.get_metadata();
            let commit = o.hs.2;
            if m.index < *req { return fail("snapshot-below-request", format!("snapshot({}) has index {}", req, m.index)); }
            if *req <= commit && m.index != commit { return fail("snapshot-index", format!("snapshot({}) has index {} but commit is {}", req, m.index, commit)); }
            if Some(m.term) != o.term_at(commit) { return fail("snapshot-term", format!("snapshot({}) has term {} but the term at commit {} is {:?}", req, m.term, commit, o.term_at(commit))); }
            if cs_of_real(m.get_conf_state()) != o.cs { return fail("snapshot-conf", format!("snapshot({}) carries {:?}, stored conf state is {:?}", req, m.get_conf_state(), o.cs)); }
        }
        Op::TakeCtx => {
            let c = s.wl().take_get_entries_context().map(|c| c.can_async());
            if c != o.ctx { return fail("entries-context", format!("take_get_entries_context() = {:?}, expected {:?}", c, o.ctx)); }
            o.ctx = None;
        }
        _ => {}
    }
    Ok(true)
}

/// Query battery after a mutation (includes the empty range on a store that holds no entries).
fn battery(s: &MemStorage, o: &mut Oracle) -> Result<(), Failure> {
    for q in [Op::QFirst, Op::QLast, Op::QHard, Op::QInit] { check_query(s, o, &q)?; }
    let (first, last) = (o.first, o.last());
    for i in first.saturating_sub(3)..=last + 2 { check_query(s, o, &Op::QTerm(i))?; }
    check_query(s, o, &Op::QTerm(o.si))?;
    check_query(s, o, &Op::QEntries(first - 1, first - 1, None, false))?;
    check_query(s, o, &Op::QEntries(first - 1, last + 1, Some(0), false))?;
    {
        let mut w: Vec<u64> = (first..=(first + 3).min(last + 1)).chain((last.saturating_sub(2)).max(first)..=last + 1).collect();
        w.sort(); w.dedup();
        for &lo in &w { for &hi in &w {
            if lo > hi { continue; }
            let range = &o.ents[(lo - first) as usize..(hi - first) as usize];
            let mut maxes = vec![None, Some(0)];
            if range.len() >= 2 {
                let s2 = range[0].size() + range[1].size();
                let all: u64 = range.iter().map(|e| e.size()).sum();
                maxes.extend_from_slice(&[Some(s2 - 1), Some(s2), Some(all - 1), Some(NO_LIMIT)]);
            }
            for mx in maxes { check_query(s, o, &Op::QEntries(lo, hi, mx, false))?; }
        } }
    }
    if !o.trig_snap && o.commit_valid() {
        for req in [0, o.hs.2, o.hs.2 + 2] { check_query(s, o, &Op::QSnap(req, 1))?; }
    }
    Ok(())
}

fn hash_prefix(init: &Init, ops: &[Op]) -> u64 {
    let mut v = vec![]; enc_init(init, &mut v); for o in ops { o.enc(&mut v); }
    let mut h: u64 = 0xcbf29ce484222325;
    for x in v { for b in x.to_le_bytes() { h ^= b as u64; h = h.wrapping_mul(0x100000001b3); } }
    h
}

/// Runs one case against the oracle; Some(failure) when the property fails on the implementation.
/// `seen` (optional) remembers mutation prefixes whose battery has already been run.
fn monitor_case(init: &Init, ops: &[Op], mut seen: Option<&mut std::collections::HashSet<u64>>) -> Option<Failure> {
    let s = mk_store(init);
    let mut o = Oracle::new(init);
    for (k, op) in ops.iter().enumerate() {
        let tag = |f: Failure| Failure { kind: f.kind, msg: format!("op {} {:?}: {}", k, op, f.msg) };
        if matches!(op, Op::Dump) { continue; }
        if !op.is_mutation() {
            if let Err(f) = check_query(&s, &mut o, op) { return Some(tag(f)); }
            continue;
        }
        if !o.permitted(op) { continue; }
        let mut sink = vec![];
        let mut d = Driver { s: s.clone(), cands: vec![] };
        let ok = d.apply(op, &mut sink);
        let expect = o.step(op);
        if !ok { return Some(tag(Failure { kind: "unexpected-panic", msg: format!("a call within its documented precondition panicked (site {})", sink.last().cloned().unwrap_or(0)) })); }
        let got = if sink[0] == 0 { 0 } else { sink[1] };
        if got != expect {
            return Some(tag(Failure { kind: "mutation-result", msg: format!("returned error code {} but {} was expected (0 = Ok, 3 = SnapshotOutOfDate)", got, expect) }));
        }
        let fresh = match seen.as_mut() { Some(h) => h.insert(hash_prefix(init, &ops[..=k])), None => true };
        if fresh { if let Err(f) = battery(&s, &mut o) { return Some(tag(f)); } }
    }
    None
}

fn decode_case(line: &str) -> Option<(Init, Vec<Op>)> {
    let t: Vec<&str> = line.split_whitespace().collect();
    if t.len() < 2 || t[0] != COMP { return None; }
    let n: Vec<u64> = t[1..].iter().map(|x| x.parse().ok()).collect::<Option<Vec<u64>>>()?;
    let mut i = 0usize;
    fn num(n: &[u64], i: &mut usize) -> Option<u64> { let v = *n.get(*i)?; *i += 1; Some(v) }
    fn list(n: &[u64], i: &mut usize) -> Option<Vec<u64>> {
        let k = num(n, i)? as usize; if *i + k > n.len() { return None; }
        let v = n[*i..*i + k].to_vec(); *i += k; Some(v)
    }
    fn cs(n: &[u64], i: &mut usize) -> Option<Cs> {
        Some(Cs { v: list(n, i)?, l: list(n, i)?, vo: list(n, i)?, ln: list(n, i)?, al: num(n, i)? != 0 })
    }
    let init = match num(&n, &mut i)? { 0 => Init::New, 1 => Init::WithConf(list(&n, &mut i)?, list(&n, &mut i)?), _ => return None };
    let mut ops = vec![];
    while i < n.len() {
        let code = num(&n, &mut i)?;
        let op = match code {
            0 => Op::SetHs(num(&n, &mut i)?, num(&n, &mut i)?, num(&n, &mut i)?),
            1 => Op::SetCommit(num(&n, &mut i)?),
            2 => Op::CommitTo(num(&n, &mut i)?),
            3 => Op::SetCs(cs(&n, &mut i)?),
            4 => Op::ApplySnap(num(&n, &mut i)?, num(&n, &mut i)?, cs(&n, &mut i)?),
            5 => Op::Compact(num(&n, &mut i)?),
            6 => {
                let k = num(&n, &mut i)?;
                let mut es = vec![];
                for _ in 0..k {
                    es.push(Ent { ty: num(&n, &mut i)?, term: num(&n, &mut i)?, index: num(&n, &mut i)?,
                                  dlen: num(&n, &mut i)?, fill: num(&n, &mut i)?, clen: num(&n, &mut i)? });
                }
                Op::Append(es)
            }
            7 => { let ix = num(&n, &mut i)?; if num(&n, &mut i)? == 0 { Op::CommitToConf(ix, None) } else { Op::CommitToConf(ix, Some(cs(&n, &mut i)?)) } }
            8 => Op::TrigSnap,
            9 => Op::TrigLog(num(&n, &mut i)? != 0),
            10 => Op::TakeCtx,
            11 => Op::InitConf(list(&n, &mut i)?, list(&n, &mut i)?),
            20 => Op::QInit,
            21 => {
                let (lo, hi) = (num(&n, &mut i)?, num(&n, &mut i)?);
                let mx = if num(&n, &mut i)? == 0 { None } else { Some(num(&n, &mut i)?) };
                Op::QEntries(lo, hi, mx, num(&n, &mut i)? != 0)
            }
            22 => Op::QTerm(num(&n, &mut i)?),
            23 => Op::QFirst,
            24 => Op::QLast,
            25 => Op::QSnap(num(&n, &mut i)?, num(&n, &mut i)?),
            26 => Op::QHard,
            30 => Op::Dump,
            _ => return None,
        };
        ops.push(op);
    }
    Some((init, ops))
}

fn case_line(init: &Init, ops: &[Op]) -> String {
    let mut v = vec![]; enc_init(init, &mut v); for o in ops { o.enc(&mut v); }
    format!("{} {}", COMP, v.iter().map(|x| x.to_string()).collect::<Vec<_>>().join(" "))
}

/// Shortest failing prefix, then greedy removal of single operations, keeping the failure kind.
fn shrink(init: &Init, ops: &[Op], kind: &str) -> Vec<Op> {
    let same = |o: &[Op]| monitor_case(init, o, None).map_or(false, |f| f.kind == kind);
    let mut best = ops.to_vec();
    for k in 1..=ops.len() { if same(&ops[..k]) { best = ops[..k].to_vec(); break; } }
    loop {
        let mut improved = false;
        let mut k = 0;
        while k < best.len() {
            let mut x = best.clone(); x.remove(k);
            if same(&x) { best = x; improved = true; } else { k += 1; }
        }
        if !improved { return best; }
    }
}

fn monitor(args: &[String]) {
    let files = arg(args, "--cases", "");
    INJECT.store(arg(args, "--inject", "0").parse().unwrap_or(0), std::sync::atomic::Ordering::Relaxed);
    let mut n = 0u64;
    let mut seen = std::collections::HashSet::new();
    for f in files.split(',').filter(|x| !x.is_empty()) {
        let text = std::fs::read_to_string(f).unwrap();
        for line in text.lines() {
            if let Some((init, ops)) = decode_case(line) {
                n += 1;
                if let Some(fl) = monitor_case(&init, &ops, Some(&mut seen)) {
                    let small = shrink(&init, &ops, fl.kind);
                    let f = monitor_case(&init, &small, None).unwrap_or(fl);
                    println!("FAIL {}", case_line(&init, &small));
                    println!("REASON {}: {}", f.kind, f.msg);
                    return;
                }
            }
        }
    }
    println!("MONITOR-OK cases={}", n);
}

pub fn main(args: &[String]) {
    let mode = arg(args, "--mode", "exhaustive");
    if mode == "monitor" { return monitor(args); }
    let dir = arg(args, "--out", "/verif/build/run");
    let nsh: usize = arg(args, "--shards", "16").parse().unwrap();
    let seed: u64 = arg(args, "--seed", "1").parse().unwrap();
    std::fs::create_dir_all(&dir).unwrap();
    let mut total = 0;
    if mode == "exhaustive" {
        let depth: usize = arg(args, "--depth", "3").parse().unwrap();
        let full_to: usize = arg(args, "--full-to", "2").parse().unwrap();
        let shards = (0..nsh).map(|k| Shard::create(&dir, "memstorage-exh", k)).collect();
        let narrow_from: usize = arg(args, "--narrow-from", "99").parse().unwrap();
        let mut e = Exh { shards, rr: 0, depth, nodes: 0, queries: 0, full_to, narrow_from };
        e.dfs(&Init::New, &mut vec![]);
        println!("nodes={} queries={}", e.nodes, e.queries);
        for s in e.shards { total += s.finish(); }
    } else {
        let count: usize = arg(args, "--count", "2000").parse().unwrap();
        let len: usize = arg(args, "--len", "60").parse().unwrap();
        let mut rng = Rng::new(seed);
        let mut shards: Vec<Shard> = (0..nsh).map(|k| Shard::create(&dir, "memstorage-rnd", k)).collect();
        edge_cases(&mut shards[0]);
        for i in 0..count {
            if let Err(m) = catch(|| random_case(&mut rng, len, &mut shards[i % nsh])) {
                eprintln!("generator bug in random case {} (seed {}): {}", i, seed, m);
                std::process::exit(3);
            }
        }
        for s in shards { total += s.finish(); }
    }
    println!("cases={}", total);
}
