//! C12: drives the real configuration-change code through the public API:
//! `raft::Changer::{simple, enter_joint, leave_joint}`, `ProgressTracker::{apply_conf, conf, iter}`,
//! `Raft::new` (confchange::restore + the fatal on a ConfState mismatch) and
//! `Raft::apply_conf_change` (ConfChangeV2 classification and dispatch).
//!
//! Hash order never reaches the output: every set is emitted sorted, and the
//! Remove entries pushed by `leave_joint` (pushed in hash order of
//! `voters.outgoing`) are sorted by id.  The wire format is described in
//! coq/Run/RunConfChange.v.
//!
//! Modes: `exhaustive`, `restore`, `random` generate case/impl shards and print
//! `cases=N`; `monitor --cases f1,f2,..` re-runs case lines on the real code and
//! checks property C12 with an independent set-algebra oracle (see the monitor
//! section): prints `MONITOR-OK cases=N`, or `FAIL confchange <shrunk case>` and
//! `REASON <kind>: <text>`.
use crate::util::*;
use raft::eraftpb::{
    ConfChange, ConfChangeSingle, ConfChangeTransition, ConfChangeType, ConfChangeV2, ConfState,
};
use raft::storage::MemStorage;
use raft::{Changer, Config, MapChange, ProgressTracker, Raft};
use raft_proto::ConfChangeI;
use std::collections::{HashSet, VecDeque};

pub const PANIC: u64 = 999999;
const COMP: &str = "confchange";

fn err_code(msg: &str) -> u64 {
    if msg.contains("no progress for voter") { 1201 }
    else if msg.contains("no progress for learner(next)") { 1205 }
    else if msg.contains("no progress for learner") { 1202 }
    else if msg.contains("is in learners and outgoing voters") { 1203 }
    else if msg.contains("is in learners and incoming voters") { 1204 }
    else if msg.contains("is in learners_next and outgoing voters") { 1206 }
    else if msg.contains("learners_next must be empty when not joint") { 1207 }
    else if msg.contains("auto_leave must be false when not joint") { 1208 }
    else if msg.contains("config is already joint") { 1209 }
    else if msg.contains("can't make a zero-voter config joint") { 1210 }
    else if msg.contains("can't leave a non-joint config") { 1211 }
    else if msg.contains("configuration is not joint") { 1212 }
    else if msg.contains("can't apply simple config change in joint config") { 1213 }
    else if msg.contains("more than one voter changed without entering joint config") { 1214 }
    else if msg.contains("removed all voters") { 1215 }
    else { 9999 }
}

fn site_of(msg: &str) -> u64 {
    if msg.contains("invalid restore") { 1250 } else { 9999 }
}

#[derive(Clone, Debug, PartialEq, Eq, Hash)]
pub struct Cs { v: Vec<u64>, l: Vec<u64>, o: Vec<u64>, ln: Vec<u64>, auto: bool }

impl Cs {
    fn enc(&self, out: &mut Vec<u64>) {
        enc_list(&self.v, out);
        enc_list(&self.l, out);
        enc_list(&self.o, out);
        enc_list(&self.ln, out);
        out.push(self.auto as u64);
    }
    fn to_pb(&self) -> ConfState {
        let mut cs = ConfState::default();
        cs.set_voters(self.v.clone());
        cs.set_learners(self.l.clone());
        cs.set_voters_outgoing(self.o.clone());
        cs.set_learners_next(self.ln.clone());
        cs.auto_leave = self.auto;
        cs
    }
}

/// (type, id); type: 0 AddNode, 1 RemoveNode, 2 AddLearnerNode
pub type Cc = (u64, u64);

#[derive(Clone, Debug)]
pub enum Op {
    Simple(Vec<Cc>),
    Enter(bool, Vec<Cc>),
    Leave,
    Roundtrip,
    Forget(u64),
    V2(u64, Vec<Cc>),
    V1(u64, u64),
}

fn enc_ccs(ccs: &[Cc], out: &mut Vec<u64>) {
    out.push(ccs.len() as u64);
    for (t, id) in ccs { out.push(*t); out.push(*id); }
}

impl Op {
    fn enc(&self, out: &mut Vec<u64>) {
        match self {
            Op::Simple(c) => { out.push(1); enc_ccs(c, out) }
            Op::Enter(a, c) => { out.push(2); out.push(*a as u64); enc_ccs(c, out) }
            Op::Leave => out.push(3),
            Op::Roundtrip => out.push(4),
            Op::Forget(id) => { out.push(5); out.push(*id) }
            Op::V2(t, c) => { out.push(6); out.push(*t); enc_ccs(c, out) }
            Op::V1(t, id) => { out.push(7); out.push(*t); out.push(*id) }
        }
    }
}

fn cc_type(t: u64) -> ConfChangeType {
    match t { 0 => ConfChangeType::AddNode, 1 => ConfChangeType::RemoveNode, _ => ConfChangeType::AddLearnerNode }
}

fn pb_ccs(ccs: &[Cc]) -> Vec<ConfChangeSingle> {
    ccs.iter().map(|(t, id)| raft_proto::new_conf_change_single(*id, cc_type(*t))).collect()
}

fn sorted(mut v: Vec<u64>) -> Vec<u64> { v.sort_unstable(); v }

/// tracker := incoming outgoing learners learners_next auto progress-ids, all sorted
fn dump_tracker(t: &ProgressTracker, out: &mut Vec<u64>) {
    let cs = t.conf().to_conf_state();
    enc_list(&sorted(cs.get_voters().to_vec()), out);
    enc_list(&sorted(cs.get_voters_outgoing().to_vec()), out);
    enc_list(&sorted(cs.get_learners().to_vec()), out);
    enc_list(&sorted(cs.get_learners_next().to_vec()), out);
    // cross-check the getters against to_conf_state
    assert_eq!(sorted(t.conf().learners().iter().cloned().collect()), sorted(cs.get_learners().to_vec()));
    assert_eq!(sorted(t.conf().learners_next().iter().cloned().collect()), sorted(cs.get_learners_next().to_vec()));
    assert_eq!(*t.conf().auto_leave(), cs.auto_leave);
    out.push(cs.auto_leave as u64);
    enc_list(&sorted(t.iter().map(|(id, _)| *id).collect()), out);
}

fn state_key(t: &ProgressTracker) -> Vec<u64> {
    let mut k = vec![];
    dump_tracker(t, &mut k);
    k
}

/// MapChangeType is not nameable from outside the crate; its variant index is
/// read through `std::mem::discriminant` (Add = 0, Remove = 1).
fn changes_pairs(chs: &MapChange) -> Vec<(u64, u64)> {
    chs.iter()
        .map(|(id, t)| {
            let d = format!("{:?}", std::mem::discriminant(t));
            let k: u64 = d.trim_start_matches("Discriminant(").trim_end_matches(')').parse().unwrap();
            (*id, k)
        })
        .collect()
}

fn logger() -> slog::Logger { slog::Logger::root(slog::Discard, slog::o!()) }

/// Raft::new on a storage holding `cs`: Ok(Ok(tracker)) | Ok(Err(code)) | Err(site)
fn raft_new(cs: &ConfState) -> Result<Result<Raft<MemStorage>, u64>, u64> {
    let cs = cs.clone();
    let r = catch(move || {
        let store = MemStorage::new_with_conf_state(cs);
        Raft::new(&Config::new(1), store, &logger())
    });
    match r {
        Ok(Ok(r)) => Ok(Ok(r)),
        Ok(Err(e)) => Ok(Err(err_code(&e.to_string()))),
        Err(m) => Err(site_of(&m)),
    }
}

fn enc_restore(cs: &ConfState, out: &mut Vec<u64>) -> Option<ProgressTracker> {
    match raft_new(cs) {
        Ok(Ok(r)) => { out.push(0); dump_tracker(r.prs(), out); Some(r.prs().clone()) }
        Ok(Err(c)) => { out.push(c); None }
        Err(s) => { out.push(PANIC); out.push(s); None }
    }
}

/// A change list [(id, Remove)] obtained from a scratch tracker.
fn removal_of(id: u64) -> MapChange {
    let mut s = ProgressTracker::new(16);
    for x in [id, id + 1000] {
        let (cfg, ch) = Changer::new(&s).simple(&pb_ccs(&[(0, x)])).unwrap();
        s.apply_conf(cfg, ch, 1);
    }
    let (_, ch) = Changer::new(&s).simple(&pb_ccs(&[(1, id)])).unwrap();
    assert_eq!(changes_pairs(&ch), vec![(id, 1)]);
    ch
}

fn base_raft() -> Raft<MemStorage> {
    let mut cs = ConfState::default();
    cs.set_voters(vec![1]);
    raft_new(&cs).unwrap().unwrap()
}

fn v2_step(t: &mut ProgressTracker, cc: &ConfChangeV2, out: &mut Vec<u64>) {
    out.push(cc.leave_joint() as u64);
    enc_opt(cc.enter_joint().map(|b| b as u64), out);
    let mut r = base_raft();
    *r.mut_prs() = t.clone();
    match catch(|| r.apply_conf_change(cc)) {
        Ok(Ok(cs)) => {
            out.push(0);
            *t = r.prs().clone();
            dump_tracker(t, out);
            // the returned ConfState is the new configuration
            let canon = |c: &ConfState| -> Vec<u64> {
                let mut v = vec![];
                for x in [c.get_voters(), c.get_voters_outgoing(), c.get_learners(), c.get_learners_next()] {
                    enc_list(&sorted(x.to_vec()), &mut v);
                }
                v
            };
            let cs2 = t.conf().to_conf_state();
            let (a, b) = (canon(&cs), canon(&cs2));
            if a != b || cs.auto_leave != cs2.auto_leave { out.push(777777); }
        }
        Ok(Err(e)) => out.push(err_code(&e.to_string())),
        Err(m) => { out.push(PANIC); out.push(site_of(&m)); }
    }
}

/// Applies one op to the real tracker and appends the implementation's answer.
pub fn step(t: &mut ProgressTracker, op: &Op, out: &mut Vec<u64>) {
    match op {
        Op::Simple(_) | Op::Enter(..) | Op::Leave => {
            let is_leave = matches!(op, Op::Leave);
            let r = catch(|| match op {
                Op::Simple(c) => Changer::new(t).simple(&pb_ccs(c)),
                Op::Enter(a, c) => Changer::new(t).enter_joint(*a, &pb_ccs(c)),
                _ => Changer::new(t).leave_joint(),
            });
            match r {
                Ok(Ok((cfg, chs))) => {
                    let mut pairs = changes_pairs(&chs);
                    if is_leave { pairs.sort_unstable(); }
                    t.apply_conf(cfg, chs, 1);
                    out.push(0);
                    dump_tracker(t, out);
                    out.push(pairs.len() as u64);
                    for (id, k) in pairs { out.push(id); out.push(k); }
                }
                Ok(Err(e)) => out.push(err_code(&e.to_string())),
                Err(m) => { out.push(PANIC); out.push(site_of(&m)); }
            }
        }
        Op::Roundtrip => {
            // the real to_conf_state: vectors in hash order
            let cs = t.conf().to_conf_state();
            enc_restore(&cs, out);
        }
        Op::Forget(id) => {
            if *id != 0 {
                let ch = removal_of(*id);
                let cfg = t.conf().clone();
                t.apply_conf(cfg, ch, 1);
            }
            dump_tracker(t, out);
        }
        Op::V2(tr, c) => {
            let mut cc = ConfChangeV2::default();
            cc.set_transition(match tr { 0 => ConfChangeTransition::Auto, 1 => ConfChangeTransition::Implicit, _ => ConfChangeTransition::Explicit });
            cc.set_changes(pb_ccs(c).into());
            v2_step(t, &cc, out);
        }
        Op::V1(ty, id) => {
            let mut cc = ConfChange::default();
            cc.set_change_type(cc_type(*ty));
            cc.node_id = *id;
            let v2 = cc.as_v2();
            assert!(cc.as_v1().is_some());
            v2_step(t, &v2, out);
        }
    }
}

/// boot: None = empty tracker, Some(cs) = Raft::new
fn boot(b: &Option<Cs>, input: &mut Vec<u64>, out: &mut Vec<u64>) -> Option<ProgressTracker> {
    match b {
        None => { input.push(0); Some(ProgressTracker::new(16)) }
        Some(cs) => { input.push(1); cs.enc(input); enc_restore(&cs.to_pb(), out) }
    }
}

// ---------------------------------------------------------------- exhaustive

fn all_lists(ids: u64, len: usize) -> Vec<Vec<Cc>> {
    let singles: Vec<Cc> = (0..=ids).flat_map(|id| (0..3u64).map(move |t| (t, id))).collect();
    let mut res: Vec<Vec<Cc>> = vec![vec![]];
    let mut frontier: Vec<Vec<Cc>> = vec![vec![]];
    for _ in 0..len {
        let mut next = vec![];
        for l in &frontier {
            for s in &singles {
                let mut l2 = l.clone();
                l2.push(*s);
                next.push(l2);
            }
        }
        res.extend(next.iter().cloned());
        frontier = next;
    }
    res
}

struct Node { input: Vec<u64>, out: Vec<u64>, t: ProgressTracker, depth: usize, desynced: bool }

struct Exh { shards: Vec<Shard>, rr: usize }

impl Exh {
    fn put(&mut self, input: &[u64], out: &[u64]) {
        let k = self.rr % self.shards.len();
        self.rr += 1;
        self.shards[k].put(COMP, input, out);
    }
}

fn boots() -> Vec<Option<Cs>> {
    let c = |v: &[u64], l: &[u64], o: &[u64], ln: &[u64], auto: bool| Some(Cs { v: v.to_vec(), l: l.to_vec(), o: o.to_vec(), ln: ln.to_vec(), auto });
    vec![
        None,
        c(&[1], &[], &[], &[], false),
        c(&[3, 1, 2], &[], &[], &[], false),
        c(&[1, 2], &[3], &[], &[], false),
        c(&[1, 2], &[], &[1, 3], &[3], true),
        c(&[2, 3], &[4], &[2, 1], &[1], false),
        c(&[1, 1, 2], &[3, 3], &[], &[], false),
        // invalid / rejected ones
        c(&[], &[1], &[], &[], false),
        c(&[1], &[1], &[], &[], false),
        c(&[1, 2], &[2], &[], &[], false),
        c(&[1], &[], &[], &[2], false),
        c(&[1], &[], &[], &[], true),
        c(&[0, 1], &[], &[], &[], false),
        c(&[1], &[], &[0], &[], false),
        c(&[1], &[2], &[2], &[], false),
        c(&[1], &[], &[2], &[1], true),
    ]
}

/// Bounded-exhaustive: breadth-first over the distinct reachable tracker states
/// (configuration + progress ids).  From every state every op of the op set is
/// emitted as one case (= the op path from the boot to that state, then the op;
/// the outputs of the whole path are compared, so the case set is prefix-closed).
/// All changer functions are functions of (conf, progress ids) only, so deduping
/// on that state loses no behaviour.
fn exhaustive(args: &[String], e: &mut Exh) {
    let ids: u64 = arg(args, "--ids", "3").parse().unwrap();
    let len: usize = arg(args, "--len", "2").parse().unwrap();
    let depth: usize = arg(args, "--depth", "6").parse().unwrap();
    let lists = all_lists(ids, len);
    let short_lists = all_lists(ids, 1);
    let v2_lists = all_lists(ids.min(2), 2);
    let mut ops: Vec<Op> = vec![Op::Leave, Op::Roundtrip];
    for l in &lists {
        ops.push(Op::Simple(l.clone()));
        ops.push(Op::Enter(false, l.clone()));
        ops.push(Op::Enter(true, l.clone()));
    }
    let mut small_ops: Vec<Op> = vec![Op::Leave, Op::Roundtrip];
    for l in &short_lists {
        small_ops.push(Op::Simple(l.clone()));
        small_ops.push(Op::Enter(false, l.clone()));
        small_ops.push(Op::Enter(true, l.clone()));
    }
    let mut v_ops: Vec<Op> = vec![];
    for tr in 0..3u64 { for l in &v2_lists { v_ops.push(Op::V2(tr, l.clone())); } }
    for ty in 0..3u64 { for id in 0..=ids { v_ops.push(Op::V1(ty, id)); } }

    let mut seen: HashSet<Vec<u64>> = HashSet::new();
    let mut queue: VecDeque<Node> = VecDeque::new();
    for b in boots() {
        let mut input = vec![];
        let mut out = vec![];
        let t = boot(&b, &mut input, &mut out);
        e.put(&input, &out);
        if let Some(t) = t {
            if seen.insert(state_key(&t)) {
                queue.push_back(Node { input, out, t, depth: 0, desynced: false });
            }
        }
    }
    let (mut nstates, mut maxdepth) = (0u64, 0usize);
    while let Some(n) = queue.pop_front() {
        nstates += 1;
        maxdepth = maxdepth.max(n.depth);
        // in a joint state simple/enter_joint are rejected before looking at the list: short lists suffice
        let is_joint = !n.t.conf().to_conf_state().get_voters_outgoing().is_empty();
        let mut cands: Vec<&Op> = if n.desynced { small_ops.iter().collect() }
            else if is_joint { small_ops.iter().chain(v_ops.iter()).collect() }
            else { ops.iter().chain(v_ops.iter()).collect() };
        let forgets: Vec<Op> = if n.desynced { vec![] } else { sorted(n.t.iter().map(|(id, _)| *id).collect()).into_iter().map(Op::Forget).collect() };
        cands.extend(forgets.iter());
        for op in cands {
            let mut input = n.input.clone();
            let mut out = n.out.clone();
            let mut t = n.t.clone();
            op.enc(&mut input);
            step(&mut t, op, &mut out);
            e.put(&input, &out);
            let forget = matches!(op, Op::Forget(_));
            if n.desynced || n.depth + 1 >= depth { continue; }
            if seen.insert(state_key(&t)) {
                queue.push_back(Node { input, out, t, depth: n.depth + 1, desynced: forget });
            }
        }
    }
    println!("states={} maxdepth={}", nstates, maxdepth);
}

/// All ConfStates whose four vectors are sub-lists of 0..=ids (increasing, and
/// once more reversed), both auto_leave values, through Raft::new.
fn restore_sweep(args: &[String], e: &mut Exh) {
    let ids: u64 = arg(args, "--ids", "3").parse().unwrap();
    let zero: u64 = arg(args, "--zero", "0").parse().unwrap();
    // universe: 1..=ids, or 0..=ids with --zero 1
    let lo = if zero == 1 { 0 } else { 1 };
    let n = 1u64 << (ids + 1 - lo);
    let sub = |m: u64, rev: bool| -> Vec<u64> {
        let mut v: Vec<u64> = (lo..=ids).filter(|i| m >> (i - lo) & 1 == 1).collect();
        if rev { v.reverse(); }
        v
    };
    for rev in [false, true] {
        for a in 0..n { for b in 0..n { for c in 0..n { for d in 0..n { for auto in [false, true] {
            let cs = Cs { v: sub(a, rev), l: sub(b, rev), o: sub(c, !rev), ln: sub(d, rev), auto };
            let mut input = vec![];
            let mut out = vec![];
            let t = boot(&Some(cs), &mut input, &mut out);
            if let Some(mut t) = t {
                // a successful restore must round-trip again
                Op::Roundtrip.enc(&mut input);
                step(&mut t, &Op::Roundtrip, &mut out);
            }
            e.put(&input, &out);
        } } } } }
    }
}

// -------------------------------------------------------------------- random

fn rand_ccs(rng: &mut Rng, ids: u64, maxlen: u64) -> Vec<Cc> {
    let n = rng.below(maxlen + 1);
    (0..n).map(|_| (rng.below(3), rng.below(ids + 1))).collect()
}

fn rand_subset(rng: &mut Rng, ids: u64, p: u64) -> Vec<u64> {
    let mut v: Vec<u64> = (0..=ids).filter(|_| rng.chance(p, 8)).collect();
    // shuffle, sometimes duplicate
    for i in (1..v.len()).rev() { let j = rng.below(i as u64 + 1) as usize; v.swap(i, j); }
    if !v.is_empty() && rng.chance(1, 10) { let x = *rng.pick(&v); v.push(x); }
    v
}

fn rand_boot(rng: &mut Rng, ids: u64) -> Option<Cs> {
    let r = rng.below(10);
    if r < 2 { return None; }
    if r < 4 {
        // arbitrary
        return Some(Cs { v: rand_subset(rng, ids, 3), l: rand_subset(rng, ids, 1), o: rand_subset(rng, ids, 2), ln: rand_subset(rng, ids, 1), auto: rng.chance(1, 2) });
    }
    // valid by construction: role per id
    let (mut v, mut l, mut o, mut ln) = (vec![], vec![], vec![], vec![]);
    let jointy = rng.chance(1, 2);
    for id in 1..=ids {
        match rng.below(if jointy { 7 } else { 4 }) {
            0 => {}
            1 | 2 => v.push(id),
            3 => l.push(id),
            4 => o.push(id),
            5 => { v.push(id); o.push(id) }
            _ => { o.push(id); ln.push(id) }
        }
    }
    if v.is_empty() { v.push(1); l.retain(|x| *x != 1); ln.retain(|x| *x != 1); }
    let auto = !o.is_empty() && rng.chance(1, 2);
    if o.is_empty() { ln.clear(); }
    for s in [&mut v, &mut l, &mut o, &mut ln] {
        for i in (1..s.len()).rev() { let j = rng.below(i as u64 + 1) as usize; s.swap(i, j); }
    }
    Some(Cs { v, l, o, ln, auto })
}

fn random_case(rng: &mut Rng, len: usize, ids: u64, sh: &mut Shard) {
    let b = rand_boot(rng, ids);
    let mut input = vec![];
    let mut out = vec![];
    if let Some(mut t) = boot(&b, &mut input, &mut out) {
        for _ in 0..len {
            let jointnow = !t.conf().to_conf_state().get_voters_outgoing().is_empty();
            let r = rng.below(100);
            let op = if jointnow && r < 35 { Op::Leave }
                else if r < 40 { let m = if rng.chance(3, 4) { 1 } else { 4 }; Op::Simple(rand_ccs(rng, ids, m)) }
                else if r < 65 { Op::Enter(rng.chance(1, 2), rand_ccs(rng, ids, 5)) }
                else if r < 70 { Op::Leave }
                else if r < 78 { Op::Roundtrip }
                else if r < 79 { Op::Forget(rng.below(ids + 1)) }
                else if r < 94 { Op::V2(rng.below(3), rand_ccs(rng, ids, 3)) }
                else { Op::V1(rng.below(3), rng.below(ids + 1)) };
            op.enc(&mut input);
            step(&mut t, &op, &mut out);
        }
    }
    sh.put(COMP, &input, &out);
}

// ------------------------------------------------------------------- monitor
//
// `--mode monitor --cases f1,f2,...` re-runs every case line on the REAL code
// and checks property C12 itself with a plain-Rust set-algebra oracle
// (BTreeSet based; shares nothing with the Coq model or with `step`/`dump_*`
// above except the wire decoding of the case line):
//   * after boot (Raft::new) and after every successful change: voters∩learners=∅,
//     learners_next⊆outgoing, learners_next∩learners=∅, >=1 voter, progress for
//     exactly the members;
//   * simple: |incoming Δ incoming'| <= 1 and non-joint before and after;
//   * enter_joint: non-joint before, outgoing' = old incoming, auto_leave' = requested;
//   * leave_joint: joint before, outgoing' = ∅, learners' = learners ∪ learners_next,
//     learners_next' = ∅, auto_leave' = false, incoming unchanged;
//   * a rejected change leaves configuration and progress untouched;
//   * restore(to_conf_state(cfg)) through Raft::new reproduces cfg and its progress
//     ids for every reached cfg with a voter; a ConfState that is valid by the
//     set-algebra definition must be restored exactly;
//   * quorum overlap: for every subset q of the voter universe, q deciding the
//     configuration before and (universe \ q) deciding the one after is a failure
//     (deciding is monotone, so this is "some two deciding quorums are disjoint");
//   * the ConfChangeV2 classification table and the dispatch of apply_conf_change.
// The reachability premise: a case stops being checked at a Forget op (it builds
// a tracker no sequence of changes can reach).  The bootstrap (voterless) tracker
// is exempt from ">=1 voter", round trip and overlap, as in the theorems.
use std::collections::BTreeSet;

type Set = BTreeSet<u64>;

#[derive(Clone, Debug, PartialEq, Eq)]
struct Obs { inc: Set, out: Set, lrn: Set, nxt: Set, auto: bool, prs: Set }

fn observe(t: &ProgressTracker) -> Obs {
    let cs = t.conf().to_conf_state();
    let set = |v: &[u64]| -> Set { v.iter().cloned().collect() };
    Obs {
        inc: set(cs.get_voters()), out: set(cs.get_voters_outgoing()),
        lrn: set(cs.get_learners()), nxt: set(cs.get_learners_next()),
        auto: cs.auto_leave, prs: t.iter().map(|(id, _)| *id).collect(),
    }
}

struct Fail { kind: &'static str, msg: String }
fn fail<T>(kind: &'static str, msg: String) -> Result<T, Fail> { Err(Fail { kind, msg }) }

impl Obs {
    fn members(&self) -> Set {
        let mut m = self.inc.clone();
        m.extend(&self.out); m.extend(&self.lrn); m.extend(&self.nxt);
        m
    }
    fn joint(&self) -> bool { !self.out.is_empty() }
    /// the invariants of the property; `what` names the producer
    fn invariants(&self, what: &str) -> Result<(), Fail> {
        if let Some(x) = self.inc.intersection(&self.lrn).next() { return fail("voter-learner-overlap", format!("{}: {} is an incoming voter and a learner in {:?}", what, x, self)); }
        if let Some(x) = self.out.intersection(&self.lrn).next() { return fail("voter-learner-overlap", format!("{}: {} is an outgoing voter and a learner in {:?}", what, x, self)); }
        if let Some(x) = self.nxt.difference(&self.out).next() { return fail("staged-learner-not-outgoing", format!("{}: staged learner {} is not an outgoing voter in {:?}", what, x, self)); }
        if let Some(x) = self.nxt.intersection(&self.lrn).next() { return fail("staged-learner-is-learner", format!("{}: {} is in learners_next and learners in {:?}", what, x, self)); }
        if self.inc.is_empty() { return fail("no-voter", format!("{}: configuration without a voter {:?}", what, self)); }
        if self.prs != self.members() { return fail("progress-members-mismatch", format!("{}: progress ids {:?} but members {:?}", what, self.prs, self.members())); }
        Ok(())
    }
    /// JointConfig::vote_result == Won when exactly the ids of q vote yes
    fn decides(&self, q: &Set) -> bool {
        let maj = |v: &Set| v.is_empty() || v.intersection(q).count() >= v.len() / 2 + 1;
        maj(&self.inc) && maj(&self.out)
    }
}

/// every deciding quorum of `a` meets every deciding quorum of `b`
fn overlap(a: &Obs, b: &Obs, what: &str) -> Result<(), Fail> {
    let mut u: Vec<u64> = a.inc.union(&a.out).cloned().collect::<Set>().union(&b.inc.union(&b.out).cloned().collect()).cloned().collect();
    u.sort_unstable();
    if u.len() > 16 { return Ok(()); }
    for m in 0u32..(1u32 << u.len()) {
        let q1: Set = u.iter().enumerate().filter(|(i, _)| m >> i & 1 == 1).map(|(_, x)| *x).collect();
        if !a.decides(&q1) { continue; }
        let q2: Set = u.iter().enumerate().filter(|(i, _)| m >> i & 1 == 0).map(|(_, x)| *x).collect();
        if b.decides(&q2) {
            return fail("quorum-overlap", format!("{}: {:?} decides the configuration before ({:?}&&{:?}) and the disjoint {:?} decides the one after ({:?}&&{:?})", what, q1, a.inc, a.out, q2, b.inc, b.out));
        }
    }
    Ok(())
}

/// restore(to_conf_state(cfg)) through Raft::new reproduces cfg
fn roundtrip(t: &ProgressTracker, a: &Obs, what: &str) -> Result<(), Fail> {
    if a.inc.is_empty() { return Ok(()); }
    let cs = t.conf().to_conf_state();
    match raft_new(&cs) {
        Ok(Ok(r)) => {
            let b = observe(r.prs());
            if b != *a { return fail("restore-roundtrip", format!("{}: restoring {:?} gives {:?} instead of {:?}", what, cs, b, a)); }
            Ok(())
        }
        Ok(Err(c)) => fail("restore-roundtrip", format!("{}: restoring the ConfState {:?} of a reached configuration is rejected (error {})", what, cs, c)),
        Err(s) => fail("restore-roundtrip", format!("{}: restoring the ConfState {:?} of a reached configuration panics (site {})", what, cs, s)),
    }
}

/// validity of a ConfState by the set-algebra definition (independent of the code)
fn cs_valid(c: &Cs) -> bool {
    let set = |v: &Vec<u64>| -> Set { v.iter().cloned().collect() };
    let (v, l, o, n) = (set(&c.v), set(&c.l), set(&c.o), set(&c.ln));
    !v.is_empty() && !v.contains(&0) && !l.contains(&0) && !o.contains(&0) && !n.contains(&0)
        && v.is_disjoint(&l) && o.is_disjoint(&l) && n.is_subset(&o) && n.is_disjoint(&l) && n.is_disjoint(&v)
        && (!o.is_empty() || (n.is_empty() && !c.auto))
}

#[derive(Clone, Copy, PartialEq, Eq, Debug)]
enum Kind { Simple, Enter(bool), Leave }

/// the decision table of ConfChangeV2::{leave_joint, enter_joint}
fn table(tr: u64, nchanges: usize) -> (bool, Option<bool>, Kind) {
    let leave = tr == 0 && nchanges == 0;
    let enter = match tr { 0 => if nchanges > 1 { Some(true) } else { None }, 1 => Some(true), _ => Some(false) };
    let kind = if leave { Kind::Leave } else if let Some(a) = enter { Kind::Enter(a) } else { Kind::Simple };
    (leave, enter, kind)
}

enum Outcome { Done, Rejected(String), Panicked(String) }

/// shape of a successful change a -> b of the given kind
fn check_change(kind: Kind, a: &Obs, b: &Obs, what: &str) -> Result<(), Fail> {
    b.invariants(what)?;
    match kind {
        Kind::Simple => {
            if a.joint() || b.joint() { return fail("simple-in-joint", format!("{}: simple change accepted with outgoing voters {:?} -> {:?}", what, a.out, b.out)); }
            let d = a.inc.symmetric_difference(&b.inc).count();
            if d > 1 { return fail("simple-delta", format!("{}: simple change alters {} voters: {:?} -> {:?}", what, d, a.inc, b.inc)); }
        }
        Kind::Enter(auto) => {
            if a.joint() { return fail("enter-joint-shape", format!("{}: enter_joint accepted in the joint configuration {:?}", what, a)); }
            if a.inc.is_empty() { return fail("enter-joint-shape", format!("{}: enter_joint accepted without voters", what)); }
            if b.out != a.inc { return fail("enter-joint-shape", format!("{}: outgoing' = {:?} but the old incoming voters are {:?}", what, b.out, a.inc)); }
            if b.auto != auto { return fail("enter-joint-shape", format!("{}: auto_leave' = {} but {} was requested", what, b.auto, auto)); }
        }
        Kind::Leave => {
            if !a.joint() { return fail("leave-joint-shape", format!("{}: leave_joint accepted in the non-joint configuration {:?}", what, a)); }
            let promoted: Set = a.lrn.union(&a.nxt).cloned().collect();
            if !b.out.is_empty() || !b.nxt.is_empty() || b.auto || b.lrn != promoted || b.inc != a.inc {
                return fail("leave-joint-shape", format!("{}: {:?} -> {:?}; expected incoming {:?}, no outgoing, learners {:?}, no learners_next, auto_leave false", what, a, b, a.inc, promoted));
            }
        }
    }
    if !a.inc.is_empty() { overlap(a, b, what)?; }
    Ok(())
}

/// test-only fault injection on the OBSERVATION (never on the real objects), to
/// exercise the FAIL path: 1 = a voter also reported as learner, 2 = a progress id dropped
fn inject_obs(b: &mut Obs, inject: u64) {
    match inject {
        1 => { if b.inc.len() >= 2 { let x = *b.inc.iter().next().unwrap(); b.lrn.insert(x); } }
        2 => { if b.prs.len() >= 3 { let x = *b.prs.iter().next_back().unwrap(); b.prs.remove(&x); } }
        _ => {}
    }
}

/// Runs one case on the real code against the oracle.
fn monitor_case(b: &Option<Cs>, ops: &[Op], inject: u64) -> Result<(), Fail> {
    let mut t = match b {
        None => ProgressTracker::new(16),
        Some(cs) => match raft_new(&cs.to_pb()) {
            Ok(Ok(r)) => {
                let mut o = observe(r.prs());
                inject_obs(&mut o, inject);
                let set = |v: &Vec<u64>| -> Set { v.iter().cloned().collect() };
                if o.inc.is_empty() && o.members().is_empty() && o.prs.is_empty() {
                    // the empty ConfState restores the bootstrap tracker
                } else {
                    o.invariants("Raft::new")?;
                    if o.inc != set(&cs.v) || o.out != set(&cs.o) || o.lrn != set(&cs.l) || o.nxt != set(&cs.ln) || o.auto != cs.auto {
                        return fail("restore-roundtrip", format!("Raft::new accepted {:?} but restored {:?}", cs, o));
                    }
                }
                r.prs().clone()
            }
            Ok(Err(c)) => { if cs_valid(cs) { return fail("restore-roundtrip", format!("valid ConfState {:?} rejected by restore (error {})", cs, c)); } return Ok(()); }
            Err(s) => { if cs_valid(cs) { return fail("restore-roundtrip", format!("valid ConfState {:?} makes Raft::new panic (site {})", cs, s)); } return Ok(()); }
        },
    };
    roundtrip(&t, &observe(&t), "after boot")?;
    for (k, op) in ops.iter().enumerate() {
        let a = observe(&t);
        let what = format!("op {} {:?}", k, op);
        // run the real code; `after` is what the real objects hold afterwards
        let (kind, outcome, after): (Kind, Outcome, Obs) = match op {
            Op::Forget(_) => return Ok(()),
            Op::Roundtrip => { roundtrip(&t, &a, &what)?; continue; }
            Op::Simple(_) | Op::Enter(..) | Op::Leave => {
                let kind = match op { Op::Simple(_) => Kind::Simple, Op::Enter(au, _) => Kind::Enter(*au), _ => Kind::Leave };
                let r = catch(|| match op {
                    Op::Simple(c) => Changer::new(&t).simple(&pb_ccs(c)),
                    Op::Enter(au, c) => Changer::new(&t).enter_joint(*au, &pb_ccs(c)),
                    _ => Changer::new(&t).leave_joint(),
                });
                match r {
                    Ok(Ok((cfg, chs))) => { t.apply_conf(cfg, chs, 1); (kind, Outcome::Done, observe(&t)) }
                    Ok(Err(e)) => (kind, Outcome::Rejected(e.to_string()), observe(&t)),
                    Err(m) => (kind, Outcome::Panicked(m), observe(&t)),
                }
            }
            Op::V2(..) | Op::V1(..) => {
                let (cc, tr, n) = match op {
                    Op::V2(tr, c) => {
                        let mut cc = ConfChangeV2::default();
                        cc.set_transition(match tr { 0 => ConfChangeTransition::Auto, 1 => ConfChangeTransition::Implicit, _ => ConfChangeTransition::Explicit });
                        cc.set_changes(pb_ccs(c).into());
                        (cc, *tr, c.len())
                    }
                    Op::V1(ty, id) => {
                        let mut c1 = ConfChange::default();
                        c1.set_change_type(cc_type(*ty));
                        c1.node_id = *id;
                        (c1.as_v2().into_owned(), 0, 1)
                    }
                    _ => unreachable!(),
                };
                let (leave, enter, kind) = table(tr, n);
                if cc.leave_joint() != leave || cc.enter_joint() != enter {
                    return fail("classification", format!("{}: leave_joint()={} enter_joint()={:?} but the table says {} / {:?}", what, cc.leave_joint(), cc.enter_joint(), leave, enter));
                }
                let mut r = base_raft();
                *r.mut_prs() = t.clone();
                match catch(|| r.apply_conf_change(&cc)) {
                    Ok(Ok(cs)) => {
                        let o = observe(r.prs());
                        let set = |v: &[u64]| -> Set { v.iter().cloned().collect() };
                        if set(cs.get_voters()) != o.inc || set(cs.get_voters_outgoing()) != o.out || set(cs.get_learners()) != o.lrn || set(cs.get_learners_next()) != o.nxt || cs.auto_leave != o.auto {
                            return fail("returned-conf-state", format!("{}: apply_conf_change returned {:?} but the tracker holds {:?}", what, cs, o));
                        }
                        t = r.prs().clone();
                        (kind, Outcome::Done, o)
                    }
                    Ok(Err(e)) => (kind, Outcome::Rejected(e.to_string()), observe(r.prs())),
                    Err(m) => (kind, Outcome::Panicked(m), observe(r.prs())),
                }
            }
        };
        match outcome {
            Outcome::Panicked(m) => return fail("panic", format!("{}: {}", what, m)),
            Outcome::Rejected(e) => {
                if after != a { return fail("rejected-change-mutated", format!("{}: rejected ({}) but {:?} became {:?}", what, e, a, after)); }
            }
            Outcome::Done => {
                let mut bobs = after;
                inject_obs(&mut bobs, inject);
                check_change(kind, &a, &bobs, &what)?;
                roundtrip(&t, &observe(&t), &what)?;
            }
        }
    }
    Ok(())
}

// ---- decoding of a case line (inverse of Cs::enc / Op::enc)

fn take_list(v: &[u64], i: &mut usize) -> Option<Vec<u64>> {
    let n = *v.get(*i)? as usize;
    *i += 1;
    if *i + n > v.len() { return None; }
    let r = v[*i..*i + n].to_vec();
    *i += n;
    Some(r)
}

fn take_ccs(v: &[u64], i: &mut usize) -> Option<Vec<Cc>> {
    let n = *v.get(*i)? as usize;
    *i += 1;
    let mut r = vec![];
    for _ in 0..n {
        let ty = *v.get(*i)?;
        let id = *v.get(*i + 1)?;
        if ty > 2 { return None; }
        *i += 2;
        r.push((ty, id));
    }
    Some(r)
}

fn decode_case(line: &str) -> Option<(Option<Cs>, Vec<Op>)> {
    let mut toks = line.split_whitespace();
    if toks.next()? != COMP { return None; }
    let v: Vec<u64> = toks.map(|x| x.parse().ok()).collect::<Option<Vec<u64>>>()?;
    let mut i = 0usize;
    let b = match *v.get(i)? {
        0 => { i += 1; None }
        1 => {
            i += 1;
            let vv = take_list(&v, &mut i)?;
            let l = take_list(&v, &mut i)?;
            let o = take_list(&v, &mut i)?;
            let ln = take_list(&v, &mut i)?;
            let auto = *v.get(i)? != 0;
            i += 1;
            Some(Cs { v: vv, l, o, ln, auto })
        }
        _ => return None,
    };
    let mut ops = vec![];
    while i < v.len() {
        let code = v[i];
        i += 1;
        let op = match code {
            1 => Op::Simple(take_ccs(&v, &mut i)?),
            2 => { let a = *v.get(i)? != 0; i += 1; Op::Enter(a, take_ccs(&v, &mut i)?) }
            3 => Op::Leave,
            4 => Op::Roundtrip,
            5 => { let id = *v.get(i)?; i += 1; Op::Forget(id) }
            6 => { let tr = *v.get(i)?; if tr > 2 { return None; } i += 1; Op::V2(tr, take_ccs(&v, &mut i)?) }
            7 => { let ty = *v.get(i)?; let id = *v.get(i + 1)?; if ty > 2 { return None; } i += 2; Op::V1(ty, id) }
            _ => return None,
        };
        ops.push(op);
    }
    Some((b, ops))
}

fn case_line(b: &Option<Cs>, ops: &[Op]) -> String {
    let mut input = vec![];
    match b { None => input.push(0), Some(cs) => { input.push(1); cs.enc(&mut input) } }
    for o in ops { o.enc(&mut input); }
    format!("{} {}", COMP, input.iter().map(|x| x.to_string()).collect::<Vec<_>>().join(" "))
}

/// Greedy shrinking: shortest failing prefix, then drop single ops, single
/// changes inside an op, single ids of the boot ConfState, while it still fails.
fn shrink(b: &Option<Cs>, ops: &[Op], inject: u64) -> (Option<Cs>, Vec<Op>) {
    let fails = |b: &Option<Cs>, ops: &[Op]| monitor_case(b, ops, inject).is_err();
    let mut ops: Vec<Op> = ops.to_vec();
    let mut b = b.clone();
    for k in 0..=ops.len() { if fails(&b, &ops[..k]) { ops.truncate(k); break; } }
    loop {
        let mut cands: Vec<(Option<Cs>, Vec<Op>)> = vec![];
        for k in 0..ops.len() { let mut x = ops.clone(); x.remove(k); cands.push((b.clone(), x)); }
        for k in 0..ops.len() {
            let n = match &ops[k] { Op::Simple(c) | Op::Enter(_, c) | Op::V2(_, c) => c.len(), _ => 0 };
            for j in 0..n {
                let mut x = ops.clone();
                match &mut x[k] { Op::Simple(c) | Op::Enter(_, c) | Op::V2(_, c) => { c.remove(j); } _ => {} }
                cands.push((b.clone(), x));
            }
        }
        if let Some(cs) = &b {
            for f in 0..4 {
                let n = [cs.v.len(), cs.l.len(), cs.o.len(), cs.ln.len()][f];
                for j in 0..n {
                    let mut c2 = cs.clone();
                    match f { 0 => { c2.v.remove(j); } 1 => { c2.l.remove(j); } 2 => { c2.o.remove(j); } _ => { c2.ln.remove(j); } }
                    cands.push((Some(c2), ops.clone()));
                }
            }
        }
        match cands.into_iter().find(|(b2, o2)| fails(b2, o2)) {
            Some((b2, o2)) => { b = b2; ops = o2; }
            None => return (b, ops),
        }
    }
}

/// the overlap oracle itself: must reject a two-voter jump, accept a one-voter step
fn overlap_selftest() {
    let o = |inc: &[u64], out: &[u64]| Obs { inc: inc.iter().cloned().collect(), out: out.iter().cloned().collect(), lrn: Set::new(), nxt: Set::new(), auto: false, prs: Set::new() };
    assert!(overlap(&o(&[1, 2, 3], &[]), &o(&[1, 2, 3, 4], &[]), "selftest").is_ok());
    assert!(overlap(&o(&[1, 2, 3], &[]), &o(&[4, 5], &[1, 2, 3]), "selftest").is_ok());
    assert!(overlap(&o(&[1, 2, 3], &[]), &o(&[1, 2, 3, 4, 5], &[]), "selftest").is_err());
    assert!(overlap(&o(&[1, 2], &[]), &o(&[3], &[]), "selftest").is_err());
}

fn monitor(args: &[String]) {
    overlap_selftest();
    let files = arg(args, "--cases", "");
    let inject: u64 = arg(args, "--inject", "0").parse().unwrap_or(0);
    let mut n = 0u64;
    for f in files.split(',').filter(|x| !x.is_empty()) {
        let text = std::fs::read_to_string(f).unwrap();
        for line in text.lines() {
            if let Some((b, ops)) = decode_case(line) {
                n += 1;
                if monitor_case(&b, &ops, inject).is_err() {
                    let (b2, ops2) = shrink(&b, &ops, inject);
                    let f = match monitor_case(&b2, &ops2, inject) { Err(f) => f, Ok(()) => unreachable!() };
                    println!("FAIL {}", case_line(&b2, &ops2));
                    println!("REASON {}: {}", f.kind, f.msg);
                    return;
                }
            }
        }
    }
    println!("MONITOR-OK cases={}", n);
}

pub fn main(args: &[String]) {
    let mode = arg(args, "--mode", "exhaustive");
    if mode == "monitor" { return monitor(args); }
    let dir = arg(args, "--out", "/verif/build/run");
    let nsh: usize = arg(args, "--shards", "16").parse().unwrap();
    let seed: u64 = arg(args, "--seed", "1").parse().unwrap();
    std::fs::create_dir_all(&dir).unwrap();
    let mut total = 0;
    if mode == "exhaustive" || mode == "restore" {
        let name = if mode == "exhaustive" { "confchange-exh" } else { "confchange-rst" };
        let shards = (0..nsh).map(|k| Shard::create(&dir, name, k)).collect();
        let mut e = Exh { shards, rr: 0 };
        if mode == "exhaustive" { exhaustive(args, &mut e) } else { restore_sweep(args, &mut e) }
        for s in e.shards { total += s.finish(); }
    } else {
        let count: usize = arg(args, "--count", "20000").parse().unwrap();
        let len: usize = arg(args, "--len", "30").parse().unwrap();
        let ids: u64 = arg(args, "--ids", "7").parse().unwrap();
        let mut rng = Rng::new(seed);
        let mut shards: Vec<Shard> = (0..nsh).map(|k| Shard::create(&dir, "confchange-rnd", k)).collect();
        for i in 0..count { random_case(&mut rng, len, ids, &mut shards[i % nsh]); }
        for s in shards { total += s.finish(); }
    }
    println!("cases={}", total);
}
