//! C12: drives the real configuration-change code through the public API:
//! `raft::Changer::{simple, enter_joint, leave_joint}`, `ProgressTracker::{apply_conf, conf, iter}`,
//! `Raft::new` (confchange::restore + the fatal on a ConfState mismatch) and
//! `Raft::apply_conf_change` (ConfChangeV2 classification and dispatch).
//!
//! Hash order never reaches the output: every set is emitted sorted, and the
//! Remove entries pushed by `leave_joint` (pushed in hash order of
//! `voters.outgoing`) are sorted by id.  The wire format is described in
//! coq/Run/RunConfChange.v.
use crate::util::*;
use raft::eraftpb::{
    ConfChange, ConfChangeSingle, ConfChangeTransition, ConfChangeType, ConfChangeV2, ConfState,
};
use raft::storage::MemStorage;
use raft::{Changer, Config, MapChange, ProgressTracker, Raft};
use raft_proto::ConfChangeI;
use std::collections::{HashSet, VecDeque};

pub const PANIC: u64 = 999999;
const COMP: &str = "confchange";

fn err_code(msg: &str) -> u64 {
    if msg.contains("no progress for voter") { 1201 }
    else if msg.contains("no progress for learner(next)") { 1205 }
    else if msg.contains("no progress for learner") { 1202 }
    else if msg.contains("is in learners and outgoing voters") { 1203 }
    else if msg.contains("is in learners and incoming voters") { 1204 }
    else if msg.contains("is in learners_next and outgoing voters") { 1206 }
    else if msg.contains("learners_next must be empty when not joint") { 1207 }
    else if msg.contains("auto_leave must be false when not joint") { 1208 }
    else if msg.contains("config is already joint") { 1209 }
    else if msg.contains("can't make a zero-voter config joint") { 1210 }
    else if msg.contains("can't leave a non-joint config") { 1211 }
    else if msg.contains("configuration is not joint") { 1212 }
    else if msg.contains("can't apply simple config change in joint config") { 1213 }
    else if msg.contains("more than one voter changed without entering joint config") { 1214 }
    else if msg.contains("removed all voters") { 1215 }
    else { 9999 }
}

fn site_of(msg: &str) -> u64 {
    if msg.contains("invalid restore") { 1250 } else { 9999 }
}

#[derive(Clone, Debug, PartialEq, Eq, Hash)]
pub struct Cs { v: Vec<u64>, l: Vec<u64>, o: Vec<u64>, ln: Vec<u64>, auto: bool }

impl Cs {
    fn enc(&self, out: &mut Vec<u64>) {
        enc_list(&self.v, out);
        enc_list(&self.l, out);
        enc_list(&self.o, out);
        enc_list(&self.ln, out);
        out.push(self.auto as u64);
    }
    fn to_pb(&self) -> ConfState {
        let mut cs = ConfState::default();
        cs.set_voters(self.v.clone());
        cs.set_learners(self.l.clone());
        cs.set_voters_outgoing(self.o.clone());
        cs.set_learners_next(self.ln.clone());
        cs.auto_leave = self.auto;
        cs
    }
}

/// (type, id); type: 0 AddNode, 1 RemoveNode, 2 AddLearnerNode
pub type Cc = (u64, u64);

#[derive(Clone, Debug)]
pub enum Op {
    Simple(Vec<Cc>),
    Enter(bool, Vec<Cc>),
    Leave,
    Roundtrip,
    Forget(u64),
    V2(u64, Vec<Cc>),
    V1(u64, u64),
}

fn enc_ccs(ccs: &[Cc], out: &mut Vec<u64>) {
    out.push(ccs.len() as u64);
    for (t, id) in ccs { out.push(*t); out.push(*id); }
}

impl Op {
    fn enc(&self, out: &mut Vec<u64>) {
        match self {
            Op::Simple(c) => { out.push(1); enc_ccs(c, out) }
            Op::Enter(a, c) => { out.push(2); out.push(*a as u64); enc_ccs(c, out) }
            Op::Leave => out.push(3),
            Op::Roundtrip => out.push(4),
            Op::Forget(id) => { out.push(5); out.push(*id) }
            Op::V2(t, c) => { out.push(6); out.push(*t); enc_ccs(c, out) }
            Op::V1(t, id) => { out.push(7); out.push(*t); out.push(*id) }
        }
    }
}

fn cc_type(t: u64) -> ConfChangeType {
    match t { 0 => ConfChangeType::AddNode, 1 => ConfChangeType::RemoveNode, _ => ConfChangeType::AddLearnerNode }
}

fn pb_ccs(ccs: &[Cc]) -> Vec<ConfChangeSingle> {
    ccs.iter().map(|(t, id)| raft_proto::new_conf_change_single(*id, cc_type(*t))).collect()
}

fn sorted(mut v: Vec<u64>) -> Vec<u64> { v.sort_unstable(); v }

/// tracker := incoming outgoing learners learners_next auto progress-ids, all sorted
fn dump_tracker(t: &ProgressTracker, out: &mut Vec<u64>) {
    let cs = t.conf().to_conf_state();
    enc_list(&sorted(cs.get_voters().to_vec()), out);
    enc_list(&sorted(cs.get_voters_outgoing().to_vec()), out);
    enc_list(&sorted(cs.get_learners().to_vec()), out);
    enc_list(&sorted(cs.get_learners_next().to_vec()), out);
    // cross-check the getters against to_conf_state
    assert_eq!(sorted(t.conf().learners().iter().cloned().collect()), sorted(cs.get_learners().to_vec()));
    assert_eq!(sorted(t.conf().learners_next().iter().cloned().collect()), sorted(cs.get_learners_next().to_vec()));
    assert_eq!(*t.conf().auto_leave(), cs.auto_leave);
    out.push(cs.auto_leave as u64);
    enc_list(&sorted(t.iter().map(|(id, _)| *id).collect()), out);
}

fn state_key(t: &ProgressTracker) -> Vec<u64> {
    let mut k = vec![];
    dump_tracker(t, &mut k);
    k
}

/// MapChangeType is not nameable from outside the crate; its variant index is
/// read through `std::mem::discriminant` (Add = 0, Remove = 1).
fn changes_pairs(chs: &MapChange) -> Vec<(u64, u64)> {
    chs.iter()
        .map(|(id, t)| {
            let d = format!("{:?}", std::mem::discriminant(t));
            let k: u64 = d.trim_start_matches("Discriminant(").trim_end_matches(')').parse().unwrap();
            (*id, k)
        })
        .collect()
}

fn logger() -> slog::Logger { slog::Logger::root(slog::Discard, slog::o!()) }

/// Raft::new on a storage holding `cs`: Ok(Ok(tracker)) | Ok(Err(code)) | Err(site)
fn raft_new(cs: &ConfState) -> Result<Result<Raft<MemStorage>, u64>, u64> {
    let cs = cs.clone();
    let r = catch(move || {
        let store = MemStorage::new_with_conf_state(cs);
        Raft::new(&Config::new(1), store, &logger())
    });
    match r {
        Ok(Ok(r)) => Ok(Ok(r)),
        Ok(Err(e)) => Ok(Err(err_code(&e.to_string()))),
        Err(m) => Err(site_of(&m)),
    }
}

fn enc_restore(cs: &ConfState, out: &mut Vec<u64>) -> Option<ProgressTracker> {
    match raft_new(cs) {
        Ok(Ok(r)) => { out.push(0); dump_tracker(r.prs(), out); Some(r.prs().clone()) }
        Ok(Err(c)) => { out.push(c); None }
        Err(s) => { out.push(PANIC); out.push(s); None }
    }
}

/// A change list [(id, Remove)] obtained from a scratch tracker.
fn removal_of(id: u64) -> MapChange {
    let mut s = ProgressTracker::new(16);
    for x in [id, id + 1000] {
        let (cfg, ch) = Changer::new(&s).simple(&pb_ccs(&[(0, x)])).unwrap();
        s.apply_conf(cfg, ch, 1);
    }
    let (_, ch) = Changer::new(&s).simple(&pb_ccs(&[(1, id)])).unwrap();
    assert_eq!(changes_pairs(&ch), vec![(id, 1)]);
    ch
}

fn base_raft() -> Raft<MemStorage> {
    let mut cs = ConfState::default();
    cs.set_voters(vec![1]);
    raft_new(&cs).unwrap().unwrap()
}

fn v2_step(t: &mut ProgressTracker, cc: &ConfChangeV2, out: &mut Vec<u64>) {
    out.push(cc.leave_joint() as u64);
    enc_opt(cc.enter_joint().map(|b| b as u64), out);
    let mut r = base_raft();
    *r.mut_prs() = t.clone();
    match catch(|| r.apply_conf_change(cc)) {
        Ok(Ok(cs)) => {
            out.push(0);
            *t = r.prs().clone();
            dump_tracker(t, out);
            // the returned ConfState is the new configuration
            let canon = |c: &ConfState| -> Vec<u64> {
                let mut v = vec![];
                for x in [c.get_voters(), c.get_voters_outgoing(), c.get_learners(), c.get_learners_next()] {
                    enc_list(&sorted(x.to_vec()), &mut v);
                }
                v
            };
            let cs2 = t.conf().to_conf_state();
            let (a, b) = (canon(&cs), canon(&cs2));
            if a != b || cs.auto_leave != cs2.auto_leave { out.push(777777); }
        }
        Ok(Err(e)) => out.push(err_code(&e.to_string())),
        Err(m) => { out.push(PANIC); out.push(site_of(&m)); }
    }
}

/// Applies one op to the real tracker and appends the implementation's answer.
pub fn step(t: &mut ProgressTracker, op: &Op, out: &mut Vec<u64>) {
    match op {
        Op::Simple(_) | Op::Enter(..) | Op::Leave => {
            let is_leave = matches!(op, Op::Leave);
            let r = catch(|| match op {
                Op::Simple(c) => Changer::new(t).simple(&pb_ccs(c)),
                Op::Enter(a, c) => Changer::new(t).enter_joint(*a, &pb_ccs(c)),
                _ => Changer::new(t).leave_joint(),
            });
            match r {
                Ok(Ok((cfg, chs))) => {
                    let mut pairs = changes_pairs(&chs);
                    if is_leave { pairs.sort_unstable(); }
                    t.apply_conf(cfg, chs, 1);
                    out.push(0);
                    dump_tracker(t, out);
                    out.push(pairs.len() as u64);
                    for (id, k) in pairs { out.push(id); out.push(k); }
                }
                Ok(Err(e)) => out.push(err_code(&e.to_string())),
                Err(m) => { out.push(PANIC); out.push(site_of(&m)); }
            }
        }
        Op::Roundtrip => {
            // the real to_conf_state: vectors in hash order
            let cs = t.conf().to_conf_state();
            enc_restore(&cs, out);
        }
        Op::Forget(id) => {
            if *id != 0 {
                let ch = removal_of(*id);
                let cfg = t.conf().clone();
                t.apply_conf(cfg, ch, 1);
            }
            dump_tracker(t, out);
        }
        Op::V2(tr, c) => {
            let mut cc = ConfChangeV2::default();
            cc.set_transition(match tr { 0 => ConfChangeTransition::Auto, 1 => ConfChangeTransition::Implicit, _ => ConfChangeTransition::Explicit });
            cc.set_changes(pb_ccs(c).into());
            v2_step(t, &cc, out);
        }
        Op::V1(ty, id) => {
            let mut cc = ConfChange::default();
            cc.set_change_type(cc_type(*ty));
            cc.node_id = *id;
            let v2 = cc.as_v2();
            assert!(cc.as_v1().is_some());
            v2_step(t, &v2, out);
        }
    }
}

/// boot: None = empty tracker, Some(cs) = Raft::new
fn boot(b: &Option<Cs>, input: &mut Vec<u64>, out: &mut Vec<u64>) -> Option<ProgressTracker> {
    match b {
        None => { input.push(0); Some(ProgressTracker::new(16)) }
        Some(cs) => { input.push(1); cs.enc(input); enc_restore(&cs.to_pb(), out) }
    }
}

// ---------------------------------------------------------------- exhaustive

fn all_lists(ids: u64, len: usize) -> Vec<Vec<Cc>> {
    let singles: Vec<Cc> = (0..=ids).flat_map(|id| (0..3u64).map(move |t| (t, id))).collect();
    let mut res: Vec<Vec<Cc>> = vec![vec![]];
    let mut frontier: Vec<Vec<Cc>> = vec![vec![]];
    for _ in 0..len {
        let mut next = vec![];
        for l in &frontier {
            for s in &singles {
                let mut l2 = l.clone();
                l2.push(*s);
                next.push(l2);
            }
        }
        res.extend(next.iter().cloned());
        frontier = next;
    }
    res
}

struct Node { input: Vec<u64>, out: Vec<u64>, t: ProgressTracker, depth: usize, desynced: bool }

struct Exh { shards: Vec<Shard>, rr: usize }

impl Exh {
    fn put(&mut self, input: &[u64], out: &[u64]) {
        let k = self.rr % self.shards.len();
        self.rr += 1;
        self.shards[k].put(COMP, input, out);
    }
}

fn boots() -> Vec<Option<Cs>> {
    let c = |v: &[u64], l: &[u64], o: &[u64], ln: &[u64], auto: bool| Some(Cs { v: v.to_vec(), l: l.to_vec(), o: o.to_vec(), ln: ln.to_vec(), auto });
    vec![
        None,
        c(&[1], &[], &[], &[], false),
        c(&[3, 1, 2], &[], &[], &[], false),
        c(&[1, 2], &[3], &[], &[], false),
        c(&[1, 2], &[], &[1, 3], &[3], true),
        c(&[2, 3], &[4], &[2, 1], &[1], false),
        c(&[1, 1, 2], &[3, 3], &[], &[], false),
        // invalid / rejected ones
        c(&[], &[1], &[], &[], false),
        c(&[1], &[1], &[], &[], false),
        c(&[1, 2], &[2], &[], &[], false),
        c(&[1], &[], &[], &[2], false),
        c(&[1], &[], &[], &[], true),
        c(&[0, 1], &[], &[], &[], false),
        c(&[1], &[], &[0], &[], false),
        c(&[1], &[2], &[2], &[], false),
        c(&[1], &[], &[2], &[1], true),
    ]
}

/// Bounded-exhaustive: breadth-first over the distinct reachable tracker states
/// (configuration + progress ids).  From every state every op of the op set is
/// emitted as one case (= the op path from the boot to that state, then the op;
/// the outputs of the whole path are compared, so the case set is prefix-closed).
/// All changer functions are functions of (conf, progress ids) only, so deduping
/// on that state loses no behaviour.
fn exhaustive(args: &[String], e: &mut Exh) {
    let ids: u64 = arg(args, "--ids", "3").parse().unwrap();
    let len: usize = arg(args, "--len", "2").parse().unwrap();
    let depth: usize = arg(args, "--depth", "6").parse().unwrap();
    let lists = all_lists(ids, len);
    let short_lists = all_lists(ids, 1);
    let v2_lists = all_lists(ids.min(2), 2);
    let mut ops: Vec<Op> = vec![Op::Leave, Op::Roundtrip];
    for l in &lists {
        ops.push(Op::Simple(l.clone()));
        ops.push(Op::Enter(false, l.clone()));
        ops.push(Op::Enter(true, l.clone()));
    }
    let mut small_ops: Vec<Op> = vec![Op::Leave, Op::Roundtrip];
    for l in &short_lists {
        small_ops.push(Op::Simple(l.clone()));
        small_ops.push(Op::Enter(false, l.clone()));
        small_ops.push(Op::Enter(true, l.clone()));
    }
    let mut v_ops: Vec<Op> = vec![];
    for tr in 0..3u64 { for l in &v2_lists { v_ops.push(Op::V2(tr, l.clone())); } }
    for ty in 0..3u64 { for id in 0..=ids { v_ops.push(Op::V1(ty, id)); } }

    let mut seen: HashSet<Vec<u64>> = HashSet::new();
    let mut queue: VecDeque<Node> = VecDeque::new();
    for b in boots() {
        let mut input = vec![];
        let mut out = vec![];
        let t = boot(&b, &mut input, &mut out);
        e.put(&input, &out);
        if let Some(t) = t {
            if seen.insert(state_key(&t)) {
                queue.push_back(Node { input, out, t, depth: 0, desynced: false });
            }
        }
    }
    let (mut nstates, mut maxdepth) = (0u64, 0usize);
    while let Some(n) = queue.pop_front() {
        nstates += 1;
        maxdepth = maxdepth.max(n.depth);
        // in a joint state simple/enter_joint are rejected before looking at the list: short lists suffice
        let is_joint = !n.t.conf().to_conf_state().get_voters_outgoing().is_empty();
        let mut cands: Vec<&Op> = if n.desynced { small_ops.iter().collect() }
            else if is_joint { small_ops.iter().chain(v_ops.iter()).collect() }
            else { ops.iter().chain(v_ops.iter()).collect() };
        let forgets: Vec<Op> = if n.desynced { vec![] } else { sorted(n.t.iter().map(|(id, _)| *id).collect()).into_iter().map(Op::Forget).collect() };
        cands.extend(forgets.iter());
        for op in cands {
            let mut input = n.input.clone();
            let mut out = n.out.clone();
            let mut t = n.t.clone();
            op.enc(&mut input);
            step(&mut t, op, &mut out);
            e.put(&input, &out);
            let forget = matches!(op, Op::Forget(_));
            if n.desynced || n.depth + 1 >= depth { continue; }
            if seen.insert(state_key(&t)) {
                queue.push_back(Node { input, out, t, depth: n.depth + 1, desynced: forget });
            }
        }
    }
    println!("states={} maxdepth={}", nstates, maxdepth);
}

/// All ConfStates whose four vectors are sub-lists of 0..=ids (increasing, and
/// once more reversed), both auto_leave values, through Raft::new.
fn restore_sweep(args: &[String], e: &mut Exh) {
    let ids: u64 = arg(args, "--ids", "3").parse().unwrap();
    let zero: u64 = arg(args, "--zero", "0").parse().unwrap();
    // universe: 1..=ids, or 0..=ids with --zero 1
    let lo = if zero == 1 { 0 } else { 1 };
    let n = 1u64 << (ids + 1 - lo);
    let sub = |m: u64, rev: bool| -> Vec<u64> {
        let mut v: Vec<u64> = (lo..=ids).filter(|i| m >> (i - lo) & 1 == 1).collect();
        if rev { v.reverse(); }
        v
    };
    for rev in [false, true] {
        for a in 0..n { for b in 0..n { for c in 0..n { for d in 0..n { for auto in [false, true] {
            let cs = Cs { v: sub(a, rev), l: sub(b, rev), o: sub(c, !rev), ln: sub(d, rev), auto };
            let mut input = vec![];
            let mut out = vec![];
            let t = boot(&Some(cs), &mut input, &mut out);
            if let Some(mut t) = t {
                // a successful restore must round-trip again
                Op::Roundtrip.enc(&mut input);
                step(&mut t, &Op::Roundtrip, &mut out);
            }
            e.put(&input, &out);
        } } } } }
    }
}

// -------------------------------------------------------------------- random

fn rand_ccs(rng: &mut Rng, ids: u64, maxlen: u64) -> Vec<Cc> {
    let n = rng.below(maxlen + 1);
    (0..n).map(|_| (rng.below(3), rng.below(ids + 1))).collect()
}

fn rand_subset(rng: &mut Rng, ids: u64, p: u64) -> Vec<u64> {
    let mut v: Vec<u64> = (0..=ids).filter(|_| rng.chance(p, 8)).collect();
    // shuffle, sometimes duplicate
    for i in (1..v.len()).rev() { let j = rng.below(i as u64 + 1) as usize; v.swap(i, j); }
    if !v.is_empty() && rng.chance(1, 10) { let x = *rng.pick(&v); v.push(x); }
    v
}

fn rand_boot(rng: &mut Rng, ids: u64) -> Option<Cs> {
    let r = rng.below(10);
    if r < 2 { return None; }
    if r < 4 {
        // arbitrary
        return Some(Cs { v: rand_subset(rng, ids, 3), l: rand_subset(rng, ids, 1), o: rand_subset(rng, ids, 2), ln: rand_subset(rng, ids, 1), auto: rng.chance(1, 2) });
    }
    // valid by construction: role per id
    let (mut v, mut l, mut o, mut ln) = (vec![], vec![], vec![], vec![]);
    let jointy = rng.chance(1, 2);
    for id in 1..=ids {
        match rng.below(if jointy { 7 } else { 4 }) {
            0 => {}
            1 | 2 => v.push(id),
            3 => l.push(id),
            4 => o.push(id),
            5 => { v.push(id); o.push(id) }
            _ => { o.push(id); ln.push(id) }
        }
    }
    if v.is_empty() { v.push(1); l.retain(|x| *x != 1); ln.retain(|x| *x != 1); }
    let auto = !o.is_empty() && rng.chance(1, 2);
    if o.is_empty() { ln.clear(); }
    for s in [&mut v, &mut l, &mut o, &mut ln] {
        for i in (1..s.len()).rev() { let j = rng.below(i as u64 + 1) as usize; s.swap(i, j); }
    }
    Some(Cs { v, l, o, ln, auto })
}

fn random_case(rng: &mut Rng, len: usize, ids: u64, sh: &mut Shard) {
    let b = rand_boot(rng, ids);
    let mut input = vec![];
    let mut out = vec![];
    if let Some(mut t) = boot(&b, &mut input, &mut out) {
        for _ in 0..len {
            let jointnow = !t.conf().to_conf_state().get_voters_outgoing().is_empty();
            let r = rng.below(100);
            let op = if jointnow && r < 35 { Op::Leave }
                else if r < 40 { let m = if rng.chance(3, 4) { 1 } else { 4 }; Op::Simple(rand_ccs(rng, ids, m)) }
                else if r < 65 { Op::Enter(rng.chance(1, 2), rand_ccs(rng, ids, 5)) }
                else if r < 70 { Op::Leave }
                else if r < 78 { Op::Roundtrip }
                else if r < 79 { Op::Forget(rng.below(ids + 1)) }
                else if r < 94 { Op::V2(rng.below(3), rand_ccs(rng, ids, 3)) }
                else { Op::V1(rng.below(3), rng.below(ids + 1)) };
            op.enc(&mut input);
            step(&mut t, &op, &mut out);
        }
    }
    sh.put(COMP, &input, &out);
}

pub fn main(args: &[String]) {
    let mode = arg(args, "--mode", "exhaustive");
    let dir = arg(args, "--out", "/verif/build/run");
    let nsh: usize = arg(args, "--shards", "16").parse().unwrap();
    let seed: u64 = arg(args, "--seed", "1").parse().unwrap();
    std::fs::create_dir_all(&dir).unwrap();
    let mut total = 0;
    if mode == "exhaustive" || mode == "restore" {
        let name = if mode == "exhaustive" { "confchange-exh" } else { "confchange-rst" };
        let shards = (0..nsh).map(|k| Shard::create(&dir, name, k)).collect();
        let mut e = Exh { shards, rr: 0 };
        if mode == "exhaustive" { exhaustive(args, &mut e) } else { restore_sweep(args, &mut e) }
        for s in e.shards { total += s.finish(); }
    } else {
        let count: usize = arg(args, "--count", "20000").parse().unwrap();
        let len: usize = arg(args, "--len", "30").parse().unwrap();
        let ids: u64 = arg(args, "--ids", "7").parse().unwrap();
        let mut rng = Rng::new(seed);
        let mut shards: Vec<Shard> = (0..nsh).map(|k| Shard::create(&dir, "confchange-rnd", k)).collect();
        for i in 0..count { random_case(&mut rng, len, ids, &mut shards[i % nsh]); }
        for s in shards { total += s.finish(); }
    }
    println!("cases={}", total);
}
