//! Shared helpers: PRNG, panic capture, sharded output.
use std::cell::RefCell;
use std::fs::File;
use std::io::{BufWriter, Write};
use std::panic::{self, AssertUnwindSafe};

/// splitmix64: every random choice of a run derives from one seed.
#[derive(Clone)]
pub struct Rng(pub u64);
impl Rng {
    /// The initial state is the splitmix finalizer of the seed: with a plain affine
    /// map, seed s+1 would be the stream of seed s shifted by one draw and different
    /// seeds would regenerate almost the same cases.
    pub fn new(seed: u64) -> Rng {
        let mut z = seed.wrapping_add(0x9E3779B97F4A7C15);
        z = (z ^ (z >> 30)).wrapping_mul(0xBF58476D1CE4E5B9);
        z = (z ^ (z >> 27)).wrapping_mul(0x94D049BB133111EB);
        Rng(z ^ (z >> 31))
    }
    pub fn next(&mut self) -> u64 {
        self.0 = self.0.wrapping_add(0x9E3779B97F4A7C15);
        let mut z = self.0;
        z = (z ^ (z >> 30)).wrapping_mul(0xBF58476D1CE4E5B9);
        z = (z ^ (z >> 27)).wrapping_mul(0x94D049BB133111EB);
        z ^ (z >> 31)
    }
    pub fn below(&mut self, n: u64) -> u64 {
        if n == 0 { 0 } else { self.next() % n }
    }
    pub fn chance(&mut self, num: u64, den: u64) -> bool {
        self.below(den) < num
    }
    pub fn pick<'a, T>(&mut self, v: &'a [T]) -> &'a T {
        &v[self.below(v.len() as u64) as usize]
    }
}

thread_local! {
    static LAST_PANIC: RefCell<String> = RefCell::new(String::new());
}

pub fn install_quiet_panic_hook() {
    panic::set_hook(Box::new(|info| {
        let msg = if let Some(s) = info.payload().downcast_ref::<&str>() {
            s.to_string()
        } else if let Some(s) = info.payload().downcast_ref::<String>() {
            s.clone()
        } else {
            "?".to_string()
        };
        let loc = info
            .location()
            .map(|l| format!("{}:{}", l.file(), l.line()))
            .unwrap_or_default();
        LAST_PANIC.with(|p| *p.borrow_mut() = format!("{} @ {}", msg, loc));
    }));
}

/// Runs `f`; on panic returns the panic message (with location).
pub fn catch<R>(f: impl FnOnce() -> R) -> Result<R, String> {
    match panic::catch_unwind(AssertUnwindSafe(f)) {
        Ok(r) => Ok(r),
        Err(_) => Err(LAST_PANIC.with(|p| p.borrow().clone())),
    }
}

/// One shard = a pair of files: the cases fed to the model and the
/// implementation's answers, one line each, same order.
pub struct Shard {
    pub cases: BufWriter<File>,
    pub imp: BufWriter<File>,
    pub meta: Option<BufWriter<File>>,
    pub n: u64,
}

impl Shard {
    pub fn create(dir: &str, comp: &str, k: usize) -> Shard {
        let c = File::create(format!("{}/{}.cases.{}.txt", dir, comp, k)).unwrap();
        let i = File::create(format!("{}/{}.impl.{}.txt", dir, comp, k)).unwrap();
        Shard { cases: BufWriter::with_capacity(1 << 20, c), imp: BufWriter::with_capacity(1 << 20, i), meta: None, n: 0 }
    }
    pub fn put(&mut self, comp: &str, input: &[u64], output: &[u64]) {
        let mut s = String::with_capacity(16 + input.len() * 4);
        s.push_str(comp);
        for x in input {
            s.push(' ');
            s.push_str(&x.to_string());
        }
        s.push('\n');
        self.cases.write_all(s.as_bytes()).unwrap();
        let mut o = String::with_capacity(output.len() * 4);
        for (i, x) in output.iter().enumerate() {
            if i > 0 {
                o.push(' ');
            }
            o.push_str(&x.to_string());
        }
        o.push('\n');
        self.imp.write_all(o.as_bytes()).unwrap();
        self.n += 1;
    }
    pub fn with_meta(mut self, dir: &str, comp: &str, k: usize) -> Shard {
        let m = File::create(format!("{}/{}.meta.{}.txt", dir, comp, k)).unwrap();
        self.meta = Some(BufWriter::with_capacity(1 << 16, m));
        self
    }
    pub fn finish(mut self) -> u64 {
        self.cases.flush().unwrap();
        self.imp.flush().unwrap();
        if let Some(m) = self.meta.as_mut() {
            m.flush().unwrap();
        }
        self.n
    }
}

pub fn enc_opt(o: Option<u64>, out: &mut Vec<u64>) {
    match o {
        None => out.push(0),
        Some(v) => {
            out.push(1);
            out.push(v)
        }
    }
}

pub fn enc_list(l: &[u64], out: &mut Vec<u64>) {
    out.push(l.len() as u64);
    out.extend_from_slice(l);
}

/// Simple `--key value` argument lookup.
pub fn arg(args: &[String], key: &str, default: &str) -> String {
    for i in 0..args.len() {
        if args[i] == key && i + 1 < args.len() {
            return args[i + 1].clone();
        }
    }
    default.to_string()
}
