//! Correspondence-check harness: drives the real raft-rs types and writes,
//! per case, the numeric input (fed to the Coq-extracted model) and the
//! implementation's numeric answer.
mod util;
mod c_inflights;
mod c_quorum;
mod c_memstorage;
mod node;
mod ptrace;
mod sim;
mod c_node;
mod c_confchange;
mod monitor;
mod c_raftlog;
mod findings;

fn main() {
    let args: Vec<String> = std::env::args().collect();
    if args.len() < 2 {
        eprintln!("usage: vharness <component> [--mode m] [--out dir] [--seed s] [--depth d] [--count n] [--shards k]");
        std::process::exit(2);
    }
    util::install_quiet_panic_hook();
    let rest = &args[2..];
    match args[1].as_str() {
        "inflights" => c_inflights::main(rest),
        "quorum" => c_quorum::main(rest),
        "memstorage" => c_memstorage::main(rest),
        "node" => c_node::main(rest),
        "confchange" => c_confchange::main(rest),
        "monitor" => monitor::main(rest),
        "finding" => findings::main(rest),
        "raftlog" => c_raftlog::main(rest),
        other => {
            eprintln!("unknown component {}", other);
            std::process::exit(2);
        }
    }
}
