//! Node-level wire format: dumps a `RawNode<MemStorage>` (all of its state,
//! private fields through the cfg(tikv_raft_rs_verif) hooks) in exactly the
//! token stream of coq/Run/RunNode.v, encodes API calls, executes them on the
//! real node under catch_unwind and encodes the results.
use crate::util::catch;
use protobuf::Message as PbMessage;
use raft::eraftpb::{
    ConfChange, ConfChangeSingle, ConfChangeTransition, ConfChangeType, ConfChangeV2, ConfState, Entry,
    EntryType, Message, MessageType, Snapshot,
};
use raft::storage::MemStorage;
use raft::{GetEntriesContext, LightReady, Progress, ProgressState, RawNode, Ready, SnapshotStatus, StateRole, Storage};

pub const BASE: u128 = 1u128 << 64;
pub const SEC_RESULT: u128 = BASE + 1;
pub const SEC_HARD: u128 = BASE + 2;
pub const SEC_LOG: u128 = BASE + 3;
pub const SEC_TIMERS: u128 = BASE + 4;
pub const SEC_PROGRESS: u128 = BASE + 5;
pub const SEC_CONF: u128 = BASE + 6;
pub const SEC_MSGS: u128 = BASE + 7;
pub const SEC_READ: u128 = BASE + 8;
pub const SEC_TRANSFER: u128 = BASE + 9;
pub const SEC_UNCOMMITTED: u128 = BASE + 10;
pub const SEC_RAWNODE: u128 = BASE + 11;
pub const SEC_CONFIG: u128 = BASE + 12;
pub const SEC_STORE: u128 = BASE + 13;
pub const SEC_NEW: u128 = BASE + 14;
pub const MSG_MARK: u128 = BASE + 100;
pub const PANIC_TOK: u64 = 999999;

/// The simulated application's storage: a real MemStorage for everything except
/// `snapshot()`, which (when `sim_snap`) returns the application's own snapshot,
/// taken at its applied index, or SnapshotTemporarilyUnavailable when that is
/// behind the requested index.  (MemStorage::snapshot bumps the index of a
/// snapshot it does not have: test scaffolding, checked on its own terms in C19.)
#[derive(Clone)]
pub struct SimStorage {
    pub mem: MemStorage,
    pub applied: std::sync::Arc<std::sync::atomic::AtomicU64>,
    pub sim_snap: bool,
}

impl SimStorage {
    pub fn new(mem: MemStorage, sim_snap: bool) -> SimStorage {
        SimStorage { mem, applied: Default::default(), sim_snap }
    }
    pub fn applied(&self) -> u64 {
        self.applied.load(std::sync::atomic::Ordering::SeqCst)
    }
    pub fn set_applied(&self, a: u64) {
        self.applied.store(a, std::sync::atomic::Ordering::SeqCst)
    }
}

impl Storage for SimStorage {
    fn initial_state(&self) -> raft::Result<raft::RaftState> {
        self.mem.initial_state()
    }
    fn entries(&self, low: u64, high: u64, max_size: impl Into<Option<u64>>, context: GetEntriesContext) -> raft::Result<Vec<Entry>> {
        self.mem.entries(low, high, max_size, context)
    }
    fn term(&self, idx: u64) -> raft::Result<u64> {
        self.mem.term(idx)
    }
    fn first_index(&self) -> raft::Result<u64> {
        self.mem.first_index()
    }
    fn last_index(&self) -> raft::Result<u64> {
        self.mem.last_index()
    }
    fn snapshot(&self, request_index: u64, to: u64) -> raft::Result<Snapshot> {
        if !self.sim_snap {
            return self.mem.snapshot(request_index, to);
        }
        let a = self.applied();
        let unavailable = Err(raft::Error::Store(raft::StorageError::SnapshotTemporarilyUnavailable));
        if a < request_index || a == 0 {
            return unavailable;
        }
        match self.mem.term(a) {
            Ok(t) => {
                let mut s = Snapshot::default();
                s.mut_metadata().index = a;
                s.mut_metadata().term = t;
                s.mut_metadata().set_conf_state(self.mem.initial_state().unwrap().conf_state);
                Ok(s)
            }
            Err(_) => unavailable,
        }
    }
}

pub type Node = RawNode<SimStorage>;

/// Token writer: decimal numbers separated by blanks.
#[derive(Default, Clone)]
pub struct W(pub String);

impl W {
    pub fn n(&mut self, x: u64) {
        if !self.0.is_empty() {
            self.0.push(' ');
        }
        self.0.push_str(&x.to_string());
    }
    pub fn m(&mut self, x: u128) {
        if !self.0.is_empty() {
            self.0.push(' ');
        }
        self.0.push_str(&x.to_string());
    }
    pub fn b(&mut self, x: bool) {
        self.n(x as u64)
    }
    pub fn list(&mut self, l: &[u64]) {
        self.n(l.len() as u64);
        for x in l {
            self.n(*x);
        }
    }
    pub fn bytes(&mut self, l: &[u8]) {
        self.n(l.len() as u64);
        for x in l {
            self.n(*x as u64);
        }
    }
    pub fn opt(&mut self, o: Option<u64>) {
        match o {
            None => self.n(0),
            Some(v) => {
                self.n(1);
                self.n(v)
            }
        }
    }
    pub fn z(&mut self, v: i64) {
        if v < 0 {
            self.n(1);
            self.n(v.unsigned_abs());
        } else {
            self.n(0);
            self.n(v as u64);
        }
    }
    pub fn sorted(&mut self, l: impl IntoIterator<Item = u64>) {
        let mut v: Vec<u64> = l.into_iter().collect();
        v.sort_unstable();
        self.list(&v);
    }
}

pub fn enc_entry(w: &mut W, e: &Entry) {
    w.n(e.get_entry_type() as u64);
    w.n(e.term);
    w.n(e.index);
    w.bytes(&e.data);
    w.bytes(&e.context);
}

pub fn enc_entries(w: &mut W, es: &[Entry]) {
    w.n(es.len() as u64);
    for e in es {
        enc_entry(w, e);
    }
}

/// ConfState vectors are hash-ordered in the implementation: sorted on the wire
/// (every consumer is order-insensitive; the model keeps them sorted).
pub fn enc_cs(w: &mut W, cs: &ConfState) {
    w.sorted(cs.voters.iter().cloned());
    w.sorted(cs.learners.iter().cloned());
    w.sorted(cs.voters_outgoing.iter().cloned());
    w.sorted(cs.learners_next.iter().cloned());
    w.b(cs.auto_leave);
}

/// As given (no sorting): for ConfStates that arrive from outside (snapshots in
/// messages, storage), where the model receives exactly the same vectors.
pub fn enc_cs_raw(w: &mut W, cs: &ConfState) {
    w.list(&cs.voters);
    w.list(&cs.learners);
    w.list(&cs.voters_outgoing);
    w.list(&cs.learners_next);
    w.b(cs.auto_leave);
}

pub fn enc_snap(w: &mut W, s: &Snapshot) {
    let md = s.get_metadata();
    w.n(md.index);
    w.n(md.term);
    enc_cs_raw(w, md.get_conf_state());
}

/// What the real protobuf decoder says about a conf-change entry (model oracle m_ccinfo).
pub fn ccinfo_of(e: &Entry) -> u64 {
    match e.get_entry_type() {
        EntryType::EntryNormal => 0,
        EntryType::EntryConfChange => {
            let mut cc = ConfChange::default();
            match cc.merge_from_bytes(&e.data) {
                Err(_) => 1,
                Ok(()) => 3, // into_v2() always yields one change
            }
        }
        EntryType::EntryConfChangeV2 => {
            let mut cc = ConfChangeV2::default();
            match cc.merge_from_bytes(&e.data) {
                Err(_) => 1,
                Ok(()) => {
                    if cc.changes.is_empty() {
                        2
                    } else {
                        3
                    }
                }
            }
        }
    }
}

pub fn enc_msg(w: &mut W, m: &Message) {
    w.m(MSG_MARK);
    w.n(m.get_msg_type() as u64);
    w.n(m.to);
    w.n(m.from);
    w.n(m.term);
    w.n(m.log_term);
    w.n(m.index);
    enc_entries(w, &m.entries);
    w.n(m.commit);
    w.n(m.commit_term);
    enc_snap(w, m.get_snapshot());
    w.n(m.request_snapshot);
    w.b(m.reject);
    w.n(m.reject_hint);
    w.bytes(&m.context);
    w.n(m.deprecated_priority);
    w.z(m.priority);
    if m.get_msg_type() == MessageType::MsgPropose {
        let ci: Vec<u64> = m.entries.iter().map(ccinfo_of).collect();
        w.list(&ci);
    } else {
        w.n(0);
    }
}

/// Outbound messages, stably sorted by destination (hash iteration order of the
/// progress map is not modelled).
pub fn enc_msgs_sorted(w: &mut W, ms: &[Message]) {
    let mut v: Vec<&Message> = ms.iter().collect();
    v.sort_by_key(|m| m.to);
    w.n(v.len() as u64);
    for m in v {
        enc_msg(w, m);
    }
}

pub(crate) fn dbg_field<'a>(dbg: &'a str, name: &str) -> &'a str {
    let key = format!("{}: ", name);
    let i = dbg.find(&key).unwrap_or_else(|| panic!("Debug output lacks field {}: {}", name, dbg)) + key.len();
    let rest = &dbg[i..];
    let mut depth = 0i32;
    for (j, ch) in rest.char_indices() {
        match ch {
            '[' | '(' => depth += 1,
            ']' | ')' => depth -= 1,
            ',' if depth == 0 => return &rest[..j],
            '}' if depth == 0 => return rest[..j].trim_end(),
            _ => {}
        }
    }
    rest
}

pub fn enc_inflights(w: &mut W, ins: &raft::Inflights) {
    let d = format!("{:?}", ins);
    let num = |n: &str| -> u64 { dbg_field(&d, n).trim().parse().unwrap() };
    w.n(num("start"));
    w.n(num("count"));
    w.n(num("cap"));
    let inc = dbg_field(&d, "incoming_cap").trim();
    if inc == "None" {
        w.n(0);
    } else {
        w.n(1);
        w.n(inc.trim_start_matches("Some(").trim_end_matches(')').parse().unwrap());
    }
    w.b(ins.buffer_is_allocated());
    let b = dbg_field(&d, "buffer").trim();
    let inner = &b[1..b.len() - 1];
    let v: Vec<u64> = if inner.trim().is_empty() { vec![] } else { inner.split(',').map(|x| x.trim().parse().unwrap()).collect() };
    w.list(&v);
}

pub fn enc_progress(w: &mut W, p: &Progress) {
    w.n(p.matched);
    w.n(p.next_idx);
    w.n(match p.state {
        ProgressState::Probe => 0,
        ProgressState::Replicate => 1,
        ProgressState::Snapshot => 2,
    });
    w.b(p.paused);
    w.n(p.pending_snapshot);
    w.n(p.pending_request_snapshot);
    w.b(p.recent_active);
    enc_inflights(w, &p.ins);
    w.n(p.commit_group_id);
    w.n(p.committed_index);
}

pub fn role_code(r: StateRole) -> u64 {
    match r {
        StateRole::Follower => 0,
        StateRole::Candidate => 1,
        StateRole::Leader => 2,
        StateRole::PreCandidate => 3,
    }
}

/// (snapshot index, snapshot term) of a MemStorage: the metadata is private, but
/// `term()` answers Ok below `first_index` only at the snapshot index.
pub fn store_snap_point(s: &MemStorage) -> (u64, u64) {
    let first = s.first_index().unwrap();
    let mut i = first;
    while i > 0 {
        i -= 1;
        if let Ok(t) = s.term(i) {
            return (i, t);
        }
    }
    (0, 0)
}

pub fn enc_store(w: &mut W, sim: &SimStorage) {
    let s = &sim.mem;
    let st = s.initial_state().unwrap();
    w.n(st.hard_state.term);
    w.n(st.hard_state.vote);
    w.n(st.hard_state.commit);
    enc_cs_raw(w, &st.conf_state);
    let first = s.first_index().unwrap();
    let last = s.last_index().unwrap();
    let ents = if last + 1 > first {
        s.entries(first, last + 1, None, GetEntriesContext::empty(false)).unwrap()
    } else {
        vec![]
    };
    enc_entries(w, &ents);
    let (si, st_) = store_snap_point(s);
    w.n(si);
    w.n(st_);
    if sim.sim_snap {
        w.opt(Some(sim.applied()));
    } else {
        w.opt(None);
    }
}

pub fn enc_raft(w: &mut W, n: &Node) {
    let r = &n.raft;
    let pv = r.verif_private();
    w.m(SEC_HARD);
    w.n(r.term);
    w.n(r.vote);
    w.n(role_code(r.state));
    w.n(r.leader_id);
    let mut votes: Vec<(u64, bool)> = r.prs().votes().iter().map(|(k, v)| (*k, *v)).collect();
    votes.sort();
    w.n(votes.len() as u64);
    for (k, v) in votes {
        w.n(k);
        w.b(v);
    }
    w.m(SEC_LOG);
    let l = &r.raft_log;
    w.n(l.committed);
    w.n(l.persisted);
    w.n(l.applied);
    w.n(l.max_apply_unpersisted_log_limit);
    match &l.unstable.snapshot {
        None => w.n(0),
        Some(s) => {
            w.n(1);
            enc_snap(w, s)
        }
    }
    enc_entries(w, &l.unstable.entries);
    w.n(l.unstable.entries_size as u64);
    w.n(l.unstable.offset);
    w.n(r.pending_request_snapshot);
    w.m(SEC_TIMERS);
    w.n(r.election_elapsed as u64);
    w.n(pv[1]);
    w.n(pv[7]);
    w.m(SEC_PROGRESS);
    let mut prs: Vec<(u64, &Progress)> = r.prs().iter().map(|(k, p)| (*k, p)).collect();
    prs.sort_by_key(|x| x.0);
    w.n(prs.len() as u64);
    for (k, p) in prs {
        w.n(k);
        enc_progress(w, p);
    }
    w.m(SEC_CONF);
    let c = r.prs().conf().to_conf_state();
    w.sorted(c.voters.iter().cloned());
    w.sorted(c.voters_outgoing.iter().cloned());
    w.sorted(c.learners.iter().cloned());
    w.sorted(c.learners_next.iter().cloned());
    w.b(c.auto_leave);
    w.n(pv[0]);
    w.n(r.pending_conf_index);
    w.m(SEC_MSGS);
    enc_msgs_sorted(w, &r.msgs);
    w.m(SEC_READ);
    let ro = &r.read_only;
    w.n(ro.option as u64);
    w.n(ro.read_index_queue.len() as u64);
    for ctx in ro.read_index_queue.iter() {
        w.bytes(ctx);
        match ro.pending_read_index.get(ctx) {
            Some(st) => {
                w.n(1);
                enc_msg(w, &st.req);
                w.n(st.index);
                w.sorted(st.acks.iter().cloned());
            }
            None => w.n(0),
        }
    }
    w.n(r.read_states.len() as u64);
    for rs in &r.read_states {
        w.n(rs.index);
        w.bytes(&rs.request_ctx);
    }
    w.m(SEC_TRANSFER);
    w.opt(r.lead_transferee);
    w.m(SEC_UNCOMMITTED);
    w.n(pv[10]);
    w.n(pv[11]);
    w.n(pv[12]);
    w.m(SEC_CONFIG);
    w.n(r.id);
    w.n(r.max_inflight as u64);
    w.n(r.max_msg_size);
    w.b(r.check_quorum);
    w.b(r.pre_vote);
    w.n(pv[2]);
    w.n(pv[3]);
    w.n(pv[4]);
    w.n(pv[5]);
    w.n(pv[6]);
    w.n(pv[8]);
    w.n(pv[9]);
    w.z(r.priority);
    w.n(pv[13]);
    w.n(r.max_inflight as u64);
    w.b(r.prs().group_commit());
    w.m(SEC_STORE);
    enc_store(w, r.store());
}

pub fn enc_rawnode(w: &mut W, n: &Node) {
    enc_raft(w, n);
    let p = n.verif_private();
    w.m(SEC_RAWNODE);
    w.n(p.prev_leader_id);
    w.n(role_code(p.prev_role));
    w.n(p.prev_hs.0);
    w.n(p.prev_hs.1);
    w.n(p.prev_hs.2);
    w.n(p.max_number);
    w.n(p.records.len() as u64);
    for (num, le, sn, hc) in &p.records {
        w.n(*num);
        for o in [le, sn] {
            match o {
                None => w.n(0),
                Some((a, b)) => {
                    w.n(1);
                    w.n(*a);
                    w.n(*b)
                }
            }
        }
        w.b(*hc);
    }
    w.n(p.commit_since_index);
}

// ---------------------------------------------------------------------------
// calls

#[derive(Clone, Debug)]
pub enum Call {
    Tick,
    Step(Message),
    Campaign,
    Propose(Vec<u8>, Vec<u8>),
    /// context, V1 change or V2 change
    ProposeConfChange(Vec<u8>, CcKind),
    ApplyConfChange(ConfChangeV2),
    Ready,
    HasReady,
    AdvanceAppend,
    Advance,
    AdvanceAppendAsync,
    OnPersistReady(u64),
    AdvanceApplyTo(u64),
    AdvanceApply,
    ReportUnreachable(u64),
    ReportSnapshot(u64, bool),
    RequestSnapshot,
    TransferLeader(u64),
    ReadIndex(Vec<u8>),
    Ping,
    SetPriority(i64),
    SetApplyLimit(u64),
    AdjustInflight(u64, u64),
    SetCheckQuorum(bool),
    EnableGroupCommit(bool),
    AssignCommitGroups(Vec<(u64, u64)>),
    SkipBcastCommit(bool),
    SetBatchAppend(bool),
    MaybeFreeInflight,
    /// adversarial state tweak (pointwise tie only): `raft.raft_log.commit_to(k)` called directly
    CommitTo(u64),
}

#[derive(Clone, Debug)]
pub enum CcKind {
    V1(ConfChange),
    V2(ConfChangeV2),
    /// raw (possibly malformed) bytes with an entry type (1 or 2)
    Raw(u64, Vec<u8>),
}

pub fn cc_single(ty: u64, id: u64) -> ConfChangeSingle {
    let mut c = ConfChangeSingle::default();
    c.set_change_type(match ty {
        0 => ConfChangeType::AddNode,
        1 => ConfChangeType::RemoveNode,
        _ => ConfChangeType::AddLearnerNode,
    });
    c.node_id = id;
    c
}

pub fn cc_v2(transition: u64, changes: &[(u64, u64)]) -> ConfChangeV2 {
    let mut cc = ConfChangeV2::default();
    cc.set_transition(match transition {
        0 => ConfChangeTransition::Auto,
        1 => ConfChangeTransition::Implicit,
        _ => ConfChangeTransition::Explicit,
    });
    cc.set_changes(changes.iter().map(|(t, i)| cc_single(*t, *i)).collect::<Vec<_>>().into());
    cc
}

fn enc_ccv2(w: &mut W, cc: &ConfChangeV2) {
    w.n(cc.get_transition() as u64);
    w.n(cc.changes.len() as u64);
    for c in cc.changes.iter() {
        w.n(c.get_change_type() as u64);
        w.n(c.node_id);
    }
}

/// The part of the last Ready that advance* reads back.
pub fn enc_rd_stub(w: &mut W, rd: &Ready) {
    w.n(rd.number());
    match rd.ss() {
        None => w.n(0),
        Some(ss) => {
            w.n(1);
            w.n(ss.leader_id);
            w.n(role_code(ss.raft_state));
        }
    }
    match rd.hs() {
        None => w.n(0),
        Some(hs) => {
            w.n(1);
            w.n(hs.term);
            w.n(hs.vote);
            w.n(hs.commit);
        }
    }
}

fn enc_light(w: &mut W, l: &LightReady) {
    w.opt(l.commit_index());
    enc_entries(w, l.committed_entries());
    enc_msgs_sorted(w, l.messages());
}

fn enc_ready(w: &mut W, rd: &Ready) {
    w.n(rd.number());
    match rd.ss() {
        None => w.n(0),
        Some(ss) => {
            w.n(1);
            w.n(ss.leader_id);
            w.n(role_code(ss.raft_state));
        }
    }
    match rd.hs() {
        None => w.n(0),
        Some(hs) => {
            w.n(1);
            w.n(hs.term);
            w.n(hs.vote);
            w.n(hs.commit);
        }
    }
    w.n(rd.read_states().len() as u64);
    for rs in rd.read_states() {
        w.n(rs.index);
        w.bytes(&rs.request_ctx);
    }
    enc_entries(w, rd.entries());
    enc_snap(w, rd.snapshot());
    let persisted = rd.messages().is_empty() && !rd.persisted_messages().is_empty();
    // is_persisted_msg is private: it equals "the node was not leader at ready()".
    // Both accessors are empty when there are no messages, so the caller passes the role.
    let _ = persisted;
}

pub fn site_of(msg: &str) -> u64 {
    // message text -> model site (coq/M/*.v); unknown => 9999
    const T: &[(&str, u64)] = &[
        ("cannot add into a full inflights", 1801),
        ("next <= self.buffer.len()", 1805),
        ("updating progress state in unhandled state", 1951),
        ("assertion failed: self.snapshot.is_none()", 1401),
        ("the last one of unstable.slice has different index", 1402),
        ("unstable.slice is empty", 1403),
        ("unstable.snap has different index", 1404),
        ("unstable.snap is none", 1405),
        ("invalid unstable.slice", 1407),
        ("unstable.slice[", 1408),
        ("unexpected error when getting the last term", 1410),
        ("conflict with committed entry", 1411),
        ("is out of range [last_index", 1412),
        ("is out of range [prev_applied", 1413),
        ("is out of range [committed", 1414),
        ("invalid slice", 1415),
        ("out of bound[", 1416),
        ("is unavailable from storage", 1417),
        ("snapshot's index", 1419),
        ("last committed entry at", 1422),
        ("term should be set when sending", 2001),
        ("term should not be set when sending", 2002),
        ("need non-empty snapshot", 2004),
        ("appending an empty EntryConfChangeV2 should never be dropped", 2007),
        ("invalid transition [leader -> candidate]", 2008),
        ("invalid transition [leader -> pre-candidate]", 2009),
        ("invalid transition [follower -> leader]", 2010),
        ("appending an empty entry should never be dropped", 2012),
        ("error scanning unapplied entries", 1427),
        ("stepped empty MsgProp", 2014),
        ("must be valid", 2015),
        ("unable to restore config", 2016),
        ("invalid restore", 2017),
        ("hs.commit", 2018),
        ("cannot find correspond read state", 2021),
        ("Not a vote message", 2022),
        ("not leader but has new msg after advance", 2108),
        ("config.id must not be zero", 2111),
        ("hard state != prev_hs", 2110),
        ("has snapshot but also has committed entries", 2105),
        ("attempt to add with overflow", 1423),
    ];
    for (k, v) in T {
        if msg.contains(k) {
            return *v;
        }
    }
    if msg.contains("Option::unwrap()") {
        // unwrap sites cannot be told apart by message: look at the source at the panic location
        if let Some(loc) = msg.split(" @ ").last() {
            let mut it = loc.rsplitn(2, ':');
            let line: usize = it.next().and_then(|x| x.parse().ok()).unwrap_or(0);
            let file = it.next().unwrap_or("");
            if let Ok(text) = std::fs::read_to_string(file) {
                let lines: Vec<&str> = text.lines().collect();
                let lo = line.saturating_sub(4);
                let hi = (line + 1).min(lines.len());
                let window = lines[lo..hi].join(" ");
                if file.ends_with("raft.rs") {
                    if window.contains("self_id") || window.contains("get_mut(self.id)") || window.contains("get_mut(id)") {
                        return 2005;
                    }
                    if window.contains("raft_log.term(") {
                        return 2019;
                    }
                    return 2027;
                }
                if file.ends_with("raw_node.rs") && window.contains("records.back()") {
                    return 2106;
                }
            }
        }
    }
    // sites told apart by the source text at the panic location
    let window = src_window(msg, 2);
    let here = src_window(msg, 0);
    for (k, v) in [("self.commit_since_index < e.get_index()", 2101u64), ("record.last_entry, None", 2102), ("record.snapshot, None", 2103),
        ("self.commit_since_index <= rd.snapshot", 2104), ("rd_record.number == rd.number", 2107), ("hard_state.commit == self.prev_hs.commit", 2109)] {
        if msg.contains("raw_node.rs") && here.contains(k) {
            return v;
        }
    }
    if msg.contains("left == right") || msg.contains("left: ") {
        if window.contains("self.term, m.term") {
            return 2023;
        }
        if msg.contains("raft.rs") {
            return 2011; // assert_eq!(last_index, self.raft_log.persisted)
        }
    }
    if msg.contains("index out of bounds") && msg.contains("raft.rs") && window.contains("entries") && window.contains("[0]") {
        return 2020;
    }
    if msg.contains("attempt to subtract with overflow") && window.contains("next_idx - 1") {
        return 2026;
    }
    if std::env::var("VERIF_UNKNOWN_PANICS").is_ok() {
        eprintln!("unknown panic: {} | window: {}", msg, window);
    }
    9999
}

/// The source lines around the location a panic message (`… @ file:line`) names.
fn src_window(msg: &str, before: usize) -> String {
    if let Some(loc) = msg.split(" @ ").last() {
        let mut it = loc.rsplitn(2, ':');
        let line: usize = it.next().and_then(|x| x.parse().ok()).unwrap_or(0);
        let file = it.next().unwrap_or("");
        if let Ok(text) = std::fs::read_to_string(file) {
            let lines: Vec<&str> = text.lines().collect();
            let lo = line.saturating_sub(1 + before).min(lines.len());
            let hi = (line + 1).min(lines.len());
            return lines[lo..hi].join(" ");
        }
    }
    String::new()
}

/// Per-node driver state the calls need besides the RawNode itself.
pub struct Driver {
    pub node: Node,
    /// the Ready most recently returned by ready() and not yet advanced
    pub last_rd: Option<Ready>,
}

pub struct CallOutcome {
    /// `node <pre dump> <draws> <call>` (input line for the model)
    pub case_line: String,
    /// the implementation's answer line
    pub impl_line: String,
    pub panicked: Option<String>,
    pub ret_code: u64,
    pub ready: Option<ReadyView>,
    pub light: Option<LightReady>,
    pub conf_state: Option<ConfState>,
    pub flag: bool,
}

/// What the application needs from a Ready (the Ready itself stays in the driver).
#[derive(Clone, Default)]
pub struct ReadyView {
    pub number: u64,
    pub hs: Option<(u64, u64, u64)>,
    pub entries: Vec<Entry>,
    pub snapshot: Snapshot,
    pub committed_entries: Vec<Entry>,
    pub messages: Vec<Message>,
    pub persisted_messages: Vec<Message>,
    pub must_sync: bool,
    pub read_states: Vec<(u64, Vec<u8>)>,
    /// soft state handed out: (leader_id, role)
    pub ss: Option<(u64, StateRole)>,
}

fn err_code(e: &raft::Error) -> u64 {
    match e {
        raft::Error::ProposalDropped => 1,
        raft::Error::StepLocalMsg => 2,
        raft::Error::StepPeerNotFound => 3,
        raft::Error::RequestSnapshotDropped => 4,
        raft::Error::ConfChangeError(_) => 5,
        _ => 99,
    }
}

/// One `RawNode::new` case: (case line, implementation's answer line).
pub fn new_case(cfg: &raft::Config, store: &SimStorage, draws: &[u64], res: &Result<raft::Result<Node>, String>) -> (String, String) {
    let mut w = W::default();
    w.0.push_str("node");
    w.m(SEC_NEW);
    w.n(cfg.id);
    w.n(cfg.election_tick as u64);
    w.n(cfg.heartbeat_tick as u64);
    w.n(cfg.applied);
    w.n(cfg.max_size_per_msg);
    w.n(cfg.max_inflight_msgs as u64);
    w.b(cfg.check_quorum);
    w.b(cfg.pre_vote);
    w.n(cfg.min_election_tick as u64);
    w.n(cfg.max_election_tick as u64);
    w.n(match cfg.read_only_option {
        raft::ReadOnlyOption::Safe => 0,
        raft::ReadOnlyOption::LeaseBased => 1,
    });
    w.b(cfg.skip_bcast_commit);
    w.b(cfg.batch_append);
    w.z(cfg.priority);
    w.n(cfg.max_uncommitted_size);
    w.n(cfg.max_committed_size_per_ready);
    w.n(cfg.max_apply_unpersisted_log_limit);
    w.b(cfg.disable_proposal_forwarding);
    w.m(SEC_STORE);
    enc_store(&mut w, store);
    w.list(draws);
    let mut a = W::default();
    a.m(SEC_RESULT);
    match res {
        Ok(Ok(node)) => {
            a.n(0);
            enc_rawnode(&mut a, node);
        }
        Ok(Err(e)) => {
            a.n(1);
            a.n(match e {
                raft::Error::ConfigInvalid(_) => 6,
                other => err_code(other),
            });
        }
        Err(msg) => {
            a.n(PANIC_TOK);
            a.n(site_of(msg));
        }
    }
    (w.0, a.0)
}

impl Driver {
    /// Executes one API call on the real node; returns the case line, the
    /// implementation's answer and the values the simulated application uses.
    pub fn exec(&mut self, call: &Call) -> CallOutcome {
        let mut pre = W::default();
        pre.0.push_str("node");
        enc_rawnode(&mut pre, &self.node);
        let was_leader = self.node.raft.state == StateRole::Leader;
        let _ = raft::verif_raft::take_draws();
        let mut cw = W::default(); // call encoding
        let mut ret = W::default(); // return values
        let mut out = CallOutcome {
            case_line: String::new(),
            impl_line: String::new(),
            panicked: None,
            ret_code: 0,
            ready: None,
            light: None,
            conf_state: None,
            flag: false,
        };
        let node = &mut self.node;
        let last_rd = &mut self.last_rd;
        let res: Result<(), String> = match call {
            Call::Tick => {
                cw.n(0);
                catch(|| node.tick()).map(|b| {
                    ret.b(b);
                    out.flag = b
                })
            }
            Call::Step(m) => {
                cw.n(1);
                enc_msg(&mut cw, m);
                let mm = m.clone();
                catch(|| node.step(mm)).map(|r| {
                    let c = r.as_ref().err().map_or(0, err_code);
                    ret.n(c);
                    out.ret_code = c
                })
            }
            Call::Campaign => {
                cw.n(2);
                catch(|| node.campaign()).map(|r| {
                    let c = r.as_ref().err().map_or(0, err_code);
                    ret.n(c);
                    out.ret_code = c
                })
            }
            Call::Propose(ctx, data) => {
                cw.n(3);
                cw.bytes(ctx);
                cw.bytes(data);
                let (c2, d2) = (ctx.clone(), data.clone());
                catch(|| node.propose(c2, d2)).map(|r| {
                    let c = r.as_ref().err().map_or(0, err_code);
                    ret.n(c);
                    out.ret_code = c
                })
            }
            Call::ProposeConfChange(ctx, kind) => {
                cw.n(4);
                cw.bytes(ctx);
                let (ty, data) = match kind {
                    CcKind::V1(cc) => (1u64, cc.write_to_bytes().unwrap()),
                    CcKind::V2(cc) => (2u64, cc.write_to_bytes().unwrap()),
                    CcKind::Raw(t, d) => (*t, d.clone()),
                };
                cw.bytes(&data);
                cw.n(ty);
                let mut e = Entry::default();
                e.set_entry_type(if ty == 1 { EntryType::EntryConfChange } else { EntryType::EntryConfChangeV2 });
                e.data = data.clone().into();
                cw.n(ccinfo_of(&e));
                let c2 = ctx.clone();
                let k2 = kind.clone();
                catch(|| match k2 {
                    CcKind::V1(cc) => node.propose_conf_change(c2, cc),
                    CcKind::V2(cc) => node.propose_conf_change(c2, cc),
                    CcKind::Raw(t, d) => {
                        // same message RawNode::propose_conf_change builds, with arbitrary data
                        let mut m = Message::default();
                        m.set_msg_type(MessageType::MsgPropose);
                        let mut e = Entry::default();
                        e.set_entry_type(if t == 1 { EntryType::EntryConfChange } else { EntryType::EntryConfChangeV2 });
                        e.data = d.into();
                        e.context = c2.into();
                        m.set_entries(vec![e].into());
                        node.raft.step(m)
                    }
                })
                .map(|r| {
                    let c = r.as_ref().err().map_or(0, err_code);
                    ret.n(c);
                    out.ret_code = c
                })
            }
            Call::ApplyConfChange(cc) => {
                cw.n(5);
                enc_ccv2(&mut cw, cc);
                catch(|| node.apply_conf_change(cc)).map(|r| match r {
                    Ok(cs) => {
                        ret.n(1);
                        enc_cs(&mut ret, &cs);
                        out.conf_state = Some(cs)
                    }
                    Err(_) => {
                        ret.n(0);
                        out.ret_code = 5
                    }
                })
            }
            Call::Ready => {
                cw.n(6);
                let pre_hs = node.verif_private().prev_hs;
                let pre_tv_changed = node.raft.term != pre_hs.0 || node.raft.vote != pre_hs.1;
                let pre_outstanding = {
                    let p = node.verif_private();
                    // records are drained when the node became leader since the last Ready
                    let drained = p.prev_role != StateRole::Leader && node.raft.state == StateRole::Leader;
                    !drained && p.records.iter().any(|r| r.3)
                };
                let persisted_flag_default = !was_leader || pre_tv_changed || pre_outstanding;
                catch(|| node.ready()).map(|rd| {
                    let persisted_flag = if !rd.messages().is_empty() {
                        false
                    } else if !rd.persisted_messages().is_empty() {
                        true
                    } else {
                        persisted_flag_default
                    };
                    enc_ready(&mut ret, &rd);
                    // is_persisted_msg is private: messages() is empty exactly when it is set, unless there are no
                    // messages at all, in which case recompute it the way ready() does (hook view of the records)
                    ret.b(persisted_flag);
                    ret.b(rd.must_sync());
                    // light part
                    ret.n(0); // commit_index of the embedded LightReady is always None
                    enc_entries(&mut ret, rd.committed_entries());
                    let msgs: Vec<Message> =
                        rd.messages().iter().chain(rd.persisted_messages().iter()).cloned().collect();
                    enc_msgs_sorted(&mut ret, &msgs);
                    out.ready = Some(ReadyView {
                        number: rd.number(),
                        hs: rd.hs().map(|h| (h.term, h.vote, h.commit)),
                        entries: rd.entries().clone(),
                        snapshot: rd.snapshot().clone(),
                        committed_entries: rd.committed_entries().clone(),
                        messages: rd.messages().to_vec(),
                        persisted_messages: rd.persisted_messages().to_vec(),
                        must_sync: rd.must_sync(),
                        read_states: rd.read_states().iter().map(|r| (r.index, r.request_ctx.clone())).collect(),
                        ss: rd.ss().map(|s| (s.leader_id, s.raft_state)),
                    });
                    *last_rd = Some(rd);
                })
            }
            Call::HasReady => {
                cw.n(7);
                catch(|| node.has_ready()).map(|b| {
                    ret.b(b);
                    out.flag = b
                })
            }
            Call::AdvanceAppend | Call::Advance => {
                cw.n(if matches!(call, Call::AdvanceAppend) { 8 } else { 9 });
                let rd = last_rd.take().expect("advance without ready");
                enc_rd_stub(&mut cw, &rd);
                let adv = matches!(call, Call::Advance);
                catch(|| if adv { node.advance(rd) } else { node.advance_append(rd) }).map(|l| {
                    enc_light(&mut ret, &l);
                    out.light = Some(l)
                })
            }
            Call::AdvanceAppendAsync => {
                cw.n(10);
                let rd = last_rd.take().expect("advance without ready");
                enc_rd_stub(&mut cw, &rd);
                catch(|| node.advance_append_async(rd))
            }
            Call::OnPersistReady(k) => {
                cw.n(11);
                cw.n(*k);
                catch(|| node.on_persist_ready(*k))
            }
            Call::AdvanceApplyTo(k) => {
                cw.n(12);
                cw.n(*k);
                catch(|| node.advance_apply_to(*k))
            }
            Call::AdvanceApply => {
                cw.n(13);
                catch(|| node.advance_apply())
            }
            Call::ReportUnreachable(id) => {
                cw.n(14);
                cw.n(*id);
                catch(|| node.report_unreachable(*id))
            }
            Call::ReportSnapshot(id, fail) => {
                cw.n(15);
                cw.n(*id);
                cw.b(*fail);
                let st = if *fail { SnapshotStatus::Failure } else { SnapshotStatus::Finish };
                catch(|| node.report_snapshot(*id, st))
            }
            Call::RequestSnapshot => {
                cw.n(16);
                catch(|| node.request_snapshot()).map(|r| {
                    let c = r.as_ref().err().map_or(0, err_code);
                    ret.n(c);
                    out.ret_code = c
                })
            }
            Call::TransferLeader(id) => {
                cw.n(17);
                cw.n(*id);
                catch(|| node.transfer_leader(*id))
            }
            Call::ReadIndex(ctx) => {
                cw.n(18);
                cw.bytes(ctx);
                let c2 = ctx.clone();
                catch(|| node.read_index(c2))
            }
            Call::Ping => {
                cw.n(19);
                catch(|| node.ping())
            }
            Call::SetPriority(p) => {
                cw.n(20);
                cw.z(*p);
                catch(|| node.set_priority(*p))
            }
            Call::SetApplyLimit(k) => {
                cw.n(21);
                cw.n(*k);
                catch(|| node.raft.set_max_apply_unpersisted_log_limit(*k))
            }
            Call::AdjustInflight(t, c) => {
                cw.n(22);
                cw.n(*t);
                cw.n(*c);
                catch(|| node.raft.adjust_max_inflight_msgs(*t, *c as usize))
            }
            Call::SetCheckQuorum(b) => {
                cw.n(23);
                cw.b(*b);
                catch(|| node.raft.set_check_quorum(*b))
            }
            Call::EnableGroupCommit(b) => {
                cw.n(24);
                cw.b(*b);
                catch(|| node.raft.enable_group_commit(*b))
            }
            Call::AssignCommitGroups(ids) => {
                cw.n(25);
                cw.n(ids.len() as u64);
                for (a, b) in ids {
                    cw.n(*a);
                    cw.n(*b);
                }
                catch(|| node.raft.assign_commit_groups(ids))
            }
            Call::SkipBcastCommit(b) => {
                cw.n(26);
                cw.b(*b);
                catch(|| node.skip_bcast_commit(*b))
            }
            Call::SetBatchAppend(b) => {
                cw.n(27);
                cw.b(*b);
                catch(|| node.set_batch_append(*b))
            }
            Call::MaybeFreeInflight => {
                cw.n(28);
                catch(|| node.raft.maybe_free_inflight_buffers())
            }
            Call::CommitTo(k) => {
                cw.n(29);
                cw.n(*k);
                catch(|| node.raft.raft_log.commit_to(*k))
            }
        };
        let draws: Vec<u64> = raft::verif_raft::take_draws().into_iter().map(|x| x as u64).collect();
        pre.list(&draws);
        pre.0.push(' ');
        pre.0.push_str(&cw.0);
        out.case_line = pre.0;
        let mut ans = W::default();
        ans.m(SEC_RESULT);
        match res {
            Ok(()) => {
                ans.n(0);
                if !ret.0.is_empty() {
                    ans.0.push(' ');
                    ans.0.push_str(&ret.0);
                }
                enc_rawnode(&mut ans, &self.node);
            }
            Err(msg) => {
                ans.n(PANIC_TOK);
                ans.n(site_of(&msg));
                out.panicked = Some(msg);
            }
        }
        out.impl_line = ans.0;
        out
    }
}
