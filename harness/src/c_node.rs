//! Node-level pointwise correspondence: simulated cluster runs; every RawNode
//! API call is one case (pre-state dump + call) with the implementation's answer.
use crate::sim::*;
use crate::util::*;

pub fn main(args: &[String]) {
    let dir = arg(args, "--out", "/verif/build/run");
    let nsh: usize = arg(args, "--shards", "16").parse().unwrap();
    let seed: u64 = arg(args, "--seed", "1").parse().unwrap();
    let runs: usize = arg(args, "--runs", "20").parse().unwrap();
    let steps: usize = arg(args, "--steps", "400").parse().unwrap();
    let prefix = arg(args, "--prefix", "node-sim");
    std::fs::create_dir_all(&dir).unwrap();
    let shards: Vec<Shard> = (0..nsh).map(|k| Shard::create(&dir, &prefix, k).with_meta(&dir, &prefix, k)).collect();
    let mut pel: Vec<Shard> = (0..nsh).map(|k| Shard::create(&dir, "pel-sim", k)).collect();
    let mut plog: Vec<Shard> = (0..nsh).map(|k| Shard::create(&dir, "plog-sim", k)).collect();
    let mut pread: Vec<Shard> = (0..nsh).map(|k| Shard::create(&dir, "pread-sim", k)).collect();
    let mut rec = Recorder { shards, rr: 0, calls: 0, panics: Default::default(), hist: Default::default(), enabled: true };
    // --only K: just run number K of the campaign (same seed, profile and flags), with its call trace printed
    let only: Option<usize> = arg(args, "--only", "").parse().ok();
    let range = match only {
        Some(k) => k..k + 1,
        None => 0..runs,
    };
    let mut trace_findings: u64 = 0;
    for k in range {
        let mut sim = Sim::new(seed.wrapping_mul(1_000_003).wrapping_add(k as u64), rec);
        sim.keep_trace = arg(args, "--trace", "0") != "0";
        sim.trace_tail = arg(args, "--trace", "0").parse().unwrap_or(60);
        // every fourth run is adversarial: hand-made peer messages, pointwise tie only (no P traces)
        sim.adversarial = k % 4 == 3;
        // half of the runs never propose a membership change: their P-level traces cover the whole run
        sim.fixed_conf = k % 4 < 2;
        // run profiles: rare operations of one area at a higher rate
        sim.focus = ((k / 4) % 5) as u8;
        if only.is_some() {
            sim.keep_trace = true;
            sim.quiet = true;
        }
        sim.run(steps);
        if only.is_some() {
            for l in &sim.trace {
                println!("TRACE {}", l);
            }
        }
        if !sim.adversarial {
            trace_findings += sim.pt.released_by_duplicate;
            let (c, i) = sim.pt.lines();
            pel[k % nsh].put("pelection", &c, &i);
            let (c2, i2) = sim.pt.llines();
            plog[k % nsh].put("plog", &c2, &i2);
            if sim.pt.reads {
                let (c3, i3) = sim.pt.rlines();
                pread[k % nsh].put("pread", &c3, &i3);
            }
        }
        rec = sim.rec;
    }
    let mut total = 0;
    let hist = rec.hist.clone();
    let panics = rec.panics.clone();
    for s in rec.shards {
        total += s.finish();
    }
    for s in pel {
        s.finish();
    }
    for s in plog {
        s.finish();
    }
    for s in pread {
        s.finish();
    }
    println!("cases={}", total);
    println!("finding stale-read-by-duplicates {}", trace_findings);
    for (k, v) in hist {
        println!("hist {} {}", k, v);
    }
    for (k, v) in panics {
        println!("panic {} {}", v, k);
    }
}
