#!/bin/sh
# Builds the whole framework offline from files on disk: Coq development (full .vo),
# extracted OCaml model + driver, Rust harness against /repo's working tree.
set -e
cd "$(dirname "$0")"
export CARGO_NET_OFFLINE=true
mkdir -p build
( cd coq && coq_makefile -f _CoqProject -o Makefile >/dev/null && timeout 3000 make -j16 )
cp coq/model.ml coq/model.mli ocaml/
( cd ocaml && timeout 900 dune build ./driver.exe )
[ -f harness/Cargo.lock ] || cp /repo/Cargo.lock harness/Cargo.lock
( cd harness && CARGO_TARGET_DIR="$(pwd)/../build/target" RUSTFLAGS="--cfg tikv_raft_rs_verif" timeout 1800 cargo build --offline )
echo setup-ok
