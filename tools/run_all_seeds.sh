#!/bin/sh
# usage: tools/run_all_seeds.sh [seed dirs…]   applies every seeded change in turn to /repo, runs the quick
# check of the property it was written against, restores /repo; prints one line per seed.
cd /verif || exit 2
[ $# -eq 0 ] && set -- seeded/C*/
for d in "$@"; do
  d=$(basename "$d"); id=${d%%-*}
  if ! git -C /repo diff --quiet; then echo "/repo is dirty"; exit 2; fi
  git -C /repo apply "/verif/seeded/$d/patch.diff" || { echo "$d patch does not apply"; continue; }
  ./check "$id" > "build/seedrun-$d.log" 2>&1; rc=$?
  v=$(grep '^VIOLATION' "build/seedrun-$d.log" | head -1)
  git -C /repo checkout -- .
  echo "$d check=$id exit=$rc ${v:-NO-VIOLATION}"
done
( cd /verif/harness && CARGO_NET_OFFLINE=true CARGO_TARGET_DIR=/verif/build/target RUSTFLAGS="--cfg tikv_raft_rs_verif" cargo build --offline >/dev/null 2>&1 )
