#!/usr/bin/env python3
"""Regenerates /verif/MANIFEST.json from vlib/props.py (claimed = properties with a spec)."""
import json, os, sys
ROOT = os.path.dirname(os.path.dirname(os.path.abspath(__file__)))
sys.path.insert(0, ROOT)
from vlib import props

ids = ["C%02d" % i for i in range(1, 21)]
hooks_file = os.path.join(ROOT, "hooks_commits.txt")
commits = [l.split()[0] for l in open(hooks_file) if l.strip()] if os.path.exists(hooks_file) else []
checks = []
for pid in ids:
    sp = props.SPECS.get(pid)
    if not sp or pid in getattr(props, 'DISABLED', set()):
        continue
    m = sp["manifest"]
    checks.append({
        "property_id": pid,
        "quick_cmd": "./check %s --tier quick" % pid,
        "thorough_cmd": "./check %s --tier thorough" % pid,
        "evidence_file": "/verif/evidence/%s.json" % pid,
        "replay_cmd_template": "./check %s --replay {path}" % pid,
        "engine": "coq-proof+differential",
        "technique": m["technique"],
        "level_claimed": {"category": m.get("category", "proof"), "text": m["text"], "design_ref": m["design_ref"]},
        "level_note": m["note"],
    })
claimed = [c["property_id"] for c in checks]
man = {
    "version": 1,
    "setup_cmd": "./setup.sh",
    "hooks": {
        "guard": "tikv_raft_rs_verif",
        "enable": "RUSTFLAGS=\"--cfg tikv_raft_rs_verif\" (set by ./check and ./setup.sh when they build /verif/harness against /repo)",
        "baseline_off_cmd": "cd /repo && cargo nextest run --workspace --no-fail-fast --tool-config-file pb:/w/lib/nextest.toml --profile pb --test-threads 8 --offline || cargo test --workspace --no-fail-fast --offline",
        "source_commits": commits,
        "add_only": True,
    },
    "engines": [{
        "name": "coq-proof+differential", "path": "/verif/check", "serves_properties": claimed,
        "kind_free_text": "Coq 8.16 theorems about hand-written executable Gallina models (coq/M, coq/P, pinned in coq/Props) tied to /repo by a correspondence check that every check re-runs: the Rust harness drives the real types/nodes, the extracted OCaml model and an in-Coq vm_compute sample must reproduce the implementation's answers; on a broken proof or correspondence a Rust-side monitor searches the implementation for a concrete failing input",
    }],
    "checks": checks,
    "not_applicable": [{"property_id": i, "reason": props.NOT_YET.get(i, "not claimed in this revision: the model/proofs for this property are still being built (DESIGN.md section 10); nothing is claimed until its check runs")} for i in ids if i not in claimed],
    "notes": "See DESIGN.md. Checks rebuild the harness against /repo's working tree; evidence is rewritten by every run.",
}
json.dump(man, open(os.path.join(ROOT, "MANIFEST.json"), "w"), indent=1)
print("claimed:", claimed)
