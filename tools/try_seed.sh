#!/bin/sh
# usage: tools/try_seed.sh <patch.diff> <property id>...   applies the patch to /repo, runs the
# quick checks, always restores /repo afterwards.
patch="$1"; shift
cd /repo || exit 2
if ! git diff --quiet; then echo "/repo is dirty"; exit 2; fi
git apply "$patch" || { echo "patch does not apply"; exit 2; }
cd /verif
for id in "$@"; do
  ./check "$id" > "build/seed-$id.log" 2>&1
  echo "$id exit=$? $(grep -c '^VIOLATION' build/seed-$id.log) $(grep '^VIOLATION' build/seed-$id.log | head -1)"
done
git -C /repo checkout -- .
# rebuild the harness against the restored tree (otherwise a stale, patched binary stays in build/)
( cd /verif/harness && CARGO_NET_OFFLINE=true CARGO_TARGET_DIR=/verif/build/target RUSTFLAGS="--cfg tikv_raft_rs_verif" cargo build --offline >/dev/null 2>&1 )
git -C /repo status --short | head -3
