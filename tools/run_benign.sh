#!/bin/sh
# usage: tools/run_benign.sh [k…]   applies each behaviour-preserving patch seeded/benign/<k>.diff to /repo,
# runs the quick check of every property, restores /repo; a VIOLATION here is a false alarm.
cd /verif || exit 2
[ $# -eq 0 ] && set -- 1 2 3 4 5 6 7 8
for k in "$@"; do
  if ! git -C /repo diff --quiet; then echo "/repo is dirty"; exit 2; fi
  git -C /repo apply "/verif/seeded/benign/$k.diff" || { echo "$k patch does not apply"; continue; }
  for id in C01 C02 C03 C04 C05 C06 C07 C08 C09 C10 C11 C12 C13 C14 C15 C16 C17 C18 C19 C20; do
    ./check "$id" > "build/benignrun-$k-$id.log" 2>&1; rc=$?
    v=$(grep '^VIOLATION' "build/benignrun-$k-$id.log" | head -1)
    echo "benign-$k check=$id exit=$rc ${v:-quiet}"
  done
  git -C /repo checkout -- .
done
( cd /verif/harness && CARGO_NET_OFFLINE=true CARGO_TARGET_DIR=/verif/build/target RUSTFLAGS="--cfg tikv_raft_rs_verif" cargo build --offline >/dev/null 2>&1 )
