#!/usr/bin/env python3
"""Structural tie for C20: inventory of the syntactic panic sites of the modelled sources
(fatal!/panic!/assert*!/unreachable!/unwrap/expect), keyed by file, enclosing fn, kind and
ordinal (not by line), compared with the committed inventory site_inventory.json.
  site_inventory.py --write   regenerate the committed inventory (keeps existing classifications)
  site_inventory.py           compare (multisets of file/fn/kind/text); prints ADDED/REMOVED lines; exit 1 iff a
                              site was added or edited (a removed site alone is reported, not failed)"""
import json, os, re, sys
REPO = "/repo/src"
FILES = ["raft.rs", "raw_node.rs", "raft_log.rs", "log_unstable.rs", "storage.rs", "read_only.rs", "util.rs",
         "config.rs", "tracker.rs", "tracker/inflights.rs", "tracker/progress.rs", "tracker/state.rs",
         "quorum.rs", "quorum/majority.rs", "quorum/joint.rs", "confchange.rs", "confchange/changer.rs",
         "confchange/restore.rs", "confchange/datadriven_test.rs"]
KINDS = [("fatal", r"\bfatal!\s*\("), ("panic", r"\bpanic!\s*\("), ("assert", r"\bassert!\s*\("),
         ("assert_eq", r"\bassert_eq!\s*\("), ("assert_ne", r"\bassert_ne!\s*\("),
         ("unreachable", r"\bunreachable!\s*\("), ("unimplemented", r"\bunimplemented!\s*\("),
         ("unwrap", r"\.unwrap\(\)"), ("expect", r"\.expect\(")]
HERE = os.path.dirname(os.path.abspath(__file__))
INV = os.path.join(os.path.dirname(HERE), "site_inventory.json")


def strip_tests(text):
    # drop `#[cfg(test)] mod … { … }` (always at the end of these files) and verif hook modules
    m = re.search(r"#\[cfg\(test\)\]\s*\n\s*(pub\s+)?mod\s+\w+\s*\{", text)
    if m:
        text = text[:m.start()]
    return text


def scan():
    out = {}
    for f in FILES:
        p = os.path.join(REPO, f)
        if not os.path.exists(p) or f.endswith("_test.rs"):
            continue
        text = strip_tests(open(p).read())
        fn = "<top>"
        skip_hook = 0
        counts = {}
        for line in text.splitlines():
            s = line.strip()
            if s.startswith("//"):
                continue
            if "cfg(tikv_raft_rs_verif)" in s:
                skip_hook = 1  # the next item (fn or mod) is a verification hook
            m = re.search(r"\bfn\s+(\w+)", s)
            if m and not s.startswith("//"):
                fn = m.group(1)
                if skip_hook:
                    fn = "<hook>" + fn
                    skip_hook = 0
            if fn.startswith("<hook>") or fn.startswith("verif_"):
                continue
            code = s.split("//")[0]
            for kind, rx in KINDS:
                for mm in re.finditer(rx, code):
                    k = (f, fn, kind)
                    counts[k] = counts.get(k, 0) + 1
                    key = "%s::%s::%s#%d" % (f, fn, kind, counts[k])
                    # macros: the text from the macro name on (the same macro moved behind a match arm or
                    # an `else` is the same site); unwrap/expect: the whole line (the unwrapped expression)
                    txt = s if kind in ("unwrap", "expect") else code[mm.start():]
                    out[key] = {"snippet": re.sub(r"\s+", " ", txt).strip()[:160]}
    return out


def main():
    cur = scan()
    old = json.load(open(INV)) if os.path.exists(INV) else {}
    if "--write" in sys.argv:
        for k, v in cur.items():
            if k in old and "model" in old[k]:
                v["model"] = old[k]["model"]
        json.dump(cur, open(INV, "w"), indent=1, sort_keys=True)
        print("wrote %d sites" % len(cur))
        return 0
    # compare as multisets of (file, fn, kind, text): robust against a shifted ordinal.  A site that
    # is only REMOVED cannot break "no panic" (the model keeps a site the code no longer has, and
    # the pointwise tie reports it if the model panics where the code does not): it is printed
    # and does not fail the comparison.  A new or edited site (ADDED) is unmodelled until it
    # is looked at: that fails.
    from collections import Counter
    def ms(inv):
        c = Counter()
        for k, v in inv.items():
            f, fn, kind = k.rsplit("#", 1)[0].split("::")
            c[(f, fn, kind, v["snippet"])] += 1
        return c
    a, b = ms(cur), ms(old)
    added, removed = a - b, b - a
    for (f, fn, kind, sn), n in sorted(added.items()):
        for _ in range(n):
            print("ADDED %s::%s::%s | %s" % (f, fn, kind, sn))
    for (f, fn, kind, sn), n in sorted(removed.items()):
        for _ in range(n):
            print("REMOVED %s::%s::%s | %s" % (f, fn, kind, sn))
    na, nr = sum(added.values()), sum(removed.values())
    print("sites=%d added=%d removed=%d" % (len(cur), na, nr))
    return 1 if na else 0


if __name__ == "__main__":
    sys.exit(main())
