#!/usr/bin/env python3
"""Structural tie (escalation): fingerprints of every fn body of the modelled sources.
  fn_fingerprints.py --write   regenerate fn_fingerprints.json
  fn_fingerprints.py           print the names of functions whose body differs from the committed
                               fingerprint (or that are new / gone), one per line; exit 0 always.
A changed function is not an alarm (a harmless rewrite changes the text too): the node-level checks
use the list to run MORE simulated executions (the pointwise tie reaches a changed function's rare
paths with a probability that grows with the number of calls)."""
import hashlib, json, os, re, sys
REPO = "/repo/src"
HERE = os.path.dirname(os.path.abspath(__file__))
OUT = os.path.join(os.path.dirname(HERE), "fn_fingerprints.json")
sys.path.insert(0, HERE)
from site_inventory import FILES, strip_tests


def strip_comments(t):
    t = re.sub(r"//[^\n]*", "", t)
    t = re.sub(r"/\*.*?\*/", "", t, flags=re.S)
    return t


def fns(text):
    """yields (name, body text) for every `fn name ... { ... }` (brace matched)."""
    for m in re.finditer(r"\bfn\s+(\w+)", text):
        i = text.find("{", m.end())
        semi = text.find(";", m.end())
        if i < 0 or (0 <= semi < i):
            continue  # declaration without body
        depth, j = 0, i
        while j < len(text):
            if text[j] == "{":
                depth += 1
            elif text[j] == "}":
                depth -= 1
                if depth == 0:
                    break
            j += 1
        yield m.group(1), text[m.start():j + 1]


def scan():
    out = {}
    for f in FILES:
        p = os.path.join(REPO, f)
        if not os.path.exists(p) or f.endswith("_test.rs"):
            continue
        text = strip_comments(strip_tests(open(p).read()))
        seen = {}
        for name, body in fns(text):
            k = seen.get(name, 0)
            seen[name] = k + 1
            key = "%s::%s%s" % (f, name, "#%d" % k if k else "")
            out[key] = hashlib.sha1(re.sub(r"\s+", " ", body).encode()).hexdigest()[:16]
    return out


def changed():
    cur = scan()
    old = json.load(open(OUT)) if os.path.exists(OUT) else {}
    return sorted(k for k in set(cur) | set(old) if cur.get(k) != old.get(k))


if __name__ == "__main__":
    if "--write" in sys.argv:
        d = scan()
        json.dump(d, open(OUT, "w"), indent=0, sort_keys=True)
        print("wrote %d functions" % len(d))
    else:
        for k in changed():
            print(k)
