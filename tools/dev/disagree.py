import glob,collections,sys
k=collections.Counter(); ex={}
for c in sorted(glob.glob('/tmp/nn/node-sim.cases.*.txt')):
    i=c.replace('cases','impl'); m=c.replace('cases','model'); e=c.replace('cases','meta')
    for ln,(lc,li,lm,le) in enumerate(zip(open(c),open(i),open(m),open(e)),1):
        if li!=lm:
            a=li.split(); b=lm.split()
            key=(' '.join(le.split()[:3]), ' '.join(a[1:3]) if a[1]=='999999' else 'ok', ' '.join(b[1:3]) if b[1] in('999999',) or b[0]=='888888' else 'ok')
            k[key]+=1; ex.setdefault(key,(c,ln))
for key,v in k.most_common(): print(v,key,ex[key])
