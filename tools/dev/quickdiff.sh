#!/bin/bash
# usage: quickdiff.sh <runs> <steps> <seed>: simulate, run the extracted model, compare
rm -rf /tmp/nn; /verif/build/target/debug/vharness node --runs $1 --steps $2 --seed $3 --out /tmp/nn | grep -E "^cases|^panic"
D=/verif/ocaml/_build/default/driver.exe
for p in node-sim pel-sim plog-sim; do for f in /tmp/nn/$p.cases.*.txt; do $D < $f > ${f/cases/model} & done; done; wait
python3 - <<'PY'
import glob,collections
tot=bad=0; k=collections.Counter()
for c in sorted(glob.glob('/tmp/nn/node-sim.cases.*.txt')):
    i=c.replace('cases','impl'); m=c.replace('cases','model'); e=c.replace('cases','meta')
    for ln,(lc,li,lm,le) in enumerate(zip(open(c),open(i),open(m),open(e)),1):
        tot+=1
        if le.startswith('new'): k[le.split()[0]+' '+le.split()[2]]+=1
        if li!=lm:
            bad+=1
            if bad<4: print(c,ln,le.strip()); print(' I',li[:300]); print(' M',lm[:300])
print("calls",tot,dict(k),"disagreements",bad)
for p in ('pel-sim','plog-sim'):
    n=r=0
    for m in glob.glob('/tmp/nn/%s.model.*.txt'%p):
        for l in open(m):
            n+=1
            if not l.startswith('1 '): r+=1; print(p,'reject',l[:100])
    print(p,n,'rejects',r)
PY
