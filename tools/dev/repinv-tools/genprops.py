import re,sys
src=open('/work/repinv/coq/M/RaftProofsRepInv.v').read()
def extract(name):
    m=re.search(r'^\s*(?:Lemma|Theorem|Example|Corollary)\s+'+re.escape(name)+r'\b(.*?)\n\s*Proof\.', src, re.S|re.M)
    if not m: raise Exception('not found '+name)
    body=m.group(1)
    # split binders and statement at first ' :' at depth 0
    depth=0; i=0
    while i < len(body):
        c=body[i]
        if c in '([{': depth+=1
        elif c in ')]}': depth-=1
        elif c==':' and depth==0 and body[i+1]!='=' :
            break
        i+=1
    binders=body[:i].strip()
    stmt=body[i+1:].strip()
    assert stmt.endswith('.')
    stmt=stmt[:-1]
    return binders, stmt
def emit(prefix,name,comment=None,newname=None):
    b,s=extract(name)
    out=''
    if comment: out+='(* '+comment+' *)\n'
    nn=prefix+(newname or name)
    if b:
        out+='Theorem %s :\n  forall %s,\n  %s.\n'%(nn,b,s)
    else:
        out+='Theorem %s :\n  %s.\n'%(nn,s)
    q=name
    out+='Proof. exact %s. Qed.\nPrint Assumptions %s.\n\n'%(q,nn)
    return out
if __name__=='__main__':
    print(emit(sys.argv[1],sys.argv[2]))
