

(* ====================================================================== *)
(* ==== node level ====================================================== *)
(* ====================================================================== *)
(* The representation invariant of the RaftLog lifted to M/Raft.v and M/RawNode.v
   (proofs in M/RaftProofsRepInv.v).
     LI rw r   := RepInv rw (r_log r)          NLI rw n := LI rw (rn_raft n)
     LogOK r   := exists rw, LI rw r           NLogOK n := LogOK (rn_raft n)
   PROVED
   * Every function of M/Raft.v that changes r_log preserves LI rw for BOTH values of
     the window flag (so applied <= committed, once true, stays true), and so does every
     RawNode entry point; functions that leave r_log alone have frame statements
     (.._log).  Raft::new / RawNode::new establish LI true (LI false when
     Config.applied = 0) from the MemStorage invariant of the initial store.
   * The preconditions are explicit and each is shown necessary by a witness state that
     breaks RepInv without it (C14_node_*_refuted, C14_node_room_needed):
       room k r      last_index + k < u64::MAX when k entries may be appended (the model,
                     like the Rust, numbers new entries without an overflow check);
       msg_wf li m   MsgAppend: entries numbered consecutively after m_index and
                     m_index + len < u64::MAX (a predicate of the message alone: the other
                     two preconditions of maybe_append_ok - non-zero terms, anchor inside
                     the log or of non-zero term - are NOT needed in Ok-form);
                     MsgSnapshot: index < u64::MAX; election-type messages and MsgPropose: room;
       commit_pre n  commit_ready (advance / advance_append / advance_append_async): the
                     snapshot / entries named by the last record are in the storage;
       persist_pre   on_persist_ready: an acknowledged snapshot index is below the
                     storage's next index (or already persisted).
   * The application's storage writes (C07's OSetStore): append the unstable entries,
     apply the pending snapshot, append the entries that follow an applied snapshot,
     compact at or below applied, change hard/conf state preserve LI
     (C14_node_store_write_pres); if a Ready is written as told (write_ready) the
     preconditions of the advance calls hold (C14_node_ready_write_pres), the write
     cannot panic (C14_node_write_ready_total) and the synchronous cycle
     ready / write / advance_append can be repeated (C14_node_sync_cycle_records).
   * Traces over C07's op alphabet from RawNode::new: LI, committed <= last_index,
     persisted <= storage last index at every point; applied <= committed at every
     point when Config.applied = 0, and from the first point on where it holds
     otherwise (C14_node_trace_from_new, C14_node_trace_from_new_window).
   NOT PROVED
   * persist_pre is discharged from "the Ready was written as told" only when no earlier
     record is outstanding (the synchronous cycle), and it is automatic while no
     outstanding record carries a snapshot (C14_node_persist_pre_no_snapshot); with several
     outstanding records one of which carries a snapshot (advance_append_async) it stays a
     hypothesis of the on_persist_ready / advance call.
   * store_write covers exactly the current unstable entries / pending snapshot; a write
     of a proper prefix of the unstable entries (a Ready persisted after further appends)
     is not covered (commit_ready panics in that situation anyway: the record's last
     entry is no longer the last unstable entry). *)
From RV Require Import Base.IdSet M.Proto M.Inflights M.Progress M.Quorum M.ConfChange M.Msg M.Raft
  M.RawNode M.RaftProofs M.RaftProofsC15 M.RaftProofsC09 M.RaftProofsC08 M.RaftProofsC13
  M.RaftProofsC07 M.RaftProofsRepInv.
From RecordUpdate Require Import RecordSet.
Import RecordSetNotations.

Theorem C14_node_LI_def :
  forall rw r,
  LI rw r <-> RepInv rw (r_log r).
Proof. exact LI_def. Qed.
Print Assumptions C14_node_LI_def.

Theorem C14_node_NLI_def :
  forall rw n,
  NLI rw n <-> RepInv rw (r_log (rn_raft n)).
Proof. exact NLI_def. Qed.
Print Assumptions C14_node_NLI_def.

Theorem C14_node_NLogOK_def :
  forall n,
  NLogOK n <-> exists rw, RepInv rw (r_log (rn_raft n)).
Proof. exact NLogOK_def. Qed.
Print Assumptions C14_node_NLogOK_def.

Theorem C14_node_LogOK_iff :
  forall r,
  LogOK r <-> LI true r.
Proof. exact LogOK_iff. Qed.
Print Assumptions C14_node_LogOK_iff.

Theorem C14_node_room_def :
  forall k r,
  room k r <-> last_index (r_log r) + k < u64_max.
Proof. exact room_def. Qed.
Print Assumptions C14_node_room_def.

Theorem C14_node_nroom_def :
  forall k n,
  nroom k n <-> last_index (r_log (rn_raft n)) + k < u64_max.
Proof. exact nroom_def. Qed.
Print Assumptions C14_node_nroom_def.

Theorem C14_node_nlog_def :
  forall n,
  nlog n = r_log (rn_raft n).
Proof. exact nlog_def. Qed.
Print Assumptions C14_node_nlog_def.

Theorem C14_node_nlast_def :
  forall n,
  nlast n = last_index (r_log (rn_raft n)).
Proof. exact nlast_def. Qed.
Print Assumptions C14_node_nlast_def.

Theorem C14_node_append_wf_def :
  forall m,
  append_wf m <->
  contiguous_from (m_index m + 1) (m_entries m)
  /\ m_index m + N.of_nat (length (m_entries m)) < u64_max.
Proof. exact append_wf_def. Qed.
Print Assumptions C14_node_append_wf_def.

Theorem C14_node_msg_wf_def :
  forall li m,
  msg_wf li m <->
  (((m_type m =? MsgHup) || (m_type m =? MsgTimeoutNow) || (m_type m =? MsgRequestVoteResponse)
    || (m_type m =? MsgRequestPreVoteResponse)) = true -> li + 1 < u64_max)
  /\ (m_type m = MsgPropose -> li + N.of_nat (length (m_entries m)) < u64_max)
  /\ (m_type m = MsgAppend -> append_wf m)
  /\ (m_type m = MsgSnapshot -> s_index (m_snapshot m) < u64_max).
Proof. exact msg_wf_def. Qed.
Print Assumptions C14_node_msg_wf_def.

Theorem C14_node_snap_written_def :
  forall l,
  snap_written l <->
  match u_snapshot (unst l) with
  | Some s => snap_index (store l) = s_index s /\ snap_term (store l) = s_term s
              /\ first_of (store l) = s_index s + 1
              /\ (u_entries (unst l) = [] -> entries (store l) = [])
  | None => True
  end.
Proof. exact snap_written_def. Qed.
Print Assumptions C14_node_snap_written_def.

Theorem C14_node_ents_written_def :
  forall l,
  ents_written l <->
  skipn (N.to_nat (u_offset (unst l) - first_of (store l))) (entries (store l)) = u_entries (unst l).
Proof. exact ents_written_def. Qed.
Print Assumptions C14_node_ents_written_def.

Theorem C14_node_commit_pre_def :
  forall n,
  commit_pre n <->
  (rr_snapshot (List.last (rn_records n) (mkRR 0 None None false)) <> None -> snap_written (r_log (rn_raft n)))
  /\ (rr_last_entry (List.last (rn_records n) (mkRR 0 None None false)) <> None -> ents_written (r_log (rn_raft n))).
Proof. exact commit_pre_def. Qed.
Print Assumptions C14_node_commit_pre_def.

Theorem C14_node_persist_pre_def :
  forall n number,
  persist_pre n number <->
  (persisted (r_log (rn_raft n)) < snd (fold_records (rn_records n) number 0 0 0) ->
   snd (fold_records (rn_records n) number 0 0 0) < next_of (store (r_log (rn_raft n)))).
Proof. exact persist_pre_def. Qed.
Print Assumptions C14_node_persist_pre_def.

Theorem C14_node_advance_pre_def :
  forall n,
  advance_pre n <-> commit_pre n /\ persist_pre n (rn_max_number n).
Proof. exact advance_pre_def. Qed.
Print Assumptions C14_node_advance_pre_def.

Theorem C14_node_op_wf_def :
  forall n o,
  op_wf n o <->
  match o with
  | OStep m => msg_wf (last_index (r_log (rn_raft n))) m
  | OTick | OCampaign | OPropose _ _ | OProposeCC _ _ _ _ => nroom 1 n
  | OAdvance _ => advance_pre n /\ nroom 1 n
  | OAdvanceAppend _ => advance_pre n
  | OAdvanceAppendAsync _ => commit_pre n
  | OOnPersistReady k => persist_pre n k
  | OAdvanceApply | OAdvanceApplyTo _ => is_leader (rn_raft n) = true -> nroom 1 n
  | OSetStore m => store_write (r_log (rn_raft n)) m
  | OApplyCC _ | OPing | OReady | OReportUnreachable _ | OReportSnapshot _ _
  | ORequestSnapshot | OTransferLeader _ | OReadIndex _ => True
  end.
Proof. exact op_wf_def. Qed.
Print Assumptions C14_node_op_wf_def.

Theorem C14_node_store_write_iff :
  forall l st',
  store_write l st' <->
  (entries st' = entries (store l) /\ snap_index st' = snap_index (store l)
   /\ snap_term st' = snap_term (store l) /\ trig_log st' = trig_log (store l))
  \/ (u_snapshot (unst l) = None /\ append (store l) (u_entries (unst l)) = Ok st')
  \/ (exists s, u_snapshot (unst l) = Some s /\ apply_snapshot (store l) s = Ok (st', SOk tt))
  \/ (exists s, u_snapshot (unst l) = Some s /\ snap_written l
                 /\ append (store l) (u_entries (unst l)) = Ok st')
  \/ (exists ci, u_snapshot (unst l) = None /\ applied l <= committed l /\ ci <= applied l
                  /\ ci <= u_offset (unst l) /\ ci < next_of (store l)
                  /\ compact (store l) ci = Ok st').
Proof. exact store_write_iff. Qed.
Print Assumptions C14_node_store_write_iff.

Theorem C14_node_set_store_node_def :
  forall n m,
  set_store_node n m = n <| rn_raft := (rn_raft n) <| r_log := set_store (r_log (rn_raft n)) m |> |>.
Proof. exact set_store_node_def. Qed.
Print Assumptions C14_node_set_store_node_def.

Theorem C14_node_write_ready_def :
  forall st rd,
  write_ready st rd =
  if s_index (rd_snapshot rd) =? 0 then st' <- append st (rd_entries rd) ;; Ok (Some st')
  else
    r <- apply_snapshot st (rd_snapshot rd) ;;
    match snd r with
    | SErr _ => Ok None
    | SOk _ => st' <- append (fst r) (rd_entries rd) ;; Ok (Some st')
    end.
Proof. exact write_ready_def. Qed.
Print Assumptions C14_node_write_ready_def.

Theorem C14_node_wrun_iff :
  forall n n',
  wrun n n' <->
  n' = n \/ exists o n1 ot, op_wf n o /\ exec n o = Ok (n1, ot) /\ wrun n1 n'.
Proof. exact wrun_iff. Qed.
Print Assumptions C14_node_wrun_iff.

(* the window flag is exactly the conjunct applied <= committed *)
Theorem C14_node_RepInv_false_iff :
  forall l,
  RepInv false l <-> RepInv true l /\ applied l <= committed l.
Proof. exact RepInv_false_iff. Qed.
Print Assumptions C14_node_RepInv_false_iff.

(* RaftLog operations in Ok-form *)
Theorem C14_node_commit_to_pres :
  forall rw l tc l',
  commit_to l tc = Ok l' -> RepInv rw l -> RepInv rw l' /\ same_su l l'.
Proof. exact commit_to_pres. Qed.
Print Assumptions C14_node_commit_to_pres.

Theorem C14_node_log_maybe_commit_pres :
  forall rw l i t l' b,
  RaftLog.maybe_commit l i t = Ok (l', b) -> RepInv rw l -> RepInv rw l' /\ same_su l l'.
Proof. exact log_maybe_commit_pres. Qed.
Print Assumptions C14_node_log_maybe_commit_pres.

Theorem C14_node_applied_to_pres :
  forall rw l i l',
  applied_to l i = Ok l' -> RepInv rw l ->
  RepInv rw l' /\ store l' = store l /\ unst l' = unst l /\ committed l' = committed l.
Proof. exact applied_to_pres. Qed.
Print Assumptions C14_node_applied_to_pres.

Theorem C14_node_log_append_pres :
  forall rw l e0 t l' li,
  log_append l (e0 :: t) = Ok (l', li) -> RepInv rw l ->
  contiguous_from (e_index e0) (e0 :: t) -> persisted l < e_index e0 ->
  e_index e0 + N.of_nat (length (e0 :: t)) <= u64_max ->
  RepInv rw l' /\ store l' = store l /\ committed l' = committed l /\ applied l' = applied l
  /\ li = e_index e0 + N.of_nat (length (e0 :: t)) - 1 /\ last_index l' = li.
Proof. exact log_append_pres. Qed.
Print Assumptions C14_node_log_append_pres.

Theorem C14_node_find_conflict_shape :
  forall L ents,
  forall j,
  contiguous_from j ents -> 0 < j ->
  let ci := ll_find_conflict L ents in
  ci = 0 \/ (ci <> 0 /\ j <= ci /\ ci < j + N.of_nat (length ents)
             /\ exists e r, skipn (N.to_nat (ci - j)) ents = e :: r /\ e_index e = ci).
Proof. exact find_conflict_shape. Qed.
Print Assumptions C14_node_find_conflict_shape.

Theorem C14_node_maybe_append_pres :
  forall rw l i t cmt ents l' res,
  maybe_append l i t cmt ents = Ok (l', res) -> RepInv rw l ->
  contiguous_from (i + 1) ents -> i + N.of_nat (length ents) < u64_max ->
  RepInv rw l' /\ store l' = store l /\ applied l' = applied l.
Proof. exact maybe_append_pres. Qed.
Print Assumptions C14_node_maybe_append_pres.

Theorem C14_node_log_restore_pres :
  forall rw l s l',
  log_restore l s = Ok l' -> RepInv rw l -> s_index s < u64_max ->
  RepInv rw l' /\ store l' = store l /\ applied l' = applied l.
Proof. exact log_restore_pres. Qed.
Print Assumptions C14_node_log_restore_pres.

Theorem C14_node_maybe_persist_pres :
  forall rw l i t l' b,
  maybe_persist l i t = Ok (l', b) -> RepInv rw l -> RepInv rw l' /\ same_su l l'.
Proof. exact maybe_persist_pres. Qed.
Print Assumptions C14_node_maybe_persist_pres.

Theorem C14_node_maybe_persist_snap_pres :
  forall rw l i l' b,
  maybe_persist_snap l i = Ok (l', b) -> RepInv rw l ->
  (persisted l < i -> i < next_of (store l)) ->
  RepInv rw l' /\ same_su l l'.
Proof. exact maybe_persist_snap_pres. Qed.
Print Assumptions C14_node_maybe_persist_snap_pres.

Theorem C14_node_stable_snap_pres :
  forall rw l i l',
  stable_snap l i = Ok l' -> RepInv rw l -> snap_written l ->
  RepInv rw l' /\ abs l' = abs l /\ store l' = store l
  /\ u_snapshot (unst l') = None /\ u_entries (unst l') = u_entries (unst l)
  /\ u_offset (unst l') = u_offset (unst l)
  /\ committed l' = committed l /\ persisted l' = persisted l /\ applied l' = applied l.
Proof. exact stable_snap_pres. Qed.
Print Assumptions C14_node_stable_snap_pres.

Theorem C14_node_stable_entries_pres :
  forall rw l i t l',
  stable_entries l i t = Ok l' -> RepInv rw l -> ents_written l ->
  RepInv rw l' /\ abs l' = abs l /\ store l' = store l
  /\ committed l' = committed l /\ persisted l' = persisted l /\ applied l' = applied l.
Proof. exact stable_entries_pres. Qed.
Print Assumptions C14_node_stable_entries_pres.

(* constructors *)
Theorem C14_node_raft_new_pres :
  forall c st sa dr r,
  raft_new c st sa dr = Ok (inr r) -> SInv st -> trig_log st = false ->
  LI true r /\ (c_applied c = 0 -> LI false r) /\ store (r_log r) = st.
Proof. exact raft_new_pres. Qed.
Print Assumptions C14_node_raft_new_pres.

Theorem C14_node_rn_new_pres :
  forall c st sa dr n,
  rn_new c st sa dr = Ok (inr n) -> SInv st -> trig_log st = false ->
  NLI true n /\ (c_applied c = 0 -> NLI false n) /\ store (nlog n) = st.
Proof. exact rn_new_pres. Qed.
Print Assumptions C14_node_rn_new_pres.

(* M/Raft.v *)
Theorem C14_node_append_entry_pres :
  forall rw r es r' ok,
  append_entry r es = Ok (r', ok) -> LI rw r -> room (N.of_nat (length es)) r ->
  LI rw r' /\ store (r_log r') = store (r_log r) /\ applied (r_log r') = applied (r_log r)
  /\ committed (r_log r') = committed (r_log r)
  /\ last_index (r_log r') <= last_index (r_log r) + N.of_nat (length es).
Proof. exact append_entry_pres. Qed.
Print Assumptions C14_node_append_entry_pres.

Theorem C14_node_become_leader_pres :
  forall rw r r',
  become_leader r = Ok r' -> LI rw r -> room 1 r -> LI rw r'.
Proof. exact become_leader_pres. Qed.
Print Assumptions C14_node_become_leader_pres.

Theorem C14_node_become_follower_pres :
  forall rw r t l r',
  become_follower r t l = Ok r' -> LI rw r ->
  LI rw r' /\ last_index (r_log r') = last_index (r_log r).
Proof. exact become_follower_pres. Qed.
Print Assumptions C14_node_become_follower_pres.

Theorem C14_node_maybe_commit_pres :
  forall rw r r' b,
  maybe_commit r = Ok (r', b) -> LI rw r -> LI rw r' /\ same_su (r_log r) (r_log r').
Proof. exact maybe_commit_pres. Qed.
Print Assumptions C14_node_maybe_commit_pres.

Theorem C14_node_maybe_commit_by_vote_pres :
  forall rw r m r',
  maybe_commit_by_vote r m = Ok r' -> LI rw r ->
  LI rw r' /\ last_index (r_log r') = last_index (r_log r).
Proof. exact maybe_commit_by_vote_pres. Qed.
Print Assumptions C14_node_maybe_commit_by_vote_pres.

Theorem C14_node_hup_pres :
  forall rw r tl r',
  hup r tl = Ok r' -> LI rw r -> room 1 r -> LI rw r'.
Proof. exact hup_pres. Qed.
Print Assumptions C14_node_hup_pres.

Theorem C14_node_handle_append_entries_pres :
  forall rw r m r',
  handle_append_entries r m = Ok r' -> append_wf m -> LI rw r -> LI rw r'.
Proof. exact handle_append_entries_pres. Qed.
Print Assumptions C14_node_handle_append_entries_pres.

Theorem C14_node_handle_heartbeat_pres :
  forall rw r m r',
  handle_heartbeat r m = Ok r' -> LI rw r -> LI rw r'.
Proof. exact handle_heartbeat_pres. Qed.
Print Assumptions C14_node_handle_heartbeat_pres.

Theorem C14_node_restore_pres :
  forall rw r s r' b,
  restore r s = Ok (r', b) -> s_index s < u64_max -> LI rw r -> LI rw r'.
Proof. exact restore_pres. Qed.
Print Assumptions C14_node_restore_pres.

Theorem C14_node_handle_snapshot_pres :
  forall rw r m r',
  handle_snapshot r m = Ok r' -> s_index (m_snapshot m) < u64_max -> LI rw r -> LI rw r'.
Proof. exact handle_snapshot_pres. Qed.
Print Assumptions C14_node_handle_snapshot_pres.

Theorem C14_node_post_conf_change_pres :
  forall rw r r' cs,
  post_conf_change r = Ok (r', cs) -> LI rw r -> LI rw r' /\ same_su (r_log r) (r_log r').
Proof. exact post_conf_change_pres. Qed.
Print Assumptions C14_node_post_conf_change_pres.

Theorem C14_node_handle_append_response_pres :
  forall rw r m r',
  handle_append_response r m = Ok r' -> LI rw r ->
  LI rw r' /\ last_index (r_log r') = last_index (r_log r).
Proof. exact handle_append_response_pres. Qed.
Print Assumptions C14_node_handle_append_response_pres.

Theorem C14_node_handle_heartbeat_response_log :
  forall r m r',
  handle_heartbeat_response r m = Ok r' -> r_log r' = r_log r.
Proof. exact handle_heartbeat_response_log. Qed.
Print Assumptions C14_node_handle_heartbeat_response_log.

Theorem C14_node_step_pres :
  forall rw r m r' c,
  step r m = Ok (r', c) -> msg_wf (last_index (r_log r)) m -> LI rw r -> LI rw r'.
Proof. exact step_pres. Qed.
Print Assumptions C14_node_step_pres.

Theorem C14_node_tick_pres :
  forall rw r r' b,
  tick r = Ok (r', b) -> LI rw r -> room 1 r -> LI rw r'.
Proof. exact tick_pres. Qed.
Print Assumptions C14_node_tick_pres.

Theorem C14_node_on_persist_entries_pres :
  forall rw r i t r',
  on_persist_entries r i t = Ok r' -> LI rw r ->
  LI rw r' /\ same_su (r_log r) (r_log r').
Proof. exact on_persist_entries_pres. Qed.
Print Assumptions C14_node_on_persist_entries_pres.

Theorem C14_node_on_persist_snap_pres :
  forall rw r i r',
  on_persist_snap r i = Ok r' -> LI rw r ->
  (persisted (r_log r) < i -> i < next_of (store (r_log r))) ->
  LI rw r' /\ same_su (r_log r) (r_log r').
Proof. exact on_persist_snap_pres. Qed.
Print Assumptions C14_node_on_persist_snap_pres.

Theorem C14_node_commit_apply_pres :
  forall rw r a r',
  commit_apply r a = Ok r' -> LI rw r -> (is_leader r = true -> room 1 r) -> LI rw r'.
Proof. exact commit_apply_pres. Qed.
Print Assumptions C14_node_commit_apply_pres.

Theorem C14_node_commit_apply_internal_unchecked_pres :
  forall rw r a r',
  commit_apply_internal r a true = Ok r' -> LI rw r -> is_leader r = false -> LI true r'.
Proof. exact commit_apply_internal_unchecked_pres. Qed.
Print Assumptions C14_node_commit_apply_internal_unchecked_pres.

Theorem C14_node_raft_apply_conf_change_pres :
  forall rw r cc r' ocs,
  raft_apply_conf_change r cc = Ok (r', ocs) -> LI rw r ->
  LI rw r' /\ same_su (r_log r) (r_log r').
Proof. exact raft_apply_conf_change_pres. Qed.
Print Assumptions C14_node_raft_apply_conf_change_pres.

Theorem C14_node_load_state_pres :
  forall rw r hs r',
  load_state r hs = Ok r' -> LI rw r -> LI rw r'.
Proof. exact load_state_pres. Qed.
Print Assumptions C14_node_load_state_pres.

Theorem C14_node_request_snapshot_log :
  forall r r' c,
  request_snapshot r = Ok (r', c) -> r_log r' = r_log r.
Proof. exact request_snapshot_log. Qed.
Print Assumptions C14_node_request_snapshot_log.

Theorem C14_node_ping_log :
  forall r r',
  ping r = Ok r' -> r_log r' = r_log r.
Proof. exact ping_log. Qed.
Print Assumptions C14_node_ping_log.

Theorem C14_node_adjust_max_inflight_msgs_log :
  forall r target cap r',
  adjust_max_inflight_msgs r target cap = Ok r' -> r_log r' = r_log r.
Proof. exact adjust_max_inflight_msgs_log. Qed.
Print Assumptions C14_node_adjust_max_inflight_msgs_log.

Theorem C14_node_maybe_free_inflight_buffers_log :
  forall r,
  r_log (maybe_free_inflight_buffers r) = r_log r.
Proof. exact maybe_free_inflight_buffers_log. Qed.
Print Assumptions C14_node_maybe_free_inflight_buffers_log.

Theorem C14_node_set_max_apply_unpersisted_log_limit_pres :
  forall rw r lim,
  LI rw r -> LI rw (set_max_apply_unpersisted_log_limit r lim).
Proof. exact set_max_apply_unpersisted_log_limit_pres. Qed.
Print Assumptions C14_node_set_max_apply_unpersisted_log_limit_pres.

Theorem C14_node_enable_group_commit_pres :
  forall rw r e r',
  enable_group_commit r e = Ok r' -> LI rw r -> LI rw r'.
Proof. exact enable_group_commit_pres. Qed.
Print Assumptions C14_node_enable_group_commit_pres.

Theorem C14_node_assign_commit_groups_pres :
  forall rw r ids r',
  assign_commit_groups r ids = Ok r' -> LI rw r -> LI rw r'.
Proof. exact assign_commit_groups_pres. Qed.
Print Assumptions C14_node_assign_commit_groups_pres.

(* M/RawNode.v *)
Theorem C14_node_rn_step_pres :
  forall rw n m n' c,
  rn_step n m = Ok (n', c) -> msg_wf (nlast n) m -> NLI rw n -> NLI rw n'.
Proof. exact rn_step_pres. Qed.
Print Assumptions C14_node_rn_step_pres.

Theorem C14_node_rn_tick_pres :
  forall rw n n' b,
  rn_tick n = Ok (n', b) -> nroom 1 n -> NLI rw n -> NLI rw n'.
Proof. exact rn_tick_pres. Qed.
Print Assumptions C14_node_rn_tick_pres.

Theorem C14_node_rn_campaign_pres :
  forall rw n n' c,
  rn_campaign n = Ok (n', c) -> nroom 1 n -> NLI rw n -> NLI rw n'.
Proof. exact rn_campaign_pres. Qed.
Print Assumptions C14_node_rn_campaign_pres.

Theorem C14_node_rn_propose_pres :
  forall rw n ctx data n' c,
  rn_propose n ctx data = Ok (n', c) -> nroom 1 n -> NLI rw n -> NLI rw n'.
Proof. exact rn_propose_pres. Qed.
Print Assumptions C14_node_rn_propose_pres.

Theorem C14_node_rn_propose_conf_change_pres :
  forall rw n ctx data ty ci n' c,
  rn_propose_conf_change n ctx data ty ci = Ok (n', c) -> nroom 1 n -> NLI rw n -> NLI rw n'.
Proof. exact rn_propose_conf_change_pres. Qed.
Print Assumptions C14_node_rn_propose_conf_change_pres.

Theorem C14_node_rn_apply_conf_change_pres :
  forall rw n cc n' o,
  rn_apply_conf_change n cc = Ok (n', o) -> NLI rw n -> NLI rw n'.
Proof. exact rn_apply_conf_change_pres. Qed.
Print Assumptions C14_node_rn_apply_conf_change_pres.

Theorem C14_node_rn_ping_log :
  forall n n',
  rn_ping n = Ok n' -> nlog n' = nlog n.
Proof. exact rn_ping_log. Qed.
Print Assumptions C14_node_rn_ping_log.

Theorem C14_node_gen_light_ready_log :
  forall n n' lr,
  gen_light_ready n = Ok (n', lr) -> nlog n' = nlog n.
Proof. exact gen_light_ready_log. Qed.
Print Assumptions C14_node_gen_light_ready_log.

Theorem C14_node_rn_ready_log :
  forall n n' rd,
  rn_ready n = Ok (n', rd) -> nlog n' = nlog n.
Proof. exact rn_ready_log. Qed.
Print Assumptions C14_node_rn_ready_log.

Theorem C14_node_commit_ready_pres :
  forall rw n rd n',
  commit_ready n rd = Ok n' -> commit_pre n -> NLI rw n ->
  NLI rw n' /\ abs (nlog n') = abs (nlog n) /\ store (nlog n') = store (nlog n)
  /\ same_cpa (nlog n) (nlog n') /\ rn_records n' = rn_records n
  /\ rn_max_number n' = rn_max_number n.
Proof. exact commit_ready_pres. Qed.
Print Assumptions C14_node_commit_ready_pres.

Theorem C14_node_rn_on_persist_ready_pres :
  forall rw n number n',
  rn_on_persist_ready n number = Ok n' -> persist_pre n number -> NLI rw n ->
  NLI rw n' /\ same_su (nlog n) (nlog n').
Proof. exact rn_on_persist_ready_pres. Qed.
Print Assumptions C14_node_rn_on_persist_ready_pres.

Theorem C14_node_rn_advance_append_pres :
  forall rw n rd n' lr,
  rn_advance_append n rd = Ok (n', lr) -> advance_pre n -> NLI rw n ->
  NLI rw n' /\ abs (nlog n') = abs (nlog n) /\ store (nlog n') = store (nlog n)
  /\ applied (nlog n') = applied (nlog n).
Proof. exact rn_advance_append_pres. Qed.
Print Assumptions C14_node_rn_advance_append_pres.

Theorem C14_node_rn_advance_append_async_pres :
  forall rw n rd n',
  rn_advance_append_async n rd = Ok n' -> commit_pre n -> NLI rw n -> NLI rw n'.
Proof. exact rn_advance_append_async_pres. Qed.
Print Assumptions C14_node_rn_advance_append_async_pres.

Theorem C14_node_rn_advance_apply_to_pres :
  forall rw n a n',
  rn_advance_apply_to n a = Ok n' -> (is_leader (rn_raft n) = true -> nroom 1 n) -> NLI rw n -> NLI rw n'.
Proof. exact rn_advance_apply_to_pres. Qed.
Print Assumptions C14_node_rn_advance_apply_to_pres.

Theorem C14_node_rn_advance_apply_pres :
  forall rw n n',
  rn_advance_apply n = Ok n' -> (is_leader (rn_raft n) = true -> nroom 1 n) -> NLI rw n -> NLI rw n'.
Proof. exact rn_advance_apply_pres. Qed.
Print Assumptions C14_node_rn_advance_apply_pres.

Theorem C14_node_rn_advance_pres :
  forall rw n rd n' lr,
  rn_advance n rd = Ok (n', lr) -> advance_pre n -> nroom 1 n -> NLI rw n -> NLI rw n'.
Proof. exact rn_advance_pres. Qed.
Print Assumptions C14_node_rn_advance_pres.

Theorem C14_node_rn_report_unreachable_pres :
  forall rw n id n',
  rn_report_unreachable n id = Ok n' -> NLI rw n -> NLI rw n'.
Proof. exact rn_report_unreachable_pres. Qed.
Print Assumptions C14_node_rn_report_unreachable_pres.

Theorem C14_node_rn_report_snapshot_pres :
  forall rw n id f n',
  rn_report_snapshot n id f = Ok n' -> NLI rw n -> NLI rw n'.
Proof. exact rn_report_snapshot_pres. Qed.
Print Assumptions C14_node_rn_report_snapshot_pres.

Theorem C14_node_rn_transfer_leader_pres :
  forall rw n t n',
  rn_transfer_leader n t = Ok n' -> NLI rw n -> NLI rw n'.
Proof. exact rn_transfer_leader_pres. Qed.
Print Assumptions C14_node_rn_transfer_leader_pres.

Theorem C14_node_rn_read_index_pres :
  forall rw n ctx n',
  rn_read_index n ctx = Ok n' -> NLI rw n -> NLI rw n'.
Proof. exact rn_read_index_pres. Qed.
Print Assumptions C14_node_rn_read_index_pres.

Theorem C14_node_rn_request_snapshot_log :
  forall n n' c,
  rn_request_snapshot n = Ok (n', c) -> nlog n' = nlog n.
Proof. exact rn_request_snapshot_log. Qed.
Print Assumptions C14_node_rn_request_snapshot_log.

(* the application's storage writes *)
Theorem C14_node_write_meta_pres :
  forall rw l m',
  entries m' = entries (store l) -> snap_index m' = snap_index (store l) ->
  snap_term m' = snap_term (store l) -> trig_log m' = trig_log (store l) ->
  RepInv rw l -> RepInv rw (set_store l m') /\ abs (set_store l m') = abs l.
Proof. exact write_meta_pres. Qed.
Print Assumptions C14_node_write_meta_pres.

Theorem C14_node_write_entries_pres :
  forall rw l st',
  RepInv rw l -> u_snapshot (unst l) = None -> append (store l) (u_entries (unst l)) = Ok st' ->
  RepInv rw (set_store l st') /\ abs (set_store l st') = abs l /\ ents_written (set_store l st').
Proof. exact write_entries_pres. Qed.
Print Assumptions C14_node_write_entries_pres.

Theorem C14_node_write_snapshot_pres :
  forall rw l s st',
  RepInv rw l -> u_snapshot (unst l) = Some s -> apply_snapshot (store l) s = Ok (st', SOk tt) ->
  RepInv rw (set_store l st') /\ abs (set_store l st') = abs l /\ snap_written (set_store l st')
  /\ entries st' = [].
Proof. exact write_snapshot_pres. Qed.
Print Assumptions C14_node_write_snapshot_pres.

Theorem C14_node_write_entries_after_snapshot_pres :
  forall rw l s st',
  RepInv rw l -> u_snapshot (unst l) = Some s -> snap_written l ->
  append (store l) (u_entries (unst l)) = Ok st' ->
  RepInv rw (set_store l st') /\ abs (set_store l st') = abs l /\ snap_written (set_store l st')
  /\ entries st' = u_entries (unst l).
Proof. exact write_entries_after_snapshot_pres. Qed.
Print Assumptions C14_node_write_entries_after_snapshot_pres.

Theorem C14_node_write_compact_pres :
  forall rw l ci st',
  RepInv rw l -> u_snapshot (unst l) = None -> applied l <= committed l ->
  ci <= applied l -> ci <= u_offset (unst l) -> ci < next_of (store l) ->
  compact (store l) ci = Ok st' ->
  RepInv rw (set_store l st') /\ last_index (set_store l st') = last_index l
  /\ preserves_upto (committed l) (abs l) (abs (set_store l st')).
Proof. exact write_compact_pres. Qed.
Print Assumptions C14_node_write_compact_pres.

Theorem C14_node_store_write_pres :
  forall rw l st',
  store_write l st' -> RepInv rw l ->
  RepInv rw (set_store l st') /\ last_index (set_store l st') = last_index l
  /\ preserves_upto (committed l) (abs l) (abs (set_store l st')).
Proof. exact store_write_pres. Qed.
Print Assumptions C14_node_store_write_pres.

Theorem C14_node_set_store_pres :
  forall rw n m,
  store_write (nlog n) m -> NLI rw n -> NLI rw (set_store_node n m).
Proof. exact set_store_pres. Qed.
Print Assumptions C14_node_set_store_pres.

Theorem C14_node_ready_write_pres :
  forall rw n n1 rd st',
  rn_ready n = Ok (n1, rd) -> NLI rw n ->
  (forall s, u_snapshot (unst (nlog n)) = Some s -> s_index s <> 0) ->
  write_ready (store (nlog n)) rd = Ok (Some st') ->
  let n2 := set_store_node n1 st' in
  NLI rw n2 /\ abs (nlog n2) = abs (nlog n) /\ commit_pre n2
  /\ (rn_records n = [] -> persist_pre n2 (rn_max_number n2)).
Proof. exact ready_write_pres. Qed.
Print Assumptions C14_node_ready_write_pres.

Theorem C14_node_write_ready_total :
  forall rw n n1 rd,
  rn_ready n = Ok (n1, rd) -> NLI rw n ->
  (forall s, u_snapshot (unst (nlog n)) = Some s ->
     s_index s <> 0 /\ first_of (store (nlog n)) <= s_index s) ->
  exists st', write_ready (store (nlog n)) rd = Ok (Some st').
Proof. exact write_ready_total. Qed.
Print Assumptions C14_node_write_ready_total.

Theorem C14_node_ready_write_advance_append :
  forall rw n n1 rd st' n3 lr,
  rn_ready n = Ok (n1, rd) -> NLI rw n -> rn_records n = [] ->
  (forall s, u_snapshot (unst (nlog n)) = Some s -> s_index s <> 0) ->
  write_ready (store (nlog n)) rd = Ok (Some st') ->
  rn_advance_append (set_store_node n1 st') rd = Ok (n3, lr) ->
  NLI rw n3 /\ abs (nlog n3) = abs (nlog n).
Proof. exact ready_write_advance_append. Qed.
Print Assumptions C14_node_ready_write_advance_append.

Theorem C14_node_sync_cycle_records :
  forall n n1 rd st' n3 lr,
  rn_ready n = Ok (n1, rd) -> rn_records n = [] ->
  rn_advance_append (set_store_node n1 st') rd = Ok (n3, lr) -> rn_records n3 = [].
Proof. exact sync_cycle_records. Qed.
Print Assumptions C14_node_sync_cycle_records.

Theorem C14_node_persist_pre_no_snapshot :
  forall n number,
  (forall rr, In rr (rn_records n) -> rr_snapshot rr = None) -> persist_pre n number.
Proof. exact persist_pre_no_snapshot. Qed.
Print Assumptions C14_node_persist_pre_no_snapshot.

(* traces *)
Theorem C14_node_exec_pres :
  forall rw n o n' ot,
  exec n o = Ok (n', ot) -> op_wf n o -> NLI rw n -> NLI rw n'.
Proof. exact exec_pres. Qed.
Print Assumptions C14_node_exec_pres.

Theorem C14_node_wrun_pres :
  forall rw n n',
  wrun n n' -> NLI rw n -> NLI rw n'.
Proof. exact wrun_pres. Qed.
Print Assumptions C14_node_wrun_pres.

Theorem C14_node_NLI_bounds :
  forall rw n,
  NLI rw n ->
  committed (nlog n) <= last_index (nlog n) /\ last_index (nlog n) < u64_max
  /\ persisted (nlog n) <= storage_last_index (store (nlog n))
  /\ persisted (nlog n) <= last_index (nlog n)
  /\ (rw = false -> applied (nlog n) <= committed (nlog n)).
Proof. exact NLI_bounds. Qed.
Print Assumptions C14_node_NLI_bounds.

Theorem C14_node_window_closes :
  forall n n',
  NLI true n -> applied (nlog n) <= committed (nlog n) -> wrun n n' ->
  NLI false n' /\ applied (nlog n') <= committed (nlog n').
Proof. exact window_closes. Qed.
Print Assumptions C14_node_window_closes.

Theorem C14_node_trace_from_new :
  forall c st sa dr n0 n,
  rn_new c st sa dr = Ok (inr n0) -> SInv st -> trig_log st = false -> wrun n0 n ->
  NLogOK n
  /\ committed (nlog n) <= last_index (nlog n) /\ last_index (nlog n) < u64_max
  /\ persisted (nlog n) <= storage_last_index (store (nlog n))
  /\ (c_applied c = 0 -> applied (nlog n) <= committed (nlog n)).
Proof. exact trace_from_new. Qed.
Print Assumptions C14_node_trace_from_new.

Theorem C14_node_trace_from_new_window :
  forall c st sa dr n0 n1 n,
  rn_new c st sa dr = Ok (inr n0) -> SInv st -> trig_log st = false ->
  wrun n0 n1 -> applied (nlog n1) <= committed (nlog n1) -> wrun n1 n ->
  applied (nlog n) <= committed (nlog n) /\ committed (nlog n) <= last_index (nlog n).
Proof. exact trace_from_new_window. Qed.
Print Assumptions C14_node_trace_from_new_window.

(* ---- non-vacuity and witnesses (M/RaftProofsRepInv.v, module RepInvSamples) ---- *)
Import Samples RepInvSamples.

(* a single voter: campaign, Ready, write, advance_append *)
Theorem C14_node_ex_leader_trace :
  wrun node0 node3.
Proof. exact ex_leader_trace. Qed.
Print Assumptions C14_node_ex_leader_trace.

Theorem C14_node_ex_leader_inv :
  NLI false node3 /\ committed (nlog node3) = 1 /\ last_index (nlog node3) = 1
    /\ persisted (nlog node3) = 1.
Proof. exact ex_leader_inv. Qed.
Print Assumptions C14_node_ex_leader_inv.

(* a follower: MsgAppend, Ready, write, advance; MsgSnapshot, Ready, apply, advance *)
Theorem C14_node_ex_follower_trace :
  wrun f0 f6.
Proof. exact ex_follower_trace. Qed.
Print Assumptions C14_node_ex_follower_trace.

Theorem C14_node_ex_follower_inv :
  NLI false f6 /\ committed (nlog f6) = 5 /\ last_index (nlog f6) = 5
    /\ applied (nlog f6) = 5 /\ persisted (nlog f6) = 5.
Proof. exact ex_follower_inv. Qed.
Print Assumptions C14_node_ex_follower_inv.

(* Config.applied = 3 over an empty store: LI true but not LI false *)
Theorem C14_node_restart_window_open :
  rn_new cfg_a3 store0 None [15; 15; 15; 15] = Ok (inr w0)
    /\ NLI true w0 /\ ~ NLI false w0 /\ applied (nlog w0) = 3 /\ committed (nlog w0) = 0.
Proof. exact restart_window_open. Qed.
Print Assumptions C14_node_restart_window_open.

(* commit_pre is needed *)
Theorem C14_node_commit_ready_unwritten_refuted :
  exists n', NLI false (fst ready1)
      /\ rn_advance_append_async (fst ready1) (snd ready1) = Ok n'
      /\ last_index (nlog (fst ready1)) = 1 /\ last_index (nlog n') = 0
      /\ ~ NLogOK n'.
Proof. exact commit_ready_unwritten_refuted. Qed.
Print Assumptions C14_node_commit_ready_unwritten_refuted.

(* persist_pre is needed *)
Theorem C14_node_persist_unwritten_snapshot_refuted :
  exists n', NLI false (fst snap_rd)
      /\ rn_on_persist_ready (fst snap_rd) (rd_number (snd snap_rd)) = Ok n'
      /\ persisted (nlog n') = 5 /\ storage_last_index (store (nlog n')) = 0
      /\ ~ NLogOK n'.
Proof. exact persist_unwritten_snapshot_refuted. Qed.
Print Assumptions C14_node_persist_unwritten_snapshot_refuted.

(* msg_wf (contiguity of a MsgAppend) is needed *)
Theorem C14_node_append_gap_refuted :
  exists n' c, NLI false f0 /\ rn_step f0 gapm = Ok (n', c)
      /\ u_entries (unst (nlog n')) = [mkEntry 0 1 1 [] []; mkEntry 0 1 3 [] []] /\ ~ NLogOK n'.
Proof. exact append_gap_refuted. Qed.
Print Assumptions C14_node_append_gap_refuted.

(* room is needed *)
Theorem C14_node_room_needed :
  exists n' c, NLI false h0 /\ last_index (nlog h0) = u64_max - 1
      /\ rn_campaign h0 = Ok (n', c) /\ last_index (nlog n') = u64_max /\ ~ NLogOK n'.
Proof. exact room_needed. Qed.
Print Assumptions C14_node_room_needed.

