from genprops import emit
imports='''From RV Require Import Base.IdSet M.Proto M.Inflights M.Progress M.Quorum M.ConfChange M.Msg M.Raft
  M.RawNode M.RaftProofs M.RaftProofsC15 M.RaftProofsC09 M.RaftProofsC08 M.RaftProofsC13
  M.RaftProofsC07 M.RaftProofsRepInv.
From RecordUpdate Require Import RecordSet.
Import RecordSetNotations.
'''
c14_header='''

(* ====================================================================== *)
(* ==== node level ====================================================== *)
(* ====================================================================== *)
(* The representation invariant of the RaftLog lifted to M/Raft.v and M/RawNode.v
   (proofs in M/RaftProofsRepInv.v).
     LI rw r   := RepInv rw (r_log r)          NLI rw n := LI rw (rn_raft n)
     LogOK r   := exists rw, LI rw r           NLogOK n := LogOK (rn_raft n)
   PROVED
   * Every function of M/Raft.v that changes r_log preserves LI rw for BOTH values of
     the window flag (so applied <= committed, once true, stays true), and so does every
     RawNode entry point; functions that leave r_log alone have frame statements
     (.._log).  Raft::new / RawNode::new establish LI true (LI false when
     Config.applied = 0) from the MemStorage invariant of the initial store.
   * The preconditions are explicit and each is shown necessary by a witness state that
     breaks RepInv without it (C14_node_*_refuted, C14_node_room_needed):
       room k r      last_index + k < u64::MAX when k entries may be appended (the model,
                     like the Rust, numbers new entries without an overflow check);
       msg_wf li m   MsgAppend: entries numbered consecutively after m_index and
                     m_index + len < u64::MAX (a predicate of the message alone: the other
                     two preconditions of maybe_append_ok - non-zero terms, anchor inside
                     the log or of non-zero term - are NOT needed in Ok-form);
                     MsgSnapshot: index < u64::MAX; election-type messages and MsgPropose: room;
       commit_pre n  commit_ready (advance / advance_append / advance_append_async): the
                     snapshot / entries named by the last record are in the storage;
       persist_pre   on_persist_ready: an acknowledged snapshot index is below the
                     storage's next index (or already persisted).
   * The application's storage writes (C07's OSetStore): append the unstable entries,
     apply the pending snapshot, append the entries that follow an applied snapshot,
     compact at or below applied, change hard/conf state preserve LI
     (C14_node_store_write_pres); if a Ready is written as told (write_ready) the
     preconditions of the advance calls hold (C14_node_ready_write_pres), the write
     cannot panic (C14_node_write_ready_total) and the synchronous cycle
     ready / write / advance_append can be repeated (C14_node_sync_cycle_records).
   * Traces over C07's op alphabet from RawNode::new: LI, committed <= last_index,
     persisted <= storage last index at every point; applied <= committed at every
     point when Config.applied = 0, and from the first point on where it holds
     otherwise (C14_node_trace_from_new, C14_node_trace_from_new_window).
   NOT PROVED
   * persist_pre is discharged from "the Ready was written as told" only when no earlier
     record is outstanding (the synchronous cycle), and it is automatic while no
     outstanding record carries a snapshot (C14_node_persist_pre_no_snapshot); with several
     outstanding records one of which carries a snapshot (advance_append_async) it stays a
     hypothesis of the on_persist_ready / advance call.
   * store_write covers exactly the current unstable entries / pending snapshot; a write
     of a proper prefix of the unstable entries (a Ready persisted after further appends)
     is not covered (commit_ready panics in that situation anyway: the record's last
     entry is no longer the last unstable entry). *)
'''
c14=[ # (name, comment)
 ('LI_def',None),('NLI_def',None),('NLogOK_def',None),('LogOK_iff',None),('room_def',None),('nroom_def',None),
 ('nlog_def',None),('nlast_def',None),('append_wf_def',None),('msg_wf_def',None),('snap_written_def',None),
 ('ents_written_def',None),('commit_pre_def',None),('persist_pre_def',None),('advance_pre_def',None),
 ('op_wf_def',None),('store_write_iff',None),('set_store_node_def',None),('write_ready_def',None),('wrun_iff',None),
 ('RepInv_false_iff','the window flag is exactly the conjunct applied <= committed'),
 # log level Ok-form
 ('commit_to_pres','RaftLog operations in Ok-form'),('log_maybe_commit_pres',None),('applied_to_pres',None),
 ('log_append_pres',None),('find_conflict_shape',None),('maybe_append_pres',None),('log_restore_pres',None),('maybe_persist_pres',None),
 ('maybe_persist_snap_pres',None),('stable_snap_pres',None),('stable_entries_pres',None),
 # raft
 ('raft_new_pres','constructors'),('rn_new_pres',None),
 ('append_entry_pres','M/Raft.v'),('become_leader_pres',None),('become_follower_pres',None),('maybe_commit_pres',None),
 ('maybe_commit_by_vote_pres',None),('hup_pres',None),('handle_append_entries_pres',None),('handle_heartbeat_pres',None),
 ('restore_pres',None),('handle_snapshot_pres',None),('post_conf_change_pres',None),('handle_append_response_pres',None),
 ('handle_heartbeat_response_log',None),('step_pres',None),('tick_pres',None),('on_persist_entries_pres',None),
 ('on_persist_snap_pres',None),('commit_apply_pres',None),('commit_apply_internal_unchecked_pres',None),
 ('raft_apply_conf_change_pres',None),('load_state_pres',None),('request_snapshot_log',None),('ping_log',None),
 ('adjust_max_inflight_msgs_log',None),('maybe_free_inflight_buffers_log',None),
 ('set_max_apply_unpersisted_log_limit_pres',None),('enable_group_commit_pres',None),('assign_commit_groups_pres',None),
 # rawnode
 ('rn_step_pres','M/RawNode.v'),('rn_tick_pres',None),('rn_campaign_pres',None),('rn_propose_pres',None),
 ('rn_propose_conf_change_pres',None),('rn_apply_conf_change_pres',None),('rn_ping_log',None),
 ('gen_light_ready_log',None),('rn_ready_log',None),('commit_ready_pres',None),('rn_on_persist_ready_pres',None),
 ('rn_advance_append_pres',None),('rn_advance_append_async_pres',None),('rn_advance_apply_to_pres',None),
 ('rn_advance_apply_pres',None),('rn_advance_pres',None),('rn_report_unreachable_pres',None),
 ('rn_report_snapshot_pres',None),('rn_transfer_leader_pres',None),('rn_read_index_pres',None),
 ('rn_request_snapshot_log',None),
 # store
 ('write_meta_pres','the application\'s storage writes'),('write_entries_pres',None),('write_snapshot_pres',None),
 ('write_entries_after_snapshot_pres',None),('write_compact_pres',None),('store_write_pres',None),
 ('set_store_pres',None),('ready_write_pres',None),('write_ready_total',None),('ready_write_advance_append',None),
 ('sync_cycle_records',None),('persist_pre_no_snapshot',None),
 # traces
 ('exec_pres','traces'),('wrun_pres',None),('NLI_bounds',None),('window_closes',None),('trace_from_new',None),
 ('trace_from_new_window',None),
]
out=c14_header+imports+'\n'
for n,c in c14: out+=emit('C14_node_',n,c)
# samples
out+='''(* ---- non-vacuity and witnesses (M/RaftProofsRepInv.v, module RepInvSamples) ---- *)
Import Samples RepInvSamples.

'''
for n,c in [('ex_leader_trace','a single voter: campaign, Ready, write, advance_append'),('ex_leader_inv',None),
            ('ex_follower_trace','a follower: MsgAppend, Ready, write, advance; MsgSnapshot, Ready, apply, advance'),
            ('ex_follower_inv',None),('restart_window_open','Config.applied = 3 over an empty store: LI true but not LI false'),
            ('commit_ready_unwritten_refuted','commit_pre is needed'),('persist_unwritten_snapshot_refuted','persist_pre is needed'),
            ('append_gap_refuted','msg_wf (contiguity of a MsgAppend) is needed'),('room_needed','room is needed')]:
    out+=emit('C14_node_',n,c)
open('/work/repinv-tools/c14_append.v','w').write(out)

c07_header='''

(* ====================================================================== *)
(* ==== node level: hand-out without a RepInv hypothesis ================ *)
(* ====================================================================== *)
(* C07_handout_contiguous above takes op_pre at every call, and op_pre contains the RaftLog
   representation invariant (handout_pre) at the hand-out points.  With
   M/RaftProofsRepInv.v the invariant comes from the start of the trace:
   * op_pre_node asks for the caller-side contract op_wf (see Props/C14.v, node level)
     and, at the hand-out points only, for handout_side = what is left of handout_pre once
     RepInv is removed (the cursor is a proper u64; nothing compacted beyond it);
   * op_pre_node2 drops the first half too: commit_since_index < u64::MAX is an invariant
     (CsiOK) when Config.applied < u64::MAX.  What remains at ready / advance /
     advance_append is "first index of the log <= cursor + 1".
   NOT PROVED: that remaining condition is not derived from the trace.  It needs
   "compaction stays at or below commit_since_index", which the model does not enforce
   (OSetStore may compact up to applied, and advance_apply_to may move applied beyond
   commit_since_index), and it fails transiently after a snapshot is restored between a
   ready and its advance (nothing is handed out then, but C07's handout_step asks for it). *)
'''
out=c07_header+'''From RV Require Import M.RaftProofsC15 M.RaftProofsC09 M.RaftProofsC08 M.RaftProofsC13 M.RaftProofsRepInv.

'''
for n,c in [('handout_side_def',None),('op_pre_node_def',None),('nrun_iff',None),('op_pre_node_op_pre','op_pre follows from the node-level contract and the invariant'),
            ('handout_contiguous_node','the hand-out history and the invariant along any trace'),('handout_contiguous_from_new','from RawNode::new'),
            ('CsiOK_def','the cursor bound is an invariant'),('gen_light_ready_CsiOK',None),('rn_ready_CsiOK',None),('exec_CsiOK',None),
            ('op_pre_node2_def',None),('nrun2_iff',None),('op_pre_node2_node',None),
            ('handout_contiguous_node2',None),('handout_contiguous_from_new2',None)]:
    out+=emit('C07_',n,c)
out+='''Import RepInvSamples HandoutSamples.

'''
out+=emit('C07_','ex_handout_run','non-vacuity: the single-voter run, one entry handed out')
open('/work/repinv-tools/c07_append.v','w').write(out)

c13_header='''

(* ====================================================================== *)
(* ==== node level: contiguous MsgAppend batches without LogInv ========= *)
(* ====================================================================== *)
(* C13_append_entries_contiguous above takes LogInv (r_log r) at the call of
   maybe_send_append.  With M/RaftProofsRepInv.v (Props/C14.v, node level) the log
   invariant holds at every state of every contract-abiding trace from RawNode::new, and
   at every intermediate state inside a call, so the per-call statement becomes an
   invariant of the outbound queue:
     app_ok m  := m_type m = MsgAppend -> contiguous_from (m_index m + 1) (m_entries m)
     AppOK r   := Forall app_ok (r_msgs r)          NAppOK n := AppOK (rn_raft n)
   PROVED: AppOK is preserved by step, tick, on_persist_entries, commit_apply,
   apply_conf_change and every RawNode call (exec_AppOK, batching on or off), it holds
   after RawNode::new, hence every MsgAppend in the queue of any state of a trace, and
   every MsgAppend in the messages of any Ready / LightReady, is a contiguous batch.
   NOT PROVED at node level: from_log (the entries ARE the sender's log entries) and the
   size bound for queued messages - they hold when the message is built
   (C13_append_entries_contiguous) but the log may be truncated while the message waits
   in the queue. *)
'''
out=c13_header+'''From RV Require Import M.RaftLogProofs M.RaftProofsC15 M.RaftProofsC09 M.RaftProofsC08 M.RaftProofsC07
  M.RaftProofsRepInv.

'''
for n,c in [('append_entries_contiguous_node','LogOK in place of LogInv'),('append_entries_contiguous_from_new','at any state of a trace from RawNode::new'),
            ('app_ok_def',None),('AppOK_def',None),('NAppOK_def',None),('AL_def',None),
            ('send_AppOK','the outbound-queue invariant'),('maybe_send_append_AL',None),('bcast_append_AL',None),
            ('step_AppOK',None),('tick_AppOK',None),('on_persist_entries_AppOK',None),('commit_apply_AppOK',None),
            ('raft_apply_conf_change_AppOK',None),('exec_AppOK',None),('wrun_AppOK',None),('raft_new_msgs',None),
            ('append_msgs_contiguous_from_new',None),('ready_msgs_ok','what the application is handed'),
            ('advance_append_msgs_ok',None),('advance_msgs_ok',None),('handed_append_msgs_contiguous_from_new',None)]:
    out+=emit('C13_',n,c)
out+='''Import Samples RepInvSamples AppSamples.

'''
for n,c in [('ex_election_trace','a three-voter node wins its election and queues one MsgAppend per peer'),('ex_election_appends',None)]:
    out+=emit('C13_',n,c)
open('/work/repinv-tools/c13_append.v','w').write(out)
