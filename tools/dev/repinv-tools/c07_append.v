

(* ====================================================================== *)
(* ==== node level: hand-out without a RepInv hypothesis ================ *)
(* ====================================================================== *)
(* C07_handout_contiguous above takes op_pre at every call, and op_pre contains the RaftLog
   representation invariant (handout_pre) at the hand-out points.  With
   M/RaftProofsRepInv.v the invariant comes from the start of the trace:
   * op_pre_node asks for the caller-side contract op_wf (see Props/C14.v, node level)
     and, at the hand-out points only, for handout_side = what is left of handout_pre once
     RepInv is removed (the cursor is a proper u64; nothing compacted beyond it);
   * op_pre_node2 drops the first half too: commit_since_index < u64::MAX is an invariant
     (CsiOK) when Config.applied < u64::MAX.  What remains at ready / advance /
     advance_append is "first index of the log <= cursor + 1".
   NOT PROVED: that remaining condition is not derived from the trace.  It needs
   "compaction stays at or below commit_since_index", which the model does not enforce
   (OSetStore may compact up to applied, and advance_apply_to may move applied beyond
   commit_since_index), and it fails transiently after a snapshot is restored between a
   ready and its advance (nothing is handed out then, but C07's handout_step asks for it). *)
From RV Require Import M.RaftProofsC15 M.RaftProofsC09 M.RaftProofsC08 M.RaftProofsC13 M.RaftProofsRepInv.

Theorem C07_handout_side_def :
  forall l since,
  handout_side l since <-> since < u64_max /\ ll_first (abs l) <= since + 1.
Proof. exact handout_side_def. Qed.
Print Assumptions C07_handout_side_def.

Theorem C07_op_pre_node_def :
  forall n o,
  op_pre_node n o <->
  op_wf n o /\
  match o with
  | OReady => handout_side (r_log (rn_raft n)) (ready_since n)
  | OAdvance rd | OAdvanceAppend rd =>
      forall n1 n2, commit_ready n rd = Ok n1 ->
                    rn_on_persist_ready n1 (rn_max_number n1) = Ok n2 ->
                    handout_side (r_log (rn_raft n2)) (rn_commit_since_index n2)
  | _ => True
  end.
Proof. exact op_pre_node_def. Qed.
Print Assumptions C07_op_pre_node_def.

Theorem C07_nrun_iff :
  forall n h n' h',
  nrun n h n' h' <->
  (n' = n /\ h' = h)
  \/ exists o n1 ot, op_pre_node n o /\ exec n o = Ok (n1, ot) /\ nrun n1 (hist_step h ot) n' h'.
Proof. exact nrun_iff. Qed.
Print Assumptions C07_nrun_iff.

(* op_pre follows from the node-level contract and the invariant *)
Theorem C07_op_pre_node_op_pre :
  forall rw n o,
  NLI rw n -> op_pre_node n o -> op_pre n o.
Proof. exact op_pre_node_op_pre. Qed.
Print Assumptions C07_op_pre_node_op_pre.

(* the hand-out history and the invariant along any trace *)
Theorem C07_handout_contiguous_node :
  forall rw n h n' h',
  NLI rw n -> Hist n h -> nrun n h n' h' -> Hist n' h' /\ NLI rw n'.
Proof. exact handout_contiguous_node. Qed.
Print Assumptions C07_handout_contiguous_node.

(* from RawNode::new *)
Theorem C07_handout_contiguous_from_new :
  forall c st sa dr n0 n h,
  rn_new c st sa dr = Ok (inr n0) -> SInv st -> trig_log st = false ->
  nrun n0 (c_applied c, []) n h -> Hist n h /\ NLogOK n.
Proof. exact handout_contiguous_from_new. Qed.
Print Assumptions C07_handout_contiguous_from_new.

(* the cursor bound is an invariant *)
Theorem C07_CsiOK_def :
  forall n,
  CsiOK n <-> rn_commit_since_index n < u64_max.
Proof. exact CsiOK_def. Qed.
Print Assumptions C07_CsiOK_def.

Theorem C07_gen_light_ready_CsiOK :
  forall rw n n' lr,
  gen_light_ready n = Ok (n', lr) -> NLI rw n -> CsiOK n -> CsiOK n'.
Proof. exact gen_light_ready_CsiOK. Qed.
Print Assumptions C07_gen_light_ready_CsiOK.

Theorem C07_rn_ready_CsiOK :
  forall rw n n' rd,
  rn_ready n = Ok (n', rd) -> NLI rw n -> CsiOK n -> CsiOK n'.
Proof. exact rn_ready_CsiOK. Qed.
Print Assumptions C07_rn_ready_CsiOK.

Theorem C07_exec_CsiOK :
  forall rw n o n' ot,
  exec n o = Ok (n', ot) -> op_wf n o -> NLI rw n -> CsiOK n -> CsiOK n'.
Proof. exact exec_CsiOK. Qed.
Print Assumptions C07_exec_CsiOK.

Theorem C07_op_pre_node2_def :
  forall n o,
  op_pre_node2 n o <->
  op_wf n o /\
  match o with
  | OReady => ll_first (abs (r_log (rn_raft n))) <= ready_since n + 1
  | OAdvance rd | OAdvanceAppend rd =>
      forall n1 n2, commit_ready n rd = Ok n1 ->
                    rn_on_persist_ready n1 (rn_max_number n1) = Ok n2 ->
                    ll_first (abs (r_log (rn_raft n2))) <= rn_commit_since_index n2 + 1
  | _ => True
  end.
Proof. exact op_pre_node2_def. Qed.
Print Assumptions C07_op_pre_node2_def.

Theorem C07_nrun2_iff :
  forall n h n' h',
  nrun2 n h n' h' <->
  (n' = n /\ h' = h)
  \/ exists o n1 ot, op_pre_node2 n o /\ exec n o = Ok (n1, ot) /\ nrun2 n1 (hist_step h ot) n' h'.
Proof. exact nrun2_iff. Qed.
Print Assumptions C07_nrun2_iff.

Theorem C07_op_pre_node2_node :
  forall rw n o,
  NLI rw n -> CsiOK n -> op_pre_node2 n o -> op_pre_node n o.
Proof. exact op_pre_node2_node. Qed.
Print Assumptions C07_op_pre_node2_node.

Theorem C07_handout_contiguous_node2 :
  forall rw n h n' h',
  NLI rw n -> CsiOK n -> Hist n h -> nrun2 n h n' h' -> Hist n' h' /\ NLI rw n' /\ CsiOK n'.
Proof. exact handout_contiguous_node2. Qed.
Print Assumptions C07_handout_contiguous_node2.

Theorem C07_handout_contiguous_from_new2 :
  forall c st sa dr n0 n h,
  rn_new c st sa dr = Ok (inr n0) -> SInv st -> trig_log st = false -> c_applied c < u64_max ->
  nrun2 n0 (c_applied c, []) n h -> Hist n h /\ NLogOK n /\ rn_commit_since_index n < u64_max.
Proof. exact handout_contiguous_from_new2. Qed.
Print Assumptions C07_handout_contiguous_from_new2.

Import RepInvSamples HandoutSamples.

(* non-vacuity: the single-voter run, one entry handed out *)
Theorem C07_ex_handout_run :
  nrun2 node0 (0, []) node3 (0, [e1]).
Proof. exact ex_handout_run. Qed.
Print Assumptions C07_ex_handout_run.

