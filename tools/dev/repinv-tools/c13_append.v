

(* ====================================================================== *)
(* ==== node level: contiguous MsgAppend batches without LogInv ========= *)
(* ====================================================================== *)
(* C13_append_entries_contiguous above takes LogInv (r_log r) at the call of
   maybe_send_append.  With M/RaftProofsRepInv.v (Props/C14.v, node level) the log
   invariant holds at every state of every contract-abiding trace from RawNode::new, and
   at every intermediate state inside a call, so the per-call statement becomes an
   invariant of the outbound queue:
     app_ok m  := m_type m = MsgAppend -> contiguous_from (m_index m + 1) (m_entries m)
     AppOK r   := Forall app_ok (r_msgs r)          NAppOK n := AppOK (rn_raft n)
   PROVED: AppOK is preserved by step, tick, on_persist_entries, commit_apply,
   apply_conf_change and every RawNode call (exec_AppOK, batching on or off), it holds
   after RawNode::new, hence every MsgAppend in the queue of any state of a trace, and
   every MsgAppend in the messages of any Ready / LightReady, is a contiguous batch.
   NOT PROVED at node level: from_log (the entries ARE the sender's log entries) and the
   size bound for queued messages - they hold when the message is built
   (C13_append_entries_contiguous) but the log may be truncated while the message waits
   in the queue. *)
From RV Require Import M.RaftLogProofs M.RaftProofsC15 M.RaftProofsC09 M.RaftProofsC08 M.RaftProofsC07
  M.RaftProofsRepInv.

(* LogOK in place of LogInv *)
Theorem C13_append_entries_contiguous_node :
  forall r to pr ae r' pr' m,
  LogOK r -> r_batch_append r = false ->
  maybe_send_append r to pr ae = Ok (r', pr', true) ->
  r_msgs r' = r_msgs r ++ [m] -> m_type m = MsgAppend ->
  contiguous_from (m_index m + 1) (m_entries m) /\
  from_log (r_log r) (m_index m + 1) (m_entries m) /\
  (r_max_msg_size r <> NO_LIMIT ->
     total_size entry_size (m_entries m) <= r_max_msg_size r \/ length (m_entries m) = 1%nat).
Proof. exact append_entries_contiguous_node. Qed.
Print Assumptions C13_append_entries_contiguous_node.

(* at any state of a trace from RawNode::new *)
Theorem C13_append_entries_contiguous_from_new :
  forall c st sa dr n0 n to pr ae r' pr' m,
  rn_new c st sa dr = Ok (inr n0) -> SInv st -> trig_log st = false -> wrun n0 n ->
  r_batch_append (rn_raft n) = false ->
  maybe_send_append (rn_raft n) to pr ae = Ok (r', pr', true) ->
  r_msgs r' = r_msgs (rn_raft n) ++ [m] -> m_type m = MsgAppend ->
  contiguous_from (m_index m + 1) (m_entries m) /\
  from_log (nlog n) (m_index m + 1) (m_entries m).
Proof. exact append_entries_contiguous_from_new. Qed.
Print Assumptions C13_append_entries_contiguous_from_new.

Theorem C13_app_ok_def :
  forall m,
  app_ok m <-> (m_type m = MsgAppend -> contiguous_from (m_index m + 1) (m_entries m)).
Proof. exact app_ok_def. Qed.
Print Assumptions C13_app_ok_def.

Theorem C13_AppOK_def :
  forall r,
  AppOK r <-> Forall app_ok (r_msgs r).
Proof. exact AppOK_def. Qed.
Print Assumptions C13_AppOK_def.

Theorem C13_NAppOK_def :
  forall n,
  NAppOK n <-> Forall app_ok (r_msgs (rn_raft n)).
Proof. exact NAppOK_def. Qed.
Print Assumptions C13_NAppOK_def.

Theorem C13_AL_def :
  forall r,
  AL r <-> LogInv (r_log r) /\ Forall app_ok (r_msgs r).
Proof. exact AL_def. Qed.
Print Assumptions C13_AL_def.

(* the outbound-queue invariant *)
Theorem C13_send_AppOK :
  forall r m r',
  send r m = Ok r' -> app_ok m -> AppOK r -> AppOK r'.
Proof. exact send_AppOK. Qed.
Print Assumptions C13_send_AppOK.

Theorem C13_maybe_send_append_AL :
  forall r to pr ae r' pr' b,
  maybe_send_append r to pr ae = Ok (r', pr', b) -> AL r -> AL r'.
Proof. exact maybe_send_append_AL. Qed.
Print Assumptions C13_maybe_send_append_AL.

Theorem C13_bcast_append_AL :
  forall r r',
  bcast_append r = Ok r' -> AL r -> AL r'.
Proof. exact bcast_append_AL. Qed.
Print Assumptions C13_bcast_append_AL.

Theorem C13_step_AppOK :
  forall rw r m r' c,
  step r m = Ok (r', c) -> msg_wf (last_index (r_log r)) m -> LI rw r -> AppOK r -> AppOK r'.
Proof. exact step_AppOK. Qed.
Print Assumptions C13_step_AppOK.

Theorem C13_tick_AppOK :
  forall rw r r' b,
  tick r = Ok (r', b) -> LI rw r -> room 1 r -> AppOK r -> AppOK r'.
Proof. exact tick_AppOK. Qed.
Print Assumptions C13_tick_AppOK.

Theorem C13_on_persist_entries_AppOK :
  forall rw r i t r',
  on_persist_entries r i t = Ok r' -> LI rw r -> AppOK r -> AppOK r'.
Proof. exact on_persist_entries_AppOK. Qed.
Print Assumptions C13_on_persist_entries_AppOK.

Theorem C13_commit_apply_AppOK :
  forall r a r',
  commit_apply r a = Ok r' -> AppOK r -> AppOK r'.
Proof. exact commit_apply_AppOK. Qed.
Print Assumptions C13_commit_apply_AppOK.

Theorem C13_raft_apply_conf_change_AppOK :
  forall rw r cc r' ocs,
  raft_apply_conf_change r cc = Ok (r', ocs) -> LI rw r -> AppOK r -> AppOK r'.
Proof. exact raft_apply_conf_change_AppOK. Qed.
Print Assumptions C13_raft_apply_conf_change_AppOK.

Theorem C13_exec_AppOK :
  forall rw n o n' ot,
  exec n o = Ok (n', ot) -> op_wf n o -> NLI rw n -> NAppOK n -> NAppOK n'.
Proof. exact exec_AppOK. Qed.
Print Assumptions C13_exec_AppOK.

Theorem C13_wrun_AppOK :
  forall rw n n',
  wrun n n' -> NLI rw n -> NAppOK n -> NAppOK n'.
Proof. exact wrun_AppOK. Qed.
Print Assumptions C13_wrun_AppOK.

Theorem C13_raft_new_msgs :
  forall c st sa dr r,
  raft_new c st sa dr = Ok (inr r) -> r_msgs r = [].
Proof. exact raft_new_msgs. Qed.
Print Assumptions C13_raft_new_msgs.

Theorem C13_append_msgs_contiguous_from_new :
  forall c st sa dr n0 n m,
  rn_new c st sa dr = Ok (inr n0) -> SInv st -> trig_log st = false -> wrun n0 n ->
  In m (r_msgs (rn_raft n)) -> m_type m = MsgAppend ->
  contiguous_from (m_index m + 1) (m_entries m).
Proof. exact append_msgs_contiguous_from_new. Qed.
Print Assumptions C13_append_msgs_contiguous_from_new.

(* what the application is handed *)
Theorem C13_ready_msgs_ok :
  forall n n1 rd,
  rn_ready n = Ok (n1, rd) -> NAppOK n -> Forall app_ok (lr_messages (rd_light rd)).
Proof. exact ready_msgs_ok. Qed.
Print Assumptions C13_ready_msgs_ok.

Theorem C13_advance_append_msgs_ok :
  forall rw n rd n' lr,
  rn_advance_append n rd = Ok (n', lr) -> advance_pre n -> NLI rw n -> NAppOK n ->
  Forall app_ok (lr_messages lr).
Proof. exact advance_append_msgs_ok. Qed.
Print Assumptions C13_advance_append_msgs_ok.

Theorem C13_advance_msgs_ok :
  forall rw n rd n' lr,
  rn_advance n rd = Ok (n', lr) -> advance_pre n -> NLI rw n -> NAppOK n ->
  Forall app_ok (lr_messages lr).
Proof. exact advance_msgs_ok. Qed.
Print Assumptions C13_advance_msgs_ok.

Theorem C13_handed_append_msgs_contiguous_from_new :
  forall c st sa dr n0 n,
  rn_new c st sa dr = Ok (inr n0) -> SInv st -> trig_log st = false -> wrun n0 n ->
  (forall n1 rd, rn_ready n = Ok (n1, rd) -> Forall app_ok (lr_messages (rd_light rd)))
  /\ (forall rd n1 lr, advance_pre n -> rn_advance_append n rd = Ok (n1, lr) -> Forall app_ok (lr_messages lr))
  /\ (forall rd n1 lr, advance_pre n -> rn_advance n rd = Ok (n1, lr) -> Forall app_ok (lr_messages lr)).
Proof. exact handed_append_msgs_contiguous_from_new. Qed.
Print Assumptions C13_handed_append_msgs_contiguous_from_new.

Import Samples RepInvSamples AppSamples.

(* a three-voter node wins its election and queues one MsgAppend per peer *)
Theorem C13_ex_election_trace :
  wrun f0 g2.
Proof. exact ex_election_trace. Qed.
Print Assumptions C13_ex_election_trace.

Theorem C13_ex_election_appends :
  is_leader (rn_raft g2) = true
    /\ map (fun m => (m_type m, m_to m, m_index m, map e_index (m_entries m)))
           (filter (fun m => m_type m =? MsgAppend) (r_msgs (rn_raft g2)))
       = [(MsgAppend, 2, 0, [1]); (MsgAppend, 3, 0, [1])]
    /\ NAppOK g2.
Proof. exact ex_election_appends. Qed.
Print Assumptions C13_ex_election_appends.

