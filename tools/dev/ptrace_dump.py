import sys
def dump(line, lo, hi):
    t=list(map(int,line.split()[1:]))
    i=0; k=t[i]; inc=t[i+1:i+1+k]; i+=1+k; k=t[i]; out=t[i+1:i+1+k]; i+=1+k; cnt=t[i]; i+=1
    print('inc',inc,'out',out,'events',cnt)
    n=0
    R={0:'F',1:'C',2:'L',3:'P'}
    while i<len(t):
        code=t[i]
        if code==1:
            nd,a,b,c,d,e,f=t[i+1:i+8]; i+=8
            if t[i]==0: g=None; i+=1
            else: g=t[i+1]; i+=2
            s='Call n%d (t%d v%d %s)->(t%d v%d %s) g=%s'%(nd,a,b,R[c],d,e,R[f],g)
        elif code==2: s='Ready n%d'%t[i+1]; i+=2
        elif code==3: s='FsyncHS n%d t%d v%d'%tuple(t[i+1:i+4]); i+=4
        elif code==4: s='Send kind%d %d->%d t%d'%tuple(t[i+1:i+5]); i+=5
        elif code==5: s='Crash n%d'%t[i+1]; i+=2
        elif code==6: s='Restart n%d t%d v%d'%tuple(t[i+1:i+4]); i+=4
        elif code==7:
            nd=t[i+1]; ln=t[i+2]; ents=[(t[i+3+2*j],t[i+4+2*j]) for j in range(ln)]; i+=3+2*ln; cm=t[i]; i+=1; na=t[i]; acks=t[i+1:i+1+na]; i+=1+na
            s='Log n%d %s commit=%d acks=%s'%(nd,ents,cm,acks)
        elif code==8:
            nd=t[i+1]; ln=t[i+2]; ents=[(t[i+3+2*j],t[i+4+2*j]) for j in range(ln)]; i+=3+2*ln
            s='Durable n%d %s'%(nd,ents)
        elif code==9: s='RelAck q%d t%d i%d'%tuple(t[i+1:i+4]); i+=4
        elif code==10: s='ReadReq c%d ctx%d idx%d'%(t[i+1],t[i+2],t[i+3]); i+=4
        elif code==11: s='HbAck q%d c%d t%d ctx%d'%(t[i+1],t[i+2],t[i+3],t[i+4]); i+=5
        elif code==12: s='Serve c%d ctx%d idx%d'%(t[i+1],t[i+2],t[i+3]); i+=4
        else: s='?? %d'%code; i+=1
        if lo<=n<=hi: print(n,s)
        n+=1
f,ln,lo,hi=sys.argv[1],int(sys.argv[2]),int(sys.argv[3]),int(sys.argv[4])
dump(open(f).read().splitlines()[ln-1],lo,hi)
