#!/bin/bash
# usage: verify_seed.sh <ID>  -- re-verifies a seeded change in its worktree /tmp/mut-<ID>
id=$1; wt=/tmp/mut-$id; export CARGO_TARGET_DIR=$wt/target CARGO_NET_OFFLINE=true
cd $wt || exit 2
how=$(python3 -c "import json;print(json.load(open('SEED/meta.json'))['how_to_run_demo'])" 2>/dev/null)
# where does the demo go?
if grep -q "mkdir -p tests" <<<"$how"; then dst=tests/demo_seed.rs; pkg=""; tst="--test demo_seed"; mkdir -p tests
else dst=harness/tests/demo_seed.rs; pkg="-p harness"; tst="--test demo_seed"; fi
git apply -R SEED/patch.diff || { echo "$id cannot unapply"; exit 2; }; cp SEED/demo.rs $dst
cargo test --offline $pkg $tst > SEED/verify_without.log 2>&1; a=$?
git apply SEED/patch.diff
cargo test --offline $pkg $tst > SEED/verify_with.log 2>&1; b=$?
rm -f $dst; rmdir tests 2>/dev/null
cargo test --workspace --offline > SEED/verify_suite.log 2>&1; c=$?
echo "$id demo_without_patch_exit=$a demo_with_patch_exit=$b suite_with_patch_exit=$c"
