import re
p='/verif/coq/_CoqProject'; s=open(p).read()
def fix(m):
    a=m.group(1).splitlines(); b=m.group(2).splitlines()
    out=[]
    for x in a+b:
        if x not in out: out.append(x)
    return "\n".join(out)+"\n"
s=re.sub(r"<<<<<<< HEAD\n(.*?)=======\n(.*?)>>>>>>> \w+\n", fix, s, flags=re.S)
# dedupe lines globally, keep first
seen=set(); out=[]
for l in s.splitlines():
    if l.strip() and l in seen: continue
    seen.add(l); out.append(l)
open(p,'w').write("\n".join(out)+"\n")
