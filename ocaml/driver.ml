(* Generic line driver for the extracted models.
   Each input line: <component> <decimal numbers...>; the output line is the
   model's result list in decimal.  All encoding/decoding of operations and
   states is done inside the extracted Gallina functions (Run/*.v); this file
   only converts decimal text <-> the extracted binary type [Model.n]. *)
open Model

let rec pos_of_int (i : int) : positive =
  if i = 1 then XH
  else if i land 1 = 0 then XO (pos_of_int (i lsr 1))
  else XI (pos_of_int (i lsr 1))

let n_of_int (i : int) : n = if i = 0 then N0 else Npos (pos_of_int i)

let ten = n_of_int 10

(* decimal string -> n ; fast path for values that fit an OCaml int *)
let n_of_string (s : string) : n =
  if String.length s <= 18 then n_of_int (int_of_string s)
  else begin
    let acc = ref N0 in
    String.iter (fun c ->
      acc := N.add (N.mul !acc ten) (n_of_int (Char.code c - 48))) s;
    !acc
  end

let rec pos_bits (p : positive) : int =
  match p with XH -> 1 | XO q | XI q -> 1 + pos_bits q

let rec int_of_pos (p : positive) : int =
  match p with
  | XH -> 1
  | XO q -> 2 * int_of_pos q
  | XI q -> 2 * int_of_pos q + 1

let rec string_of_n (x : n) : string =
  match x with
  | N0 -> "0"
  | Npos p ->
    if pos_bits p <= 61 then string_of_int (int_of_pos p)
    else begin
      let (q, r) = N.div_eucl x ten in
      string_of_n q ^ string_of_n r
    end

let split_ws (s : string) : string list =
  List.filter (fun t -> t <> "") (String.split_on_char ' ' s)

let table : (string * (n list -> n list)) list = Registry.table

let () =
  let buf = Buffer.create 65536 in
  (try
    while true do
      let line = input_line stdin in
      match split_ws line with
      | [] -> Buffer.add_char buf '\n'
      | name :: nums ->
        let f = try List.assoc name table
                with Not_found -> failwith ("unknown component " ^ name) in
        let out = f (List.map n_of_string nums) in
        List.iteri (fun i x ->
          if i > 0 then Buffer.add_char buf ' ';
          Buffer.add_string buf (string_of_n x)) out;
        Buffer.add_char buf '\n';
        if Buffer.length buf > 60000 then begin
          print_string (Buffer.contents buf); Buffer.clear buf end
    done
  with End_of_file -> ());
  print_string (Buffer.contents buf)
