(* name on the wire -> extracted run function *)
let table : (string * (Model.n list -> Model.n list)) list = [
  ("inflights", Model.run_inflights);
  ("quorum", Model.run_quorum);
  ("memstorage", Model.run_memstorage);
  ("confchange", Model.run_confchange);
  ("raftlog", Model.run_raftlog);
  ("node", Model.run_node);
  ("pelection", Model.run_pelection);
  ("plog", Model.run_plog);
  ("pread", Model.run_pread);
]
