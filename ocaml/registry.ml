(* name on the wire -> extracted run function *)
let table : (string * (Model.n list -> Model.n list)) list = [
  ("inflights", Model.run_inflights);
  ("quorum", Model.run_quorum);
  ("memstorage", Model.run_memstorage);
  ("node", Model.run_node);
  ("raftlog", Model.run_raftlog);
]
