(* name on the wire -> extracted run function *)
let table : (string * (Model.n list -> Model.n list)) list = [
  ("inflights", Model.run_inflights);
  ("confchange", Model.run_confchange);
]
