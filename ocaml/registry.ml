(* name on the wire -> extracted run function *)
let table : (string * (Model.n list -> Model.n list)) list = [
  ("inflights", Model.run_inflights);
  ("quorum", Model.run_quorum);
  ("raftlog", Model.run_raftlog);
]
