(* C12, part 1: the validity invariant, a set-algebra specification of the
   changer, and the proof that on valid trackers the model of the Rust code
   (M/ConfChange.v) computes exactly the specification (including the error
   code), and that the specification preserves validity. *)
From RV Require Import Base.Prelude Base.IdSet Base.IdSetProofs M.ConfChange.

Local Open Scope N_scope.

(* ------------------------------------------------------------------ *)
(* Validity                                                            *)
(* ------------------------------------------------------------------ *)

Definition is_member (c : conf) (x : N) : bool :=
  mem x (incoming c) || mem x (outgoing c) || mem x (learners c) || mem x (learners_next c).

(* [ValidB c p]: every invariant except "at least one voter"; it holds of the
   bootstrap tracker (empty configuration, no progress).  [p] is the set of ids
   with a Progress. *)
Record ValidB (c : conf) (p : idset) : Prop := mkValidB {
  (* representation: the five sets are sorted duplicate-free lists *)
  vb_si : sorted (incoming c) = true;
  vb_so : sorted (outgoing c) = true;
  vb_sl : sorted (learners c) = true;
  vb_sn : sorted (learners_next c) = true;
  vb_sp : sorted p = true;
  (* incoming ∩ learners = ∅ *)
  vb_il : forall x, mem x (incoming c) && mem x (learners c) = false;
  (* outgoing ∩ learners = ∅ *)
  vb_ol : forall x, mem x (outgoing c) && mem x (learners c) = false;
  (* learners_next ⊆ outgoing *)
  vb_no : forall x, mem x (learners_next c) && negb (mem x (outgoing c)) = false;
  (* learners_next ∩ learners = ∅ *)
  vb_nl : forall x, mem x (learners_next c) && mem x (learners c) = false;
  (* learners_next ∩ incoming = ∅ (not checked by check_invariants, but
     maintained by the changer and needed for the restore round trip) *)
  vb_ni : forall x, mem x (learners_next c) && mem x (incoming c) = false;
  (* progress is tracked for exactly the members *)
  vb_prs : forall x, mem x p = is_member c x;
  (* id 0 is never a member *)
  vb_zero : mem 0 p = false;
  (* non-joint => no staged learners, no auto_leave *)
  vb_nj : outgoing c = [] -> learners_next c = [] /\ auto_leave c = false
}.

Definition Valid (c : conf) (p : idset) : Prop := ValidB c p /\ incoming c <> [].

Lemma ValidB_empty : ValidB empty_conf [].
Proof. constructor; cbn; auto. Qed.

(* ------------------------------------------------------------------ *)
(* Tactics: decide membership formulas by case analysis                *)
(* ------------------------------------------------------------------ *)

Ltac mem_norm1 :=
  cbn beta iota delta [incoming outgoing learners learners_next auto_leave fst snd] in *;
  rewrite ?mem_nil, ?mem_insert, ?mem_remove, ?mem_union, ?mem_filter, ?mem_app, ?mem_of_list in *.
Ltac mem_norm := mem_norm1; repeat (progress mem_norm1).

Ltac case_eqb_on a b :=
  let e := fresh "e" in
  let E := fresh "E" in
  remember (N.eqb a b) as e eqn:E in *; symmetry in E; destruct e;
  [apply N.eqb_eq in E; subst | apply N.eqb_neq in E].

Ltac case_eqb :=
  match goal with
  | |- context [N.eqb ?a ?b] => case_eqb_on a b
  | H : context [N.eqb ?a ?b] |- _ => case_eqb_on a b
  end.

Ltac case_mem :=
  match goal with
  | |- context [mem ?a ?s] =>
      let b := fresh "b" in set (b := mem a s) in *; clearbody b; destruct b
  | H : context [mem ?a ?s] |- _ =>
      let b := fresh "b" in set (b := mem a s) in *; clearbody b; destruct b
  end.

Ltac absurd_hyp :=
  match goal with
  | H : true = false |- _ => discriminate H
  | H : false = true |- _ => discriminate H
  | H : ?a <> ?a |- _ => exfalso; apply H; reflexivity
  end.

Ltac bb :=
  cbn [andb orb negb] in *;
  first [ absurd_hyp | reflexivity | case_eqb; bb | case_mem; bb | idtac ].

(* instantiate the pointwise facts of a ValidB at [x] *)
Ltac inst V x :=
  pose proof (vb_il _ _ V x); pose proof (vb_ol _ _ V x); pose proof (vb_no _ _ V x);
  pose proof (vb_nl _ _ V x); pose proof (vb_ni _ _ V x); pose proof (vb_prs _ _ V x);
  unfold is_member in *.

Global Hint Resolve sorted_insert sorted_remove sorted_union sorted_filter sorted_of_list : srt.
Global Hint Resolve vb_si vb_so vb_sl vb_sn vb_sp : srt.

(* ------------------------------------------------------------------ *)
(* IncrChangeMap                                                       *)
(* ------------------------------------------------------------------ *)

Lemma last_change_push : forall x chs i t,
  last_change x (chs ++ [(i, t)]) = if i =? x then Some t else last_change x chs.
Proof.
  induction chs as [|[j u] chs IH]; intros i t; cbn [app last_change].
  - reflexivity.
  - rewrite IH. destruct (i =? x); [reflexivity|].
    destruct (last_change x chs); reflexivity.
Qed.

Lemma contains_push_add : forall base chs id x,
  contains base (chs ++ [(id, MAdd)]) x = (x =? id) || contains base chs x.
Proof.
  intros. unfold contains. rewrite last_change_push, (N.eqb_sym x id).
  destruct (id =? x); reflexivity.
Qed.

Lemma contains_push_remove : forall base chs id x,
  contains base (chs ++ [(id, MRemove)]) x = negb (x =? id) && contains base chs x.
Proof.
  intros. unfold contains. rewrite last_change_push, (N.eqb_sym x id).
  destruct (id =? x); reflexivity.
Qed.

Lemma contains_nil : forall base x, contains base [] x = mem x base.
Proof. reflexivity. Qed.

(* ProgressTracker::apply_conf realises IncrChangeMap::contains *)
Lemma apply_conf_contains : forall chs base x,
  mem x (apply_conf base chs) = contains base chs x.
Proof.
  intros chs. pattern chs. apply rev_ind.
  - reflexivity.
  - intros [id t] l IH base x. unfold apply_conf in *. rewrite fold_left_app. cbn [fold_left].
    unfold apply_change at 1. cbn [fst snd]. destruct t.
    + rewrite contains_push_add, mem_insert, IH. reflexivity.
    + rewrite contains_push_remove, mem_remove, IH. reflexivity.
Qed.

Lemma apply_conf_sorted : forall chs base, sorted base = true -> sorted (apply_conf base chs) = true.
Proof.
  induction chs as [|[id t] chs IH]; intros base Hb; cbn [apply_conf fold_left]; [assumption|].
  apply IH. unfold apply_change. cbn [fst snd]. destruct t; eauto with srt.
Qed.

(* ------------------------------------------------------------------ *)
(* check_invariants accepts every valid tracker                        *)
(* ------------------------------------------------------------------ *)

Lemma check_learners_ok : forall c p base chs,
  ValidB c p -> (forall x, contains base chs x = mem x p) ->
  forall l, (forall x, mem x l = true -> mem x (learners c) = true) ->
  check_learners c base chs l = ROk tt.
Proof.
  intros c p base chs V Hc. induction l as [|id l IH]; intros Hl; cbn [check_learners].
  - reflexivity.
  - assert (Hid : mem id (learners c) = true).
    { apply Hl. cbn [mem]. rewrite N.eqb_refl. reflexivity. }
    rewrite Hc. inst V id. rewrite Hid in *.
    destruct (mem id p) eqn:E1, (mem id (outgoing c)) eqn:E2, (mem id (incoming c)) eqn:E3;
      cbn [andb orb negb] in *; try discriminate.
    apply IH. intros x Hx. apply Hl. cbn [mem]. rewrite Hx. apply orb_true_r.
Qed.

Lemma check_learners_next_ok : forall c p base chs,
  ValidB c p -> (forall x, contains base chs x = mem x p) ->
  forall l, (forall x, mem x l = true -> mem x (learners_next c) = true) ->
  check_learners_next c base chs l = ROk tt.
Proof.
  intros c p base chs V Hc. induction l as [|id l IH]; intros Hl; cbn [check_learners_next].
  - reflexivity.
  - assert (Hid : mem id (learners_next c) = true).
    { apply Hl. cbn [mem]. rewrite N.eqb_refl. reflexivity. }
    rewrite Hc. inst V id. rewrite Hid in *.
    destruct (mem id p) eqn:E1, (mem id (outgoing c)) eqn:E2;
      cbn [andb orb negb] in *; try discriminate;
      try (destruct (mem id (incoming c)); discriminate).
    apply IH. intros x Hx. apply Hl. cbn [mem]. rewrite Hx. apply orb_true_r.
Qed.

Lemma check_invariants_ok : forall c p base chs,
  ValidB c p -> (forall x, contains base chs x = mem x p) ->
  check_invariants c base chs = ROk tt.
Proof.
  intros c p base chs V Hc. unfold check_invariants.
  assert (Hv : forallb (contains base chs) (incoming c ++ outgoing c) = true).
  { apply forallb_mem. intros x Hx. rewrite Hc. inst V x. mem_norm. bb. }
  rewrite Hv. cbn [negb].
  rewrite (check_learners_ok c p base chs V Hc) by auto. cbn [rbind].
  rewrite (check_learners_next_ok c p base chs V Hc) by auto. cbn [rbind].
  unfold joint. destruct (is_empty (outgoing c)) eqn:E; cbn [negb]; [|reflexivity].
  apply is_empty_nil in E. destruct (vb_nj _ _ V E) as [H1 H2]. rewrite H1, H2. reflexivity.
Qed.

(* ------------------------------------------------------------------ *)
(* Set-algebra specification of one change                             *)
(* ------------------------------------------------------------------ *)

Definition spec_one (st : conf * idset) (cc : ccsingle) : conf * idset :=
  let '(c, p) := st in
  let '(ty, id) := cc in
  if id =? 0 then (c, p)
  else match ty with
       | AddNode =>
           (mkConf (insert id (incoming c)) (outgoing c)
                   (remove id (learners c)) (remove id (learners_next c)) (auto_leave c),
            insert id p)
       | AddLearnerNode =>
           if mem id (outgoing c)
           then (mkConf (remove id (incoming c)) (outgoing c)
                        (learners c) (insert id (learners_next c)) (auto_leave c),
                 insert id p)
           else (mkConf (remove id (incoming c)) (outgoing c)
                        (insert id (learners c)) (learners_next c) (auto_leave c),
                 insert id p)
       | RemoveNode =>
           (mkConf (remove id (incoming c)) (outgoing c)
                   (remove id (learners c)) (remove id (learners_next c)) (auto_leave c),
            if mem id (outgoing c) then p else remove id p)
       end.

Definition spec_loop (st : conf * idset) (ccs : list ccsingle) : conf * idset :=
  fold_left spec_one ccs st.

Lemma spec_one_outgoing : forall c p cc, outgoing (fst (spec_one (c, p) cc)) = outgoing c.
Proof.
  intros c p [ty id]. cbn [spec_one]. destruct (id =? 0); [reflexivity|].
  destruct ty; try reflexivity. destruct (mem id (outgoing c)); reflexivity.
Qed.

Lemma spec_one_auto_leave : forall c p cc, auto_leave (fst (spec_one (c, p) cc)) = auto_leave c.
Proof.
  intros c p [ty id]. cbn [spec_one]. destruct (id =? 0); [reflexivity|].
  destruct ty; try reflexivity. destruct (mem id (outgoing c)); reflexivity.
Qed.

Lemma spec_loop_outgoing : forall ccs c p, outgoing (fst (spec_loop (c, p) ccs)) = outgoing c.
Proof.
  induction ccs as [|cc ccs IH]; intros c p; cbn [spec_loop fold_left]; [reflexivity|].
  destruct (spec_one (c, p) cc) as [c1 p1] eqn:E. fold (spec_loop (c1, p1) ccs).
  rewrite IH. change c1 with (fst (c1, p1)). rewrite <- E. apply spec_one_outgoing.
Qed.

Lemma spec_loop_auto_leave : forall ccs c p, auto_leave (fst (spec_loop (c, p) ccs)) = auto_leave c.
Proof.
  induction ccs as [|cc ccs IH]; intros c p; cbn [spec_loop fold_left]; [reflexivity|].
  destruct (spec_one (c, p) cc) as [c1 p1] eqn:E. fold (spec_loop (c1, p1) ccs).
  rewrite IH. change c1 with (fst (c1, p1)). rewrite <- E. apply spec_one_auto_leave.
Qed.

(* the specification preserves validity *)
Lemma spec_one_valid : forall c p cc,
  ValidB c p -> ValidB (fst (spec_one (c, p) cc)) (snd (spec_one (c, p) cc)).
Proof.
  intros c p [ty id] V. cbn [spec_one]. destruct (N.eqb_spec id 0) as [->|Hid]; [exact V|].
  assert (Hz : forall s, mem 0 (insert id s) = mem 0 s).
  { intros s. rewrite mem_insert. destruct (N.eqb_spec 0 id); [congruence|reflexivity]. }
  pose proof (vb_zero _ _ V) as Hz0.
  destruct ty.
  - (* AddNode *)
    constructor; cbn [fst snd incoming outgoing learners learners_next auto_leave].
    1-5: eauto with srt.
    1-6: intros x; inst V x; mem_norm; bb.
    + rewrite Hz. assumption.
    + intros Ho. destruct (vb_nj _ _ V Ho) as [H1 H2]. rewrite H1. auto.
  - (* RemoveNode *)
    constructor; cbn [fst snd incoming outgoing learners learners_next auto_leave].
    1-4: eauto with srt.
    + destruct (mem id (outgoing c)); eauto with srt.
    + intros x; inst V x; mem_norm; bb.
    + intros x; inst V x; mem_norm; bb.
    + intros x; inst V x; mem_norm; bb.
    + intros x; inst V x; mem_norm; bb.
    + intros x; inst V x; mem_norm; bb.
    + intros x; inst V x; inst V id. destruct (mem id (outgoing c)) eqn:E; mem_norm; bb.
    + destruct (mem id (outgoing c)); [assumption|]. rewrite mem_remove, Hz0. apply andb_false_r.
    + intros Ho. destruct (vb_nj _ _ V Ho) as [H1 H2]. rewrite H1. auto.
  - (* AddLearnerNode *)
    destruct (mem id (outgoing c)) eqn:E.
    + constructor; cbn [fst snd incoming outgoing learners learners_next auto_leave].
      1-5: eauto with srt.
      1-6: intros x; inst V x; inst V id; mem_norm; bb.
      * rewrite Hz. assumption.
      * intros Ho. rewrite Ho in E. discriminate.
    + constructor; cbn [fst snd incoming outgoing learners learners_next auto_leave].
      1-5: eauto with srt.
      1-6: intros x; inst V x; inst V id; mem_norm; bb.
      * rewrite Hz. assumption.
      * exact (vb_nj _ _ V).
Qed.

Lemma spec_loop_valid : forall ccs c p,
  ValidB c p -> ValidB (fst (spec_loop (c, p) ccs)) (snd (spec_loop (c, p) ccs)).
Proof.
  induction ccs as [|cc ccs IH]; intros c p V; cbn [spec_loop fold_left]; [exact V|].
  pose proof (spec_one_valid c p cc V) as V1.
  destruct (spec_one (c, p) cc) as [c1 p1]. apply IH. exact V1.
Qed.

(* ------------------------------------------------------------------ *)
(* The model refines the specification                                 *)
(* ------------------------------------------------------------------ *)

Ltac srt_facts V :=
  pose proof (vb_si _ _ V); pose proof (vb_so _ _ V); pose proof (vb_sl _ _ V);
  pose proof (vb_sn _ _ V); pose proof (vb_sp _ _ V);
  cbn [incoming outgoing learners learners_next auto_leave fst snd] in *.

Ltac conf_eq V id :=
  unfold set_incoming, set_learners;
  cbn [incoming outgoing learners learners_next auto_leave fst snd] in *;
  f_equal; try reflexivity;
  (apply sorted_ext; [eauto with srt | eauto with srt |
    let x := fresh "x" in intros x; inst V x; inst V id; mem_norm; bb]).

Lemma apply_one_refines : forall base c chs p cc,
  ValidB c p -> (forall x, contains base chs x = mem x p) ->
  fst (apply_one base (c, chs) cc) = fst (spec_one (c, p) cc) /\
  (forall x, contains base (snd (apply_one base (c, chs) cc)) x
             = mem x (snd (spec_one (c, p) cc))).
Proof.
  intros base c chs p [ty id] V Hc. cbn [apply_one spec_one].
  destruct c as [ci co cl cn ca]. srt_facts V.
  destruct (N.eqb_spec id 0) as [->|Hid]; [split; [reflexivity|exact Hc]|].
  destruct ty.
  - (* AddNode *)
    unfold make_voter, init_progress. cbn [incoming outgoing learners learners_next auto_leave]. rewrite Hc.
    destruct (mem id p) eqn:Hp; cbn [negb fst snd set_incoming
      incoming outgoing learners learners_next auto_leave].
    + split; [conf_eq V id|].
      intros x. rewrite Hc, mem_insert. bb.
    + split; [conf_eq V id|].
      intros x. rewrite contains_push_add, Hc, mem_insert. reflexivity.
  - (* RemoveNode *)
    unfold remove_node. cbn [incoming outgoing learners learners_next auto_leave]. rewrite Hc.
    destruct (mem id p) eqn:Hp; cbn [negb fst snd].
    + split; [reflexivity|].
      intros x. destruct (mem id co); cbn [negb].
      * apply Hc.
      * rewrite contains_push_remove, Hc, mem_remove. reflexivity.
    + split.
      * conf_eq V id.
      * intros x. rewrite Hc. destruct (mem id co); [reflexivity|].
        rewrite mem_remove. bb.
  - (* AddLearnerNode *)
    unfold make_learner, init_progress. cbn [incoming outgoing learners learners_next auto_leave]. rewrite Hc.
    destruct (mem id p) eqn:Hp; cbn [negb].
    + destruct (mem id cl) eqn:Hl.
      * (* already a learner: nothing changes *)
        inst V id. mem_norm.
        destruct (mem id co) eqn:Ho; [bb|].
        cbn [fst snd]. split.
        -- conf_eq V id.
        -- intros x. rewrite Hc, mem_insert. bb.
      * destruct (mem id co) eqn:Ho; cbn [fst snd].
        -- split; [conf_eq V id|]. intros x. rewrite Hc, mem_insert. bb.
        -- split; [conf_eq V id|]. intros x. rewrite Hc, mem_insert. bb.
    + (* untracked: init_progress as learner *)
      inst V id. mem_norm.
      destruct (mem id co) eqn:Ho; [bb|].
      cbn [fst snd set_learners]. split.
      * conf_eq V id.
      * intros x. rewrite contains_push_add, Hc, mem_insert. reflexivity.
Qed.

Lemma apply_loop_refines : forall base ccs c chs p,
  ValidB c p -> (forall x, contains base chs x = mem x p) ->
  fst (apply_loop base (c, chs) ccs) = fst (spec_loop (c, p) ccs) /\
  (forall x, contains base (snd (apply_loop base (c, chs) ccs)) x
             = mem x (snd (spec_loop (c, p) ccs))).
Proof.
  intros base. induction ccs as [|cc ccs IH]; intros c chs p V Hc;
    cbn [apply_loop spec_loop fold_left].
  - split; [reflexivity|exact Hc].
  - destruct (apply_one_refines base c chs p cc V Hc) as [H1 H2].
    pose proof (spec_one_valid c p cc V) as V1.
    destruct (apply_one base (c, chs) cc) as [c1 chs1].
    destruct (spec_one (c, p) cc) as [c2 p2]. cbn [fst snd] in *. subst c2.
    apply (IH c1 chs1 p2 V1 H2).
Qed.
