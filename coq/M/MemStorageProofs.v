(* Theorems about M/MemStorage.v: representation invariant, refinement of every
   mutator to a list-level specification, characterisation of every Storage
   query, the snapshot specification and the history theorem. *)
From RV Require Import Base.Prelude M.Util M.UtilProofs M.MemStorage.

Local Open Scope N_scope.

(* ================================================================== *)
(* Contiguous entry lists                                              *)
(* ================================================================== *)

Fixpoint contiguous_from (f : N) (l : list entry) : Prop :=
  match l with
  | [] => True
  | e :: t => e_index e = f /\ contiguous_from (f + 1) t
  end.

Lemma contig_nth : forall l f k e,
    contiguous_from f l -> nth_error l k = Some e -> e_index e = f + N.of_nat k.
Proof.
  induction l as [|a t IH]; intros f k e Hc Hn.
  - destruct k; discriminate.
  - destruct Hc as [Ha Ht]. destruct k as [|k]; cbn [nth_error] in Hn.
    + inversion Hn; subst. lia.
    + rewrite (IH _ _ _ Ht Hn). lia.
Qed.

Lemma contig_last : forall l f d,
    contiguous_from f l -> l <> [] ->
    List.last (map e_index l) d = f + N.of_nat (length l) - 1.
Proof.
  induction l as [|a t IH]; intros f d Hc Hne; [congruence|].
  destruct Hc as [Ha Ht]. destruct t as [|b t'].
  - cbn. lia.
  - change (List.last (map e_index (a :: b :: t')) d)
      with (List.last (map e_index (b :: t')) d).
    rewrite (IH (f + 1) d Ht ltac:(discriminate)).
    cbn [length]. lia.
Qed.

Lemma contig_app : forall a b f,
    contiguous_from f a ->
    contiguous_from (f + N.of_nat (length a)) b ->
    contiguous_from f (a ++ b).
Proof.
  induction a as [|x a IH]; intros b f Ha Hb; cbn [app length] in *.
  - replace (f + N.of_nat 0) with f in Hb by lia. exact Hb.
  - destruct Ha as [Hx Ha]. split; [exact Hx|].
    apply IH; [exact Ha|].
    replace (f + 1 + N.of_nat (length a)) with (f + N.of_nat (S (length a))) by lia.
    exact Hb.
Qed.

Lemma contig_firstn : forall l f k,
    contiguous_from f l -> contiguous_from f (firstn k l).
Proof.
  induction l as [|x l IH]; intros f k Hc; destruct k; cbn [firstn]; try exact I.
  destruct Hc as [Hx Hl]. split; [exact Hx|]. apply IH; exact Hl.
Qed.

Lemma contig_skipn : forall l f k,
    contiguous_from f l -> contiguous_from (f + N.of_nat k) (skipn k l).
Proof.
  induction l as [|x l IH]; intros f k Hc; destruct k; cbn [skipn]; try exact I.
  - replace (f + N.of_nat 0) with f by lia. exact Hc.
  - destruct Hc as [Hx Hl].
    replace (f + N.of_nat (S k)) with (f + 1 + N.of_nat k) by lia.
    apply IH; exact Hl.
Qed.

Lemma contig_index_ge : forall l f e,
    contiguous_from f l -> In e l -> f <= e_index e.
Proof.
  intros l f e Hc Hin. apply In_nth_error in Hin. destruct Hin as [k Hk].
  rewrite (contig_nth _ _ _ _ Hc Hk). lia.
Qed.

Lemma skipn_cons_nth : forall {A} (l : list A) k,
    (k < length l)%nat ->
    exists e t, skipn k l = e :: t /\ nth_error l k = Some e.
Proof.
  induction l as [|x l IH]; intros k Hk; cbn [length] in Hk; [lia|].
  destruct k as [|k]; cbn [skipn nth_error].
  - eauto.
  - apply IH. lia.
Qed.

(* ================================================================== *)
(* Representation invariant and abstraction                            *)
(* ================================================================== *)

(* first index, as a pure function (no overflow check) *)
Definition first_of (m : mem) : N :=
  match entries m with
  | e :: _ => e_index e
  | [] => snap_index m + 1
  end.

(* one past the last index *)
Definition next_of (m : mem) : N := first_of m + N.of_nat (length (entries m)).

(* The invariant that actually holds of MemStorageCore:
   - entry k has index first + k (first = entries[0].index);
   - the snapshot point is strictly below the first index (equal to first - 1
     when no entry is held, by definition of first_index; compaction moves
     first up without touching snapshot_metadata, so first - 1 > snapshot index
     is possible);
   - last + 1 fits in a u64.
   Terms are NOT constrained (the storage never checks them). *)
Definition RepInv (m : mem) : Prop :=
  contiguous_from (first_of m) (entries m)
  /\ snap_index m < first_of m
  /\ next_of m <= u64_max.

Definition entry_at (m : mem) (i : N) : option entry :=
  if i <? first_of m then None
  else nth_error (entries m) (N.to_nat (i - first_of m)).

Lemma first_index_ok : forall m, RepInv m -> first_index m = Ok (first_of m).
Proof.
  intros m (Hc & Hs & Hb). unfold first_index, next_of in *. unfold first_of in *.
  destruct (entries m) as [|e t]; [|reflexivity].
  cbn in Hb.
  destruct (snap_index m =? u64_max) eqn:E; [lia|reflexivity].
Qed.

Lemma last_index_next : forall m, RepInv m -> last_index m + 1 = next_of m.
Proof.
  intros m (Hc & Hs & Hb). unfold last_index, next_of in *. unfold first_of in *.
  destruct (entries m) as [|e t] eqn:El.
  - cbn. lia.
  - rewrite (contig_last (e :: t) (e_index e) (snap_index m) Hc ltac:(discriminate)).
    cbn [length]. lia.
Qed.

Lemma last_index_lt_max : forall m, RepInv m -> last_index m < u64_max.
Proof.
  intros m H. pose proof (last_index_next m H). destruct H as (_ & _ & Hb). lia.
Qed.

Lemma first_pos : forall m, RepInv m -> 1 <= first_of m.
Proof. intros m (_ & Hs & _). lia. Qed.

Lemma first_le_next : forall m, first_of m <= next_of m.
Proof. intros m. unfold next_of. lia. Qed.

Lemma entries_head_index : forall m e t,
    entries m = e :: t -> e_index e = first_of m.
Proof. intros m e t H. unfold first_of. rewrite H. reflexivity. Qed.

Lemma entries_nil_next : forall m, entries m = [] -> next_of m = first_of m.
Proof. intros m H. unfold next_of. rewrite H. cbn [length]. lia. Qed.

Lemma entries_nonempty_lt : forall m, entries m <> [] -> first_of m < next_of m.
Proof.
  intros m H. unfold next_of. destruct (entries m); [congruence|]. cbn [length]. lia.
Qed.

Lemma entry_at_index : forall m i e,
    RepInv m -> entry_at m i = Some e -> e_index e = i.
Proof.
  intros m i e (Hc & _) H. unfold entry_at in H.
  destruct (i <? first_of m) eqn:E; [discriminate|].
  rewrite (contig_nth _ _ _ _ Hc H). lia.
Qed.

Lemma entry_at_some_iff : forall m i,
    (exists e, entry_at m i = Some e) <-> first_of m <= i < next_of m.
Proof.
  intros m i. unfold entry_at, next_of. split.
  - intros [e H]. destruct (i <? first_of m) eqn:E; [discriminate|].
    assert (Hlt : (N.to_nat (i - first_of m) < length (entries m))%nat).
    { apply nth_error_Some. congruence. }
    lia.
  - intros [H1 H2]. destruct (i <? first_of m) eqn:E; [lia|].
    destruct (nth_error (entries m) (N.to_nat (i - first_of m))) eqn:En; [eauto|].
    apply nth_error_None in En. lia.
Qed.

Lemma new_RepInv : RepInv new.
Proof. unfold RepInv, next_of, first_of, new, u64_max; cbn. repeat split; lia. Qed.

(* only [entries] and [snap_index] matter *)
Lemma RepInv_ext : forall m m',
    entries m' = entries m -> snap_index m' = snap_index m -> RepInv m -> RepInv m'.
Proof.
  intros m m' He Hs H. unfold RepInv, next_of, first_of in *.
  rewrite He, Hs. exact H.
Qed.

(* every stored entry has a positive encoded size *)
Lemma stored_entry_size_pos : forall m e,
    RepInv m -> In e (entries m) -> 0 < entry_size e.
Proof.
  intros m e H Hin. apply entry_size_pos.
  pose proof (first_pos m H) as Hf. destruct H as (Hc & _).
  pose proof (contig_index_ge _ _ _ Hc Hin). lia.
Qed.

(* ================================================================== *)
(* Specification state                                                 *)
(* ================================================================== *)

(* A snapshot point followed by contiguous entries starting at [sp_first]
   (> sp_snap_i), plus the stored hard state and configuration. *)
Record spec := mkSpec {
  sp_snap_i : N;
  sp_snap_t : N;
  sp_first : N;
  sp_ents : list entry;
  sp_hs : hard_state;
  sp_cs : conf_state
}.

Definition abs (m : mem) : spec :=
  mkSpec (snap_index m) (snap_term m) (first_of m) (entries m) (hs m) (cs m).

Definition sp_next (s : spec) : N := sp_first s + N.of_nat (length (sp_ents s)).

Definition sp_entry_at (s : spec) (i : N) : option entry :=
  if i <? sp_first s then None
  else nth_error (sp_ents s) (N.to_nat (i - sp_first s)).

Definition spec_wf (s : spec) : Prop :=
  contiguous_from (sp_first s) (sp_ents s)
  /\ sp_snap_i s < sp_first s
  /\ (sp_ents s = [] -> sp_first s = sp_snap_i s + 1)
  /\ sp_next s <= u64_max.

Lemma abs_wf : forall m, RepInv m -> spec_wf (abs m).
Proof.
  intros m (Hc & Hs & Hb). unfold spec_wf, abs, sp_next; cbn.
  repeat split; try assumption.
  intros He. unfold first_of. rewrite He. reflexivity.
Qed.

Lemma sp_entry_at_abs : forall m i, sp_entry_at (abs m) i = entry_at m i.
Proof. reflexivity. Qed.

Lemma sp_next_abs : forall m, sp_next (abs m) = next_of m.
Proof. reflexivity. Qed.

(* the commit index designates the snapshot point or a held entry: exactly the
   condition under which the private snapshot() does not panic *)
Definition commit_ok (s : spec) : Prop :=
  hs_commit (sp_hs s) = sp_snap_i s
  \/ sp_first s <= hs_commit (sp_hs s) < sp_next s.

Definition sp_set_hs (s : spec) (h : hard_state) : spec :=
  mkSpec (sp_snap_i s) (sp_snap_t s) (sp_first s) (sp_ents s) h (sp_cs s).
Definition sp_set_cs (s : spec) (c : conf_state) : spec :=
  mkSpec (sp_snap_i s) (sp_snap_t s) (sp_first s) (sp_ents s) (sp_hs s) c.

Definition spec_commit_to (s : spec) (i : N) : spec :=
  match sp_entry_at s i with
  | Some e => sp_set_hs s (mkHS (e_term e) (hs_vote (sp_hs s)) i)
  | None => s
  end.

(* list-level effect of every operation *)
Definition spec_step (s : spec) (o : op) : spec :=
  match o with
  | OSetHardState h => sp_set_hs s h
  | OSetCommit c => sp_set_hs s (mkHS (hs_term (sp_hs s)) (hs_vote (sp_hs s)) c)
  | OCommitTo i => spec_commit_to s i
  | OSetConfState c => sp_set_cs s c
  | OApplySnapshot sn =>
      if s_index sn <? sp_first s then s
      else mkSpec (s_index sn) (s_term sn) (s_index sn + 1) []
                  (mkHS (N.max (hs_term (sp_hs s)) (s_term sn)) (hs_vote (sp_hs s)) (s_index sn))
                  (s_cs sn)
  | OCompact ci =>
      if ci <=? sp_first s then s
      else mkSpec (sp_snap_i s) (sp_snap_t s) ci
                  (skipn (N.to_nat (ci - sp_first s)) (sp_ents s)) (sp_hs s) (sp_cs s)
  | OAppend ents =>
      match ents with
      | [] => s
      | n0 :: _ =>
          mkSpec (sp_snap_i s) (sp_snap_t s) (sp_first s)
                 (firstn (N.to_nat (e_index n0 - sp_first s)) (sp_ents s) ++ ents)
                 (sp_hs s) (sp_cs s)
      end
  | OCommitToConf i c =>
      let s1 := spec_commit_to s i in
      match c with Some c => sp_set_cs s1 c | None => s1 end
  | OInitConf c => sp_set_cs s c
  | _ => s
  end.

(* Documented preconditions, on the specification state.
   append: entries contiguous, not below first, no gap (storage.rs "Panics if
   ents contains compacted entries, or there's a gap"), indexes fit a u64;
   compact: index at most the last index (the doc asks for <= RaftLog.applied,
   which is <= last; so compaction never empties the log);
   commit_to: the entry exists;  apply_snapshot: any (index + 1 fits a u64);
   entries: high <= last + 1, low <= high;
   snapshot: the commit index designates the snapshot point or a held entry. *)
Definition spre (s : spec) (o : op) : Prop :=
  match o with
  | OCommitTo i | OCommitToConf i _ => sp_first s <= i < sp_next s
  | OApplySnapshot sn => s_index sn < u64_max
  | OCompact ci => ci <= sp_first s \/ ci < sp_next s
  | OAppend ents =>
      match ents with
      | [] => True
      | n0 :: _ =>
          contiguous_from (e_index n0) ents
          /\ sp_first s <= e_index n0 <= sp_next s
          /\ e_index n0 + N.of_nat (length ents) <= u64_max
      end
  | OInitConf _ => cs_eqb (sp_cs s) cs_default = true
  | QEntries lo hi _ _ =>
      lo < sp_first s \/ lo <= hi <= sp_next s
  | QSnapshot _ _ => commit_ok s
  | _ => True
  end.

(* ================================================================== *)
(* Mutators                                                            *)
(* ================================================================== *)

Definition first_of' (sn : N) (l : list entry) : N :=
  match l with e :: _ => e_index e | [] => sn + 1 end.

Lemma first_of_eq : forall m, first_of m = first_of' (snap_index m) (entries m).
Proof. reflexivity. Qed.

Lemma first_of'_truncate_app : forall sn l n0 t,
    first_of' sn l <= e_index n0 ->
    e_index n0 <= first_of' sn l + N.of_nat (length l) ->
    first_of' sn (firstn (N.to_nat (e_index n0 - first_of' sn l)) l ++ n0 :: t)
    = first_of' sn l.
Proof.
  intros sn l n0 t H1 H2. destruct l as [|e l'].
  - rewrite firstn_nil. cbn [app first_of' length] in *. lia.
  - cbn [first_of' length] in *.
    destruct (N.to_nat (e_index n0 - e_index e)) eqn:D; cbn [firstn app first_of']; lia.
Qed.

(* ---------- append ---------- *)
Lemma append_nil : forall m, append m [] = Ok m.
Proof. reflexivity. Qed.

Lemma append_ok : forall m n0 t,
    RepInv m ->
    contiguous_from (e_index n0) (n0 :: t) ->
    first_of m <= e_index n0 <= next_of m ->
    e_index n0 + N.of_nat (length (n0 :: t)) <= u64_max ->
    let m' := set_entries m
                (firstn (N.to_nat (e_index n0 - first_of m)) (entries m) ++ n0 :: t) in
    append m (n0 :: t) = Ok m' /\ RepInv m' /\ first_of m' = first_of m.
Proof.
  intros m n0 t HI Hc [Hlo Hhi] Hb m'.
  pose proof (first_index_ok m HI) as Hf.
  pose proof (last_index_next m HI) as Hl.
  pose proof (last_index_lt_max m HI) as Hlm.
  assert (Hfo : first_of m' = first_of m).
  { subst m'. rewrite !first_of_eq. cbn [entries set_entries snap_index].
    apply first_of'_truncate_app; rewrite <- first_of_eq; [exact Hlo|exact Hhi]. }
  assert (Hd : (N.to_nat (e_index n0 - first_of m) <= length (entries m))%nat).
  { unfold next_of in Hhi. lia. }
  split; [|split; [|exact Hfo]].
  - unfold append. rewrite Hf. cbn [bind].
    destruct (e_index n0 <? first_of m) eqn:E1; [lia|].
    destruct (last_index m =? u64_max) eqn:E2; [lia|].
    destruct (last_index m + 1 <? e_index n0) eqn:E3; [lia|].
    destruct (length (entries m) <? N.to_nat (e_index n0 - first_of m))%nat eqn:E4; [lia|].
    reflexivity.
  - destruct HI as (HIc & HIs & HIb).
    unfold RepInv, next_of. rewrite Hfo. subst m'. cbn [entries set_entries snap_index].
    rewrite app_length, firstn_length_le by exact Hd.
    split; [|split; [exact HIs|lia]].
    apply contig_app; [apply contig_firstn; exact HIc|].
    rewrite firstn_length_le by exact Hd.
    replace (first_of m + N.of_nat (N.to_nat (e_index n0 - first_of m))) with (e_index n0) by lia.
    exact Hc.
Qed.

Lemma append_panics_compacted : forall m n0 t,
    RepInv m -> e_index n0 < first_of m ->
    append m (n0 :: t) = Panic site_append_compacted.
Proof.
  intros m n0 t HI H. unfold append. rewrite (first_index_ok m HI). cbn [bind].
  destruct (e_index n0 <? first_of m) eqn:E1; [reflexivity|lia].
Qed.

Lemma append_panics_gap : forall m n0 t,
    RepInv m -> next_of m < e_index n0 ->
    append m (n0 :: t) = Panic site_append_gap.
Proof.
  intros m n0 t HI H. unfold append. rewrite (first_index_ok m HI). cbn [bind].
  pose proof (last_index_next m HI). pose proof (last_index_lt_max m HI).
  pose proof (first_le_next m).
  destruct (e_index n0 <? first_of m) eqn:E1; [lia|].
  destruct (last_index m =? u64_max) eqn:E2; [lia|].
  destruct (last_index m + 1 <? e_index n0) eqn:E3; [reflexivity|lia].
Qed.

(* ---------- compact ---------- *)
Lemma compact_noop : forall m ci,
    RepInv m -> ci <= first_of m -> compact m ci = Ok m.
Proof.
  intros m ci HI H. unfold compact. rewrite (first_index_ok m HI). cbn [bind].
  destruct (ci <=? first_of m) eqn:E; [reflexivity|lia].
Qed.

Lemma compact_eq : forall m ci,
    RepInv m -> first_of m < ci -> ci <= next_of m ->
    compact m ci = Ok (set_entries m (skipn (N.to_nat (ci - first_of m)) (entries m))).
Proof.
  intros m ci HI H1 H2. unfold compact. rewrite (first_index_ok m HI). cbn [bind].
  pose proof (last_index_next m HI). pose proof (last_index_lt_max m HI).
  destruct (ci <=? first_of m) eqn:E; [lia|].
  destruct (last_index m =? u64_max) eqn:E2; [lia|].
  destruct (last_index m + 1 <? ci) eqn:E3; [lia|].
  destruct (entries m) as [|e0 l] eqn:El.
  - exfalso. rewrite (entries_nil_next m El) in H2. lia.
  - rewrite (entries_head_index m e0 l El).
    destruct (length (e0 :: l) <? N.to_nat (ci - first_of m))%nat eqn:E4; [|reflexivity].
    unfold next_of in H2. rewrite El in H2. lia.
Qed.

(* the documented use: compact_index <= last index *)
Lemma compact_ok : forall m ci,
    RepInv m -> first_of m < ci -> ci < next_of m ->
    let m' := set_entries m (skipn (N.to_nat (ci - first_of m)) (entries m)) in
    compact m ci = Ok m' /\ RepInv m' /\ first_of m' = ci.
Proof.
  intros m ci HI H1 H2 m'.
  split; [apply compact_eq; [assumption|assumption|lia]|].
  destruct HI as (HIc & HIs & HIb).
  assert (Hk : (N.to_nat (ci - first_of m) < length (entries m))%nat).
  { unfold next_of in H2. lia. }
  destruct (skipn_cons_nth (entries m) _ Hk) as (e & t & Hsk & Hn).
  assert (Hfo : first_of m' = ci).
  { subst m'. unfold first_of at 1. cbn [entries set_entries]. rewrite Hsk.
    rewrite (contig_nth _ _ _ _ HIc Hn). lia. }
  split; [|exact Hfo].
  unfold RepInv, next_of. rewrite Hfo. subst m'. cbn [entries set_entries snap_index].
  rewrite skipn_length. unfold next_of in *.
  split; [|split; lia].
  replace ci with (first_of m + N.of_nat (N.to_nat (ci - first_of m))) at 1 by lia.
  apply contig_skipn. exact HIc.
Qed.

Lemma compact_panics : forall m ci,
    RepInv m -> next_of m < ci -> compact m ci = Panic site_compact_oob.
Proof.
  intros m ci HI H. unfold compact. rewrite (first_index_ok m HI). cbn [bind].
  pose proof (last_index_next m HI). pose proof (last_index_lt_max m HI).
  pose proof (first_le_next m).
  destruct (ci <=? first_of m) eqn:E; [lia|].
  destruct (last_index m =? u64_max) eqn:E2; [lia|].
  destruct (last_index m + 1 <? ci) eqn:E3; [reflexivity|lia].
Qed.

(* compact(last + 1) is accepted by the code and by the "# Panics" doc, but it
   empties the vector and first_index()/last_index() fall back to the snapshot
   metadata, which compact never updates: the log position is rewound. *)
Lemma compact_all_rewinds : forall m,
    RepInv m -> entries m <> [] ->
    exists m', compact m (last_index m + 1) = Ok m'
      /\ entries m' = []
      /\ RepInv m'
      /\ first_of m' = snap_index m + 1
      /\ last_index m' = snap_index m
      /\ snap_index m < last_index m.
Proof.
  intros m HI Hne.
  pose proof (last_index_next m HI) as Hl. pose proof (entries_nonempty_lt m Hne) as Hlt.
  exists (set_entries m []). rewrite Hl.
  split.
  - rewrite (compact_eq m (next_of m) HI Hlt ltac:(lia)).
    rewrite skipn_all2; [reflexivity|]. unfold next_of. lia.
  - destruct HI as (HIc & HIs & HIb).
    split; [reflexivity|]. split.
    + unfold RepInv, next_of, first_of. cbn. repeat split; try lia.
    + split; [reflexivity|]. split; [reflexivity|lia].
Qed.

(* ---------- apply_snapshot ---------- *)
Definition apply_snapshot_result (m : mem) (s : snapshot) : mem :=
  mkMem (mkHS (N.max (hs_term (hs m)) (s_term s)) (hs_vote (hs m)) (s_index s))
        (s_cs s) [] (s_index s) (s_term s) (trig_snap m) (trig_log m) (ge_ctx m).

Lemma apply_snapshot_ok : forall m s,
    RepInv m -> first_of m <= s_index s -> s_index s < u64_max ->
    apply_snapshot m s = Ok (apply_snapshot_result m s, SOk tt)
    /\ RepInv (apply_snapshot_result m s).
Proof.
  intros m s HI H1 H2. split.
  - unfold apply_snapshot. rewrite (first_index_ok m HI). cbn [bind].
    destruct (s_index s <? first_of m) eqn:E; [lia|reflexivity].
  - unfold RepInv, next_of, first_of, apply_snapshot_result. cbn. repeat split; lia.
Qed.

Lemma apply_snapshot_out_of_date : forall m s,
    RepInv m -> s_index s < first_of m ->
    apply_snapshot m s = Ok (m, SErr SnapshotOutOfDate).
Proof.
  intros m s HI H. unfold apply_snapshot. rewrite (first_index_ok m HI). cbn [bind].
  destruct (s_index s <? first_of m) eqn:E; [reflexivity|lia].
Qed.

(* ---------- commit_to ---------- *)
Lemma has_entry_at_iff : forall m i,
    RepInv m -> (has_entry_at m i = true <-> first_of m <= i < next_of m).
Proof.
  intros m i HI. pose proof (last_index_next m HI) as Hl.
  unfold has_entry_at. destruct (entries m) as [|e0 l] eqn:El.
  - rewrite (entries_nil_next m El). split; [discriminate|lia].
  - rewrite (entries_head_index m e0 l El). split; intros H; lia.
Qed.

Lemma commit_to_ok : forall m i,
    RepInv m -> first_of m <= i < next_of m ->
    exists e, entry_at m i = Some e
      /\ commit_to m i = Ok (set_hs m (mkHS (e_term e) (hs_vote (hs m)) i)).
Proof.
  intros m i HI Hr.
  destruct (proj2 (entry_at_some_iff m i) Hr) as [e He].
  exists e. split; [exact He|].
  unfold commit_to. rewrite (proj2 (has_entry_at_iff m i HI) Hr). cbn [negb].
  destruct (entries m) as [|e0 l] eqn:El.
  - rewrite (entries_nil_next m El) in Hr. lia.
  - rewrite (entries_head_index m e0 l El).
    unfold entry_at in He. destruct (i <? first_of m) eqn:E; [lia|].
    rewrite El in He. unfold idx. rewrite He. reflexivity.
Qed.

Lemma commit_to_panics : forall m i,
    RepInv m -> ~ (first_of m <= i < next_of m) ->
    commit_to m i = Panic site_commit_to_assert.
Proof.
  intros m i HI Hr. unfold commit_to.
  destruct (has_entry_at m i) eqn:E.
  - apply (has_entry_at_iff m i HI) in E. contradiction.
  - reflexivity.
Qed.

(* ================================================================== *)
(* Queries                                                             *)
(* ================================================================== *)

(* ---------- first_index / last_index ---------- *)
Theorem first_index_spec : forall m,
    RepInv m -> storage_first_index m = Ok (sp_first (abs m)).
Proof. intros m HI. exact (first_index_ok m HI). Qed.

Theorem last_index_spec : forall m,
    RepInv m -> storage_last_index m + 1 = sp_next (abs m).
Proof. intros m HI. exact (last_index_next m HI). Qed.

(* ---------- term ---------- *)
Theorem term_spec : forall m i,
    RepInv m ->
    storage_term m i =
    Ok (if i =? snap_index m then SOk (snap_term m)
        else if i <? first_of m then SErr Compacted
        else match entry_at m i with
             | Some e => SOk (e_term e)
             | None => SErr Unavailable
             end).
Proof.
  intros m i HI. unfold storage_term.
  destruct (i =? snap_index m) eqn:E0; [reflexivity|].
  rewrite (first_index_ok m HI). cbn [bind].
  destruct (i <? first_of m) eqn:E1; [reflexivity|].
  pose proof (last_index_next m HI) as Hl.
  destruct (last_index m <? i) eqn:E2.
  - destruct (entry_at m i) eqn:Ea; [|reflexivity].
    assert (Hr : first_of m <= i < next_of m) by (apply entry_at_some_iff; eauto).
    lia.
  - destruct (proj2 (entry_at_some_iff m i) ltac:(lia)) as [e He].
    rewrite He. unfold entry_at in He. rewrite E1 in He.
    unfold idx. rewrite He. reflexivity.
Qed.

Corollary term_at_snapshot : forall m,
    RepInv m -> storage_term m (snap_index m) = Ok (SOk (snap_term m)).
Proof. intros m HI. rewrite (term_spec m _ HI), N.eqb_refl. reflexivity. Qed.

Corollary term_compacted : forall m i,
    RepInv m -> i < first_of m -> i <> snap_index m ->
    storage_term m i = Ok (SErr Compacted).
Proof.
  intros m i HI H1 H2. rewrite (term_spec m _ HI).
  destruct (i =? snap_index m) eqn:E0; [lia|].
  destruct (i <? first_of m) eqn:E1; [reflexivity|lia].
Qed.

Corollary term_unavailable : forall m i,
    RepInv m -> next_of m <= i -> storage_term m i = Ok (SErr Unavailable).
Proof.
  intros m i HI H. rewrite (term_spec m _ HI).
  pose proof (first_le_next m). destruct HI as (_ & Hs & _).
  destruct (i =? snap_index m) eqn:E0; [lia|].
  destruct (i <? first_of m) eqn:E1; [lia|].
  destruct (entry_at m i) eqn:Ea; [|reflexivity].
  assert (Hr : first_of m <= i < next_of m) by (apply entry_at_some_iff; eauto). lia.
Qed.

Corollary term_entry : forall m i,
    RepInv m -> first_of m <= i < next_of m ->
    exists e, entry_at m i = Some e /\ e_index e = i
              /\ storage_term m i = Ok (SOk (e_term e)).
Proof.
  intros m i HI H. destruct (proj2 (entry_at_some_iff m i) H) as [e He].
  exists e. split; [exact He|]. split; [exact (entry_at_index m i e HI He)|].
  rewrite (term_spec m _ HI), He. destruct HI as (_ & Hs & _).
  destruct (i =? snap_index m) eqn:E0; [lia|].
  destruct (i <? first_of m) eqn:E1; [lia|reflexivity].
Qed.

(* term never panics on a well-formed store *)
Corollary term_no_panic : forall m i, RepInv m -> exists r, storage_term m i = Ok r.
Proof. intros m i HI. rewrite (term_spec m i HI). eauto. Qed.

(* The Storage doc promises the term of first_index()-1 ("retained for matching
   purposes"); after a compaction past snapshot_metadata.index + 1 MemStorage
   answers Compacted for it. *)
Lemma term_before_first_after_compact : forall m,
    RepInv m -> snap_index m + 1 < first_of m ->
    storage_term m (first_of m - 1) = Ok (SErr Compacted).
Proof. intros m HI H. apply term_compacted; [exact HI|lia|lia]. Qed.

(* ---------- entries ---------- *)
Lemma nth_error_firstn_lt : forall {A} (l : list A) n k,
    (k < n)%nat -> nth_error (firstn n l) k = nth_error l k.
Proof.
  induction l as [|x l IH]; intros n k H.
  - rewrite firstn_nil. reflexivity.
  - destruct n; [lia|]. destruct k; cbn [firstn nth_error]; [reflexivity|].
    apply IH. lia.
Qed.

Lemma nth_error_skipn' : forall {A} (l : list A) n k,
    nth_error (skipn n l) k = nth_error l (n + k).
Proof.
  induction l as [|x l IH]; intros n k.
  - rewrite skipn_nil. destruct k, n; reflexivity.
  - destruct n; cbn [skipn Nat.add nth_error]; [reflexivity|]. apply IH.
Qed.

Lemma In_firstn : forall {A} (l : list A) n e, In e (firstn n l) -> In e l.
Proof.
  induction l as [|x l IH]; intros n e H.
  - rewrite firstn_nil in H. exact H.
  - destruct n; cbn [firstn] in H; [contradiction|].
    destruct H as [H|H]; [left; exact H|right; eapply IH; exact H].
Qed.

Lemma In_skipn : forall {A} (l : list A) n e, In e (skipn n l) -> In e l.
Proof.
  induction l as [|x l IH]; intros n e H.
  - rewrite skipn_nil in H. exact H.
  - destruct n; cbn [skipn] in H; [exact H|]. right. eapply IH; exact H.
Qed.

(* the entries with indexes lo .. hi-1 *)
Definition range_of (m : mem) (lo hi : N) : list entry :=
  firstn (N.to_nat (hi - lo)) (skipn (N.to_nat (lo - first_of m)) (entries m)).

Lemma range_of_spec : forall m lo hi,
    RepInv m -> first_of m <= lo -> lo <= hi -> hi <= next_of m ->
    contiguous_from lo (range_of m lo hi)
    /\ length (range_of m lo hi) = N.to_nat (hi - lo)
    /\ (forall i, lo <= i < hi ->
          nth_error (range_of m lo hi) (N.to_nat (i - lo)) = entry_at m i).
Proof.
  intros m lo hi (HIc & HIs & HIb) H1 H2 H3. unfold range_of, next_of in *.
  split; [|split].
  - apply contig_firstn.
    replace lo with (first_of m + N.of_nat (N.to_nat (lo - first_of m))) at 1 by lia.
    apply contig_skipn. exact HIc.
  - rewrite firstn_length, skipn_length. lia.
  - intros i Hi. rewrite nth_error_firstn_lt by lia.
    rewrite nth_error_skipn'. unfold entry_at.
    destruct (i <? first_of m) eqn:E; [lia|].
    f_equal. lia.
Qed.

Lemma range_of_incl : forall m lo hi e, In e (range_of m lo hi) -> In e (entries m).
Proof.
  intros m lo hi e H. unfold range_of in H.
  apply In_firstn in H. eapply In_skipn; exact H.
Qed.

Lemma entries_eq : forall m lo hi max ctx,
    RepInv m ->
    first_of m <= lo -> lo <= hi -> hi <= next_of m ->
    trig_log m && can_async ctx = false ->
    storage_entries m lo hi max ctx = Ok (m, SOk (limit_size (range_of m lo hi) max)).
Proof.
  intros m lo hi max ctx HI H1 H2 H3 Ht.
  unfold storage_entries. rewrite (first_index_ok m HI). cbn [bind].
  pose proof (last_index_next m HI) as Hl. pose proof (last_index_lt_max m HI) as Hm.
  destruct (lo <? first_of m) eqn:E1; [lia|].
  destruct (last_index m =? u64_max) eqn:E2; [lia|].
  destruct (last_index m + 1 <? hi) eqn:E3; [lia|].
  rewrite Ht.
  destruct (hi <? first_of m) eqn:E4; [lia|].
  destruct (N.to_nat (hi - first_of m) <? N.to_nat (lo - first_of m))%nat eqn:E5; [lia|].
  destruct (length (entries m) <? N.to_nat (hi - first_of m))%nat eqn:E6.
  { unfold next_of in H3. lia. }
  unfold range_of.
  replace (N.to_nat (hi - first_of m) - N.to_nat (lo - first_of m))%nat
    with (N.to_nat (hi - lo)) by lia.
  reflexivity.
Qed.

(* Main read theorem: for first <= lo <= hi <= last+1 (including a store that
   holds no entry, where lo = hi = first), entries returns (a) a prefix of the entries lo..hi-1,
   (b) non-empty when lo < hi, (c) within max unless a single entry, and maximal:
   the next entry would exceed max; the whole range when max is None/NO_LIMIT or
   the range has at most one entry. *)
Theorem entries_spec : forall m lo hi max ctx,
    RepInv m ->
    first_of m <= lo -> lo <= hi -> hi <= next_of m ->
    trig_log m && can_async ctx = false ->
    exists r, storage_entries m lo hi max ctx = Ok (m, SOk r)
      /\ (exists k, (k <= length (range_of m lo hi))%nat /\ r = firstn k (range_of m lo hi))
      /\ (lo < hi -> r <> [])
      /\ (max = None \/ max = Some NO_LIMIT \/ hi <= lo + 1 -> r = range_of m lo hi)
      /\ (forall mx, max = Some mx ->
            (mx <> NO_LIMIT -> total_size entry_size r <= mx \/ length r = 1%nat)
            /\ ((length r < length (range_of m lo hi))%nat ->
                mx < total_size entry_size (firstn (S (length r)) (range_of m lo hi)))).
Proof.
  intros m lo hi max ctx HI H1 H2 H3 Ht.
  exists (limit_size (range_of m lo hi) max).
  split; [apply entries_eq; assumption|].
  destruct (range_of_spec m lo hi HI H1 H2 H3) as (Hrc & Hrl & _).
  destruct (limit_size_spec entry_size (range_of m lo hi) max) as (Hp & Hn & Hu & Hs).
  split; [exact Hp|]. split.
  - intros Hlt. apply Hn. intros Hnil. rewrite Hnil in Hrl. cbn in Hrl. lia.
  - split.
    + intros [H|[H|H]]; apply Hu; [left; exact H|right; left; exact H|right; right; lia].
    + intros mx Hmx. apply Hs; [|exact Hmx].
      unfold head_pos. destruct (range_of m lo hi) as [|e t] eqn:Er; [exact I|].
      apply (stored_entry_size_pos m e HI).
      apply (range_of_incl m lo hi). rewrite Er. left; reflexivity.
Qed.

Lemma entries_compacted : forall m lo hi max ctx,
    RepInv m -> lo < first_of m ->
    storage_entries m lo hi max ctx = Ok (m, SErr Compacted).
Proof.
  intros m lo hi max ctx HI H. unfold storage_entries.
  rewrite (first_index_ok m HI). cbn [bind].
  destruct (lo <? first_of m) eqn:E; [reflexivity|lia].
Qed.

Lemma entries_oob_panics : forall m lo hi max ctx,
    RepInv m -> first_of m <= lo -> next_of m < hi ->
    storage_entries m lo hi max ctx = Panic site_entries_oob.
Proof.
  intros m lo hi max ctx HI H1 H2. unfold storage_entries.
  rewrite (first_index_ok m HI). cbn [bind].
  pose proof (last_index_next m HI) as Hl. pose proof (last_index_lt_max m HI) as Hm.
  destruct (lo <? first_of m) eqn:E1; [lia|].
  destruct (last_index m =? u64_max) eqn:E2; [lia|].
  destruct (last_index m + 1 <? hi) eqn:E3; [reflexivity|lia].
Qed.

Lemma entries_log_unavailable : forall m lo hi max ctx,
    RepInv m -> first_of m <= lo -> hi <= next_of m ->
    trig_log m && can_async ctx = true ->
    storage_entries m lo hi max ctx
    = Ok (set_ge_ctx m (Some ctx), SErr LogTemporarilyUnavailable).
Proof.
  intros m lo hi max ctx HI H1 H2 Ht. unfold storage_entries.
  rewrite (first_index_ok m HI). cbn [bind].
  pose proof (last_index_next m HI) as Hl. pose proof (last_index_lt_max m HI) as Hm.
  destruct (lo <? first_of m) eqn:E1; [lia|].
  destruct (last_index m =? u64_max) eqn:E2; [lia|].
  destruct (last_index m + 1 <? hi) eqn:E3; [lia|].
  rewrite Ht. reflexivity.
Qed.

(* A store that holds no entry (fresh, right after apply_snapshot, or emptied
   by compact(last+1)) answers Ok([]) to the only in-range read, the empty range
   entries(first, first).  (Before /repo 9c2e6d6 this read indexed entries[0] and
   panicked.) *)
Lemma entries_empty_store : forall m lo hi max ctx,
    RepInv m -> entries m = [] ->
    first_of m <= lo -> lo <= hi -> hi <= next_of m ->
    trig_log m && can_async ctx = false ->
    storage_entries m lo hi max ctx = Ok (m, SOk []).
Proof.
  intros m lo hi max ctx HI He H1 H2 H3 Ht.
  rewrite (entries_eq m lo hi max ctx HI H1 H2 H3 Ht).
  unfold range_of. rewrite He, skipn_nil, firstn_nil. reflexivity.
Qed.

(* the empty range is always answered Ok([]) *)
Lemma entries_empty_range : forall m lo max ctx,
    RepInv m -> first_of m <= lo <= next_of m ->
    trig_log m && can_async ctx = false ->
    storage_entries m lo lo max ctx = Ok (m, SOk []).
Proof.
  intros m lo max ctx HI [H1 H2] Ht.
  rewrite (entries_eq m lo lo max ctx HI H1 ltac:(lia) H2 Ht).
  unfold range_of. replace (N.to_nat (lo - lo)) with O by lia. reflexivity.
Qed.

(* a reversed range fails in the index arithmetic *)
Lemma entries_reversed_panics : forall m lo hi max ctx,
    RepInv m ->
    first_of m <= lo -> hi < lo -> hi <= next_of m ->
    trig_log m && can_async ctx = false ->
    storage_entries m lo hi max ctx =
    Panic (if hi <? first_of m then site_entries_hi_underflow else site_entries_slice_order).
Proof.
  intros m lo hi max ctx HI H1 H2 H3 Ht. unfold storage_entries.
  rewrite (first_index_ok m HI). cbn [bind].
  pose proof (last_index_next m HI) as Hl. pose proof (last_index_lt_max m HI) as Hm.
  destruct (lo <? first_of m) eqn:E1; [lia|].
  destruct (last_index m =? u64_max) eqn:E2; [lia|].
  destruct (last_index m + 1 <? hi) eqn:E3; [lia|].
  rewrite Ht.
  destruct (hi <? first_of m) eqn:E4; [reflexivity|].
  destruct (N.to_nat (hi - first_of m) <? N.to_nat (lo - first_of m))%nat eqn:E5; [reflexivity|lia].
Qed.

(* Complete classification of the panics of entries on a well-formed store:
   the documented one (high > last_index + 1) and reversed ranges. *)
Theorem entries_panics_iff : forall m lo hi max ctx,
    RepInv m ->
    ((exists s, storage_entries m lo hi max ctx = Panic s)
     <-> first_of m <= lo
         /\ (next_of m < hi
             \/ (trig_log m && can_async ctx = false /\ hi < lo))).
Proof.
  intros m lo hi max ctx HI.
  destruct (lo <? first_of m) eqn:E1.
  { rewrite (entries_compacted m lo hi max ctx HI ltac:(lia)).
    split; [intros [s Hs]; discriminate|intros [H _]; lia]. }
  destruct (next_of m <? hi) eqn:E2.
  { rewrite (entries_oob_panics m lo hi max ctx HI ltac:(lia) ltac:(lia)).
    split; [intros _; split; [lia|left; lia]|eauto]. }
  destruct (trig_log m && can_async ctx) eqn:Et.
  { rewrite (entries_log_unavailable m lo hi max ctx HI ltac:(lia) ltac:(lia) Et).
    split; [intros [s Hs]; discriminate|].
    intros [_ [H|[H _]]]; [lia|discriminate]. }
  destruct (hi <? lo) eqn:E3.
  { rewrite (entries_reversed_panics m lo hi max ctx HI ltac:(lia) ltac:(lia) ltac:(lia) Et).
    split; [intros _; split; [lia|right; split; [reflexivity|lia]]|eauto]. }
  rewrite (entries_eq m lo hi max ctx HI ltac:(lia) ltac:(lia) ltac:(lia) Et).
  split; [intros [s Hs]; discriminate|].
  intros [_ [H|[_ H]]]; lia.
Qed.

(* the retired entries[0] site never fires *)
Theorem entries_entries0_never : forall m lo hi max ctx,
    RepInv m -> storage_entries m lo hi max ctx <> Panic site_entries_entries0.
Proof.
  intros m lo hi max ctx HI Hp.
  destruct (lo <? first_of m) eqn:E1.
  { rewrite (entries_compacted m lo hi max ctx HI ltac:(lia)) in Hp. discriminate. }
  destruct (next_of m <? hi) eqn:E2.
  { rewrite (entries_oob_panics m lo hi max ctx HI ltac:(lia) ltac:(lia)) in Hp. discriminate. }
  destruct (trig_log m && can_async ctx) eqn:Et.
  { rewrite (entries_log_unavailable m lo hi max ctx HI ltac:(lia) ltac:(lia) Et) in Hp.
    discriminate. }
  destruct (hi <? lo) eqn:E3.
  { rewrite (entries_reversed_panics m lo hi max ctx HI ltac:(lia) ltac:(lia) ltac:(lia) Et) in Hp.
    destruct (hi <? first_of m); discriminate. }
  rewrite (entries_eq m lo hi max ctx HI ltac:(lia) ltac:(lia) ltac:(lia) Et) in Hp.
  discriminate.
Qed.

(* ---------- snapshot ---------- *)
(* The private snapshot(): built at hard_state.commit, carries the term that
   Storage::term reports for that index and the stored configuration. *)
Lemma make_snapshot_ok : forall m,
    RepInv m -> commit_ok (abs m) ->
    exists t, storage_term m (hs_commit (hs m)) = Ok (SOk t)
              /\ make_snapshot m = Ok (mkSnap (hs_commit (hs m)) t (cs m)).
Proof.
  intros m HI Hc. unfold commit_ok in Hc. cbn [abs sp_hs sp_snap_i sp_first] in Hc.
  rewrite sp_next_abs in Hc. unfold make_snapshot.
  destruct Hc as [Hc|Hc].
  - exists (snap_term m). rewrite Hc at 1. split; [apply term_at_snapshot; exact HI|].
    rewrite Hc, N.compare_refl. cbn [bind]. rewrite <- Hc. reflexivity.
  - destruct (term_entry m _ HI Hc) as (e & He & Hix & Ht).
    exists (e_term e). split; [exact Ht|].
    destruct HI as (HIc & HIs & HIb).
    destruct (N.compare_spec (hs_commit (hs m)) (snap_index m)) as [H|H|H]; [lia|lia|].
    destruct (entries m) as [|e0 l] eqn:El.
    { rewrite (entries_nil_next m El) in Hc. lia. }
    rewrite (entries_head_index m e0 l El).
    destruct (hs_commit (hs m) <? first_of m) eqn:E; [lia|].
    unfold entry_at in He. rewrite E, El in He. unfold idx. rewrite He. reflexivity.
Qed.

Lemma make_snapshot_panics : forall m,
    RepInv m -> ~ commit_ok (abs m) -> exists s, make_snapshot m = Panic s.
Proof.
  intros m HI Hc. unfold commit_ok in Hc. cbn [abs sp_hs sp_snap_i sp_first] in Hc.
  rewrite sp_next_abs in Hc. unfold make_snapshot.
  destruct (N.compare_spec (hs_commit (hs m)) (snap_index m)) as [H|H|H].
  - exfalso. apply Hc. left. exact H.
  - eexists. reflexivity.
  - destruct (entries m) as [|e0 l] eqn:El; [eexists; reflexivity|].
    rewrite (entries_head_index m e0 l El).
    destruct (hs_commit (hs m) <? first_of m) eqn:E; [eexists; reflexivity|].
    unfold idx.
    destruct (nth_error (e0 :: l) (N.to_nat (hs_commit (hs m) - first_of m))) eqn:En;
      [|eexists; reflexivity].
    exfalso. apply Hc. right.
    assert (Hlt : (N.to_nat (hs_commit (hs m) - first_of m) < length (e0 :: l))%nat).
    { apply nth_error_Some. congruence. }
    unfold next_of. rewrite El. lia.
Qed.

Theorem make_snapshot_ok_iff : forall m,
    RepInv m -> ((exists s, make_snapshot m = Ok s) <-> commit_ok (abs m)).
Proof.
  intros m HI. split.
  - intros [s Hs].
    assert (Hd : commit_ok (abs m) \/ ~ commit_ok (abs m)).
    { unfold commit_ok. lia. }
    destruct Hd as [Hd|Hd]; [exact Hd|].
    destruct (make_snapshot_panics m HI Hd) as [p Hp]. congruence.
  - intros Hc. destruct (make_snapshot_ok m HI Hc) as (t & _ & H). eauto.
Qed.

(* Storage::snapshot(request_index, to) *)
Theorem snapshot_spec : forall m req to,
    RepInv m -> commit_ok (abs m) ->
    (trig_snap m = true ->
       storage_snapshot m req to
       = Ok (set_trig_snap m false, SErr SnapshotTemporarilyUnavailable))
    /\ (trig_snap m = false ->
        exists s t, storage_snapshot m req to = Ok (m, SOk s)
          /\ storage_term m (hs_commit (hs m)) = Ok (SOk t)
          /\ s_term s = t
          /\ s_cs s = cs m
          /\ s_index s = N.max (hs_commit (hs m)) req
          /\ req <= s_index s).
Proof.
  intros m req to HI Hc. unfold storage_snapshot. split; intros Ht; rewrite Ht.
  - reflexivity.
  - destruct (make_snapshot_ok m HI Hc) as (t & Hterm & Hs).
    rewrite Hs. cbn [bind s_index s_term s_cs].
    destruct (hs_commit (hs m) <? req) eqn:E.
    + exists (mkSnap req t (cs m)), t. cbn [s_index s_term s_cs]. repeat split; try assumption; lia.
    + exists (mkSnap (hs_commit (hs m)) t (cs m)), t. cbn [s_index s_term s_cs].
      repeat split; try assumption; lia.
Qed.

(* ================================================================== *)
(* Refinement of every operation, and histories                        *)
(* ================================================================== *)

Lemma abs_set_hs : forall m h, abs (set_hs m h) = sp_set_hs (abs m) h.
Proof. reflexivity. Qed.
Lemma abs_set_cs : forall m c, abs (set_cs m c) = sp_set_cs (abs m) c.
Proof. reflexivity. Qed.

Lemma commit_to_refines : forall m i,
    RepInv m -> first_of m <= i < next_of m ->
    exists m', commit_to m i = Ok m' /\ RepInv m' /\ abs m' = spec_commit_to (abs m) i
               /\ hs_commit (hs m') = i.
Proof.
  intros m i HI Hr. destruct (commit_to_ok m i HI Hr) as (e & He & Hc).
  eexists. split; [exact Hc|]. split; [|split; [|reflexivity]].
  - eapply RepInv_ext; [| |exact HI]; reflexivity.
  - unfold spec_commit_to. rewrite sp_entry_at_abs, He. reflexivity.
Qed.

(* Every operation, under its precondition, returns without panicking,
   preserves the representation invariant and commutes with the list-level
   specification. *)
Theorem mem_refines : forall m o,
    RepInv m -> spre (abs m) o ->
    exists m' r, step m o = Ok (m', r) /\ RepInv m' /\ abs m' = spec_step (abs m) o.
Proof.
  intros m o HI Hp.
  assert (Hsame : forall m', entries m' = entries m -> snap_index m' = snap_index m -> RepInv m').
  { intros m' H1 H2. eapply RepInv_ext; eauto. }
  destruct o; cbn [step spec_step spre] in *.
  - (* set_hardstate *) eexists _, _. split; [reflexivity|]. split; [apply Hsame; reflexivity|reflexivity].
  - (* set_commit *) eexists _, _. split; [reflexivity|]. split; [apply Hsame; reflexivity|reflexivity].
  - (* commit_to *)
    rewrite sp_next_abs in Hp. cbn [abs sp_first] in Hp.
    destruct (commit_to_refines m i HI Hp) as (m' & Hc & HI' & Ha & _).
    unfold ok_unit. rewrite Hc. cbn [bind]. eauto.
  - (* set_conf_state *) eexists _, _. split; [reflexivity|]. split; [apply Hsame; reflexivity|reflexivity].
  - (* apply_snapshot *)
    cbn [abs sp_first].
    destruct (s_index s <? first_of m) eqn:E.
    + rewrite (apply_snapshot_out_of_date m s HI ltac:(lia)). cbn [bind fst snd map_sres].
      eexists _, _. split; [reflexivity|]. split; [exact HI|reflexivity].
    + destruct (apply_snapshot_ok m s HI ltac:(lia) Hp) as (Ha & HI').
      rewrite Ha. cbn [bind fst snd map_sres].
      eexists _, _. split; [reflexivity|]. split; [exact HI'|reflexivity].
  - (* compact *)
    rewrite sp_next_abs in Hp. cbn [abs sp_first] in *.
    destruct (i <=? first_of m) eqn:E.
    + unfold ok_unit. rewrite (compact_noop m i HI ltac:(lia)). cbn [bind].
      eexists _, _. split; [reflexivity|]. split; [exact HI|reflexivity].
    + destruct (compact_ok m i HI ltac:(lia) ltac:(lia)) as (Hc & HI' & Hfo).
      unfold ok_unit. rewrite Hc. cbn [bind].
      eexists _, _. split; [reflexivity|]. split; [exact HI'|].
      unfold abs. rewrite Hfo. reflexivity.
  - (* append *)
    destruct ents as [|n0 t].
    + eexists _, _. split; [reflexivity|]. split; [exact HI|reflexivity].
    + rewrite sp_next_abs in Hp. cbn [abs sp_first] in *. destruct Hp as (Hc & Hr & Hb).
      destruct (append_ok m n0 t HI Hc Hr Hb) as (Ha & HI' & Hfo).
      unfold ok_unit. rewrite Ha. cbn [bind].
      eexists _, _. split; [reflexivity|]. split; [exact HI'|].
      unfold abs. rewrite Hfo. reflexivity.
  - (* commit_to_and_set_conf_states *)
    rewrite sp_next_abs in Hp. cbn [abs sp_first] in Hp.
    destruct (commit_to_refines m i HI Hp) as (m' & Hc & HI' & Ha & _).
    unfold ok_unit, commit_to_and_set_conf_states. rewrite Hc. cbn [bind].
    destruct c as [c|]; cbn [bind].
    + eexists _, _. split; [reflexivity|].
      split; [eapply RepInv_ext; [| |exact HI']; reflexivity|].
      rewrite abs_set_cs, Ha. reflexivity.
    + eauto.
  - (* trigger_snap_unavailable *) eexists _, _. split; [reflexivity|]. split; [apply Hsame; reflexivity|reflexivity].
  - (* trigger_log_unavailable *) eexists _, _. split; [reflexivity|]. split; [apply Hsame; reflexivity|reflexivity].
  - (* take_get_entries_context *) eexists _, _. split; [reflexivity|]. split; [apply Hsame; reflexivity|reflexivity].
  - (* initialize_with_conf_state *)
    cbn [abs sp_cs] in Hp. unfold ok_unit, initialize_with_conf_state, initialized.
    rewrite Hp. cbn [negb bind].
    eexists _, _. split; [reflexivity|]. split; [apply Hsame; reflexivity|reflexivity].
  - (* initial_state *) eexists _, _. split; [reflexivity|]. split; [exact HI|reflexivity].
  - (* entries *)
    rewrite sp_next_abs in Hp. cbn [abs sp_first sp_ents] in Hp.
    destruct (low <? first_of m) eqn:E.
    + rewrite (entries_compacted m low high max ctx HI ltac:(lia)). cbn [bind fst snd].
      eexists _, _. split; [reflexivity|]. split; [exact HI|reflexivity].
    + destruct Hp as [Hp|(H1 & H2)]; [lia|].
      destruct (trig_log m && can_async ctx) eqn:Et.
      * rewrite (entries_log_unavailable m low high max ctx HI ltac:(lia) H2 Et).
        cbn [bind fst snd].
        eexists _, _. split; [reflexivity|]. split; [apply Hsame; reflexivity|reflexivity].
      * rewrite (entries_eq m low high max ctx HI ltac:(lia) H1 H2 Et).
        cbn [bind fst snd].
        eexists _, _. split; [reflexivity|]. split; [exact HI|reflexivity].
  - (* term *)
    rewrite (term_spec m i HI). cbn [bind].
    eexists _, _. split; [reflexivity|]. split; [exact HI|reflexivity].
  - (* first_index *)
    unfold storage_first_index. rewrite (first_index_ok m HI). cbn [bind].
    eexists _, _. split; [reflexivity|]. split; [exact HI|reflexivity].
  - (* last_index *) eexists _, _. split; [reflexivity|]. split; [exact HI|reflexivity].
  - (* snapshot *)
    destruct (snapshot_spec m request_index to HI Hp) as (Ht & Hf).
    destruct (trig_snap m) eqn:E.
    + rewrite (Ht eq_refl). cbn [bind fst snd].
      eexists _, _. split; [reflexivity|]. split; [apply Hsame; reflexivity|reflexivity].
    + destruct (Hf eq_refl) as (s & t & Hs & _). rewrite Hs. cbn [bind fst snd].
      eexists _, _. split; [reflexivity|]. split; [exact HI|reflexivity].
  - (* hard_state *) eexists _, _. split; [reflexivity|]. split; [exact HI|reflexivity].
Qed.

(* a history is admissible when every operation meets its precondition in the
   specification state reached so far *)
Fixpoint spres (s : spec) (ops : list op) : Prop :=
  match ops with
  | [] => True
  | o :: rest => spre s o /\ spres (spec_step s o) rest
  end.

Theorem history_refines : forall ops m,
    RepInv m -> spres (abs m) ops ->
    exists m', run m ops = Ok m' /\ RepInv m'
               /\ abs m' = fold_left spec_step ops (abs m).
Proof.
  induction ops as [|o rest IH]; intros m HI Hp; cbn [run fold_left spres] in *.
  - eauto.
  - destruct Hp as [Hp Hrest].
    destruct (mem_refines m o HI Hp) as (m1 & r & Hs & HI1 & Ha).
    rewrite Hs. cbn [bind fst]. rewrite <- Ha in *.
    exact (IH m1 HI1 Hrest).
Qed.

Definition spec_new : spec := mkSpec 0 0 1 [] hs_default cs_default.

Lemma abs_new : abs new = spec_new.
Proof. reflexivity. Qed.

(* spec-level answers of the queries *)
Definition spec_term (s : spec) (i : N) : sres N :=
  if i =? sp_snap_i s then SOk (sp_snap_t s)
  else if i <? sp_first s then SErr Compacted
  else match sp_entry_at s i with
       | Some e => SOk (e_term e)
       | None => SErr Unavailable
       end.

Definition spec_range (s : spec) (lo hi : N) : list entry :=
  firstn (N.to_nat (hi - lo)) (skipn (N.to_nat (lo - sp_first s)) (sp_ents s)).

Lemma term_refines : forall m i, RepInv m -> storage_term m i = Ok (spec_term (abs m) i).
Proof. intros m i HI. exact (term_spec m i HI). Qed.

Lemma range_refines : forall m lo hi, range_of m lo hi = spec_range (abs m) lo hi.
Proof. reflexivity. Qed.

(* History theorem from MemStorage::new(): any admissible sequence of
   operations runs without panic, ends in a state satisfying the invariant whose
   abstraction is the fold of the specification steps, and there every query
   answers as the specification state does. *)
Theorem history_from_new : forall ops,
    spres spec_new ops ->
    exists m, run new ops = Ok m /\ RepInv m
      /\ abs m = fold_left spec_step ops spec_new
      /\ spec_wf (abs m)
      /\ storage_first_index m = Ok (sp_first (abs m))
      /\ storage_last_index m + 1 = sp_next (abs m)
      /\ (forall i, storage_term m i = Ok (spec_term (abs m) i))
      /\ (forall lo hi max ctx,
            sp_first (abs m) <= lo -> lo <= hi ->
            hi <= sp_next (abs m) -> trig_log m && can_async ctx = false ->
            storage_entries m lo hi max ctx
            = Ok (m, SOk (limit_size (spec_range (abs m) lo hi) max))).
Proof.
  intros ops Hp. rewrite <- abs_new in Hp.
  destruct (history_refines ops new new_RepInv Hp) as (m & Hr & HI & Ha).
  exists m. rewrite abs_new in Ha.
  split; [exact Hr|]. split; [exact HI|]. split; [exact Ha|].
  split; [apply abs_wf; exact HI|].
  split; [apply first_index_spec; exact HI|].
  split; [apply last_index_spec; exact HI|].
  split; [intros i; apply term_refines; exact HI|].
  intros lo hi max ctx H1 H2 H3 Ht.
  rewrite <- range_refines. apply entries_eq; assumption.
Qed.

(* the same from new_with_conf_state *)
Lemma new_with_conf_state_ok : forall c,
    new_with_conf_state c = Ok (set_cs new c) /\ RepInv (set_cs new c).
Proof.
  intros c. split; [reflexivity|].
  eapply RepInv_ext; [| |exact new_RepInv]; reflexivity.
Qed.

(* ================================================================== *)
(* Commit discipline: snapshot() never panics along a history           *)
(* ================================================================== *)

(* What a Raft node guarantees about hard_state.commit when it writes to the
   storage: commit designates the snapshot point or a held entry; compaction
   stays at or below commit (compact_index <= applied <= commit); appends never
   leave the log shorter than commit. *)
Definition spre_commit (s : spec) (o : op) : Prop :=
  match o with
  | OSetHardState h =>
      hs_commit h = sp_snap_i s \/ sp_first s <= hs_commit h < sp_next s
  | OSetCommit c => c = sp_snap_i s \/ sp_first s <= c < sp_next s
  | OCompact ci =>
      ci <= sp_first s \/ hs_commit (sp_hs s) = sp_snap_i s \/ ci <= hs_commit (sp_hs s)
  | OAppend ents =>
      match ents with
      | [] => True
      | n0 :: _ =>
          hs_commit (sp_hs s) = sp_snap_i s
          \/ hs_commit (sp_hs s) < e_index n0 + N.of_nat (length ents)
      end
  | _ => True
  end.

(* spre without the (derivable) obligation on snapshot *)
Definition spre_nosnap (s : spec) (o : op) : Prop :=
  match o with QSnapshot _ _ => True | _ => spre s o end.

Lemma spre_of_nosnap : forall s o, commit_ok s -> spre_nosnap s o -> spre s o.
Proof. intros s o Hc H. destruct o; try exact H. exact Hc. Qed.

Lemma sp_entry_at_some : forall s i,
    sp_first s <= i < sp_next s -> exists e, sp_entry_at s i = Some e.
Proof.
  intros s i [H1 H2]. unfold sp_entry_at, sp_next in *.
  destruct (i <? sp_first s) eqn:E; [lia|].
  destruct (nth_error (sp_ents s) (N.to_nat (i - sp_first s))) eqn:En; [eauto|].
  apply nth_error_None in En. lia.
Qed.

Lemma spec_commit_to_commit_ok : forall s i,
    sp_first s <= i < sp_next s -> commit_ok (spec_commit_to s i).
Proof.
  intros s i Hr. unfold spec_commit_to.
  destruct (sp_entry_at_some s i Hr) as [e He]. rewrite He.
  unfold commit_ok, sp_next in *. cbn. right. lia.
Qed.

Theorem commit_ok_step : forall s o,
    commit_ok s -> spre s o -> spre_commit s o -> commit_ok (spec_step s o).
Proof.
  intros s o Hc Hp Hd. destruct o; cbn [spec_step spre spre_commit] in *; try exact Hc.
  - (* set_hardstate *) unfold commit_ok, sp_next in *. cbn. exact Hd.
  - (* set_commit *) unfold commit_ok, sp_next in *. cbn. exact Hd.
  - (* commit_to *) apply spec_commit_to_commit_ok; exact Hp.
  - (* apply_snapshot *)
    destruct (s_index s0 <? sp_first s); [exact Hc|].
    unfold commit_ok. cbn. left; reflexivity.
  - (* compact *)
    destruct (i <=? sp_first s) eqn:E; [exact Hc|].
    unfold commit_ok, sp_next in *. cbn. rewrite skipn_length.
    destruct Hp as [Hp|Hp]; [lia|]. lia.
  - (* append *)
    destruct ents as [|n0 t]; [exact Hc|].
    destruct Hp as (_ & Hr & _).
    unfold commit_ok, sp_next in *. cbn [sp_hs sp_snap_i sp_first sp_ents].
    rewrite app_length, firstn_length. lia.
  - (* commit_to_and_set_conf_states *)
    pose proof (spec_commit_to_commit_ok s i Hp) as H.
    destruct c; [|exact H]. exact H.
Qed.

Fixpoint spres_disciplined (s : spec) (ops : list op) : Prop :=
  match ops with
  | [] => True
  | o :: rest =>
      spre_nosnap s o /\ spre_commit s o /\ spres_disciplined (spec_step s o) rest
  end.

Lemma disciplined_admissible : forall ops s,
    commit_ok s -> spres_disciplined s ops ->
    spres s ops /\ commit_ok (fold_left spec_step ops s).
Proof.
  induction ops as [|o rest IH]; intros s Hc Hd; cbn [spres spres_disciplined fold_left] in *.
  - split; [exact I|exact Hc].
  - destruct Hd as (Hn & Hcm & Hrest).
    pose proof (spre_of_nosnap s o Hc Hn) as Hp.
    pose proof (commit_ok_step s o Hc Hp Hcm) as Hc'.
    destruct (IH _ Hc' Hrest) as (H1 & H2).
    split; [split; assumption|exact H2].
Qed.

Lemma commit_ok_new : commit_ok spec_new.
Proof. left. reflexivity. Qed.

(* Under the commit discipline no operation of a history from new() panics --
   in particular Storage::snapshot -- and in the final state the snapshot
   specification applies. *)
Theorem history_snapshot : forall ops,
    spres_disciplined spec_new ops ->
    exists m, run new ops = Ok m /\ RepInv m
      /\ abs m = fold_left spec_step ops spec_new
      /\ commit_ok (abs m)
      /\ forall req to,
           (trig_snap m = true ->
              storage_snapshot m req to
              = Ok (set_trig_snap m false, SErr SnapshotTemporarilyUnavailable))
           /\ (trig_snap m = false ->
               exists s t, storage_snapshot m req to = Ok (m, SOk s)
                 /\ storage_term m (hs_commit (hs m)) = Ok (SOk t)
                 /\ s_term s = t /\ s_cs s = cs m
                 /\ s_index s = N.max (hs_commit (hs m)) req
                 /\ req <= s_index s).
Proof.
  intros ops Hd.
  destruct (disciplined_admissible ops spec_new commit_ok_new Hd) as (Hp & Hc).
  destruct (history_from_new ops Hp) as (m & Hr & HI & Ha & _).
  exists m. rewrite <- Ha in Hc.
  split; [exact Hr|]. split; [exact HI|]. split; [exact Ha|]. split; [exact Hc|].
  intros req to. apply snapshot_spec; assumption.
Qed.

(* ================================================================== *)
(* Concrete instances (hypotheses are satisfiable; candidate findings)  *)
(* ================================================================== *)

Definition ex_entry (i t : N) (dlen : nat) : entry := mkEntry 0 t i (repeat 7 dlen) [].

(* a non-trivial admissible, disciplined history *)
Definition ex_history : list op :=
  [ OAppend [ex_entry 1 1 0; ex_entry 2 1 127; ex_entry 3 2 128];
    OCommitTo 2;
    OCompact 2;
    QEntries 2 4 (Some 0) (CtxEmpty false);
    QSnapshot 5 1;
    OAppend [ex_entry 3 3 300; ex_entry 4 3 1];
    OCommitTo 4;
    OApplySnapshot (mkSnap 7 3 (mkCS [1; 2; 3] [] [] [] false));
    QSnapshot 0 1;
    OAppend [ex_entry 8 3 5];
    QTerm 7; QTerm 8; QTerm 6; QTerm 9 ].

(* closes computed comparisons: [Lt = Lt], [Eq = Gt -> False], disjunctions *)
Ltac fin :=
  solve [ exact I | reflexivity | discriminate | intro; discriminate
        | split; fin | left; fin | right; fin ].

Example ex_history_disciplined : spres_disciplined spec_new ex_history.
Proof. vm_compute. repeat split; fin. Qed.

(* a reachable state with a compacted prefix, a snapshot point and entries *)
Definition ex_state : mem :=
  mkMem (mkHS 2 0 4) (mkCS [1; 2; 3] [] [] [] false)
        [ex_entry 4 2 0; ex_entry 5 2 127; ex_entry 6 3 128] 2 1 false false None.

Example ex_state_RepInv : RepInv ex_state /\ commit_ok (abs ex_state)
                          /\ snap_index ex_state + 1 < first_of ex_state.
Proof. vm_compute. repeat split; fin. Qed.

(* size-limited read on that state: one entry is returned although max = 0;
   136 bytes allow only the first (4 bytes), 137 allow the second (133 bytes) too *)
Example ex_state_entries :
  storage_entries ex_state 4 7 (Some 0) (CtxEmpty false)
    = Ok (ex_state, SOk [ex_entry 4 2 0])
  /\ storage_entries ex_state 4 7 (Some 136) (CtxEmpty false)
    = Ok (ex_state, SOk [ex_entry 4 2 0])
  /\ storage_entries ex_state 4 7 (Some 137) (CtxEmpty false)
    = Ok (ex_state, SOk [ex_entry 4 2 0; ex_entry 5 2 127])
  /\ storage_entries ex_state 4 7 None (CtxEmpty false)
    = Ok (ex_state, SOk (entries ex_state)).
Proof. repeat split; vm_compute; reflexivity. Qed.

(* a fresh store answers the empty read entries(1, 1) with Ok([])
   (it panicked at entries[0] before /repo 9c2e6d6) *)
Example new_entries_empty_range :
  storage_entries new 1 1 None (CtxEmpty false) = Ok (new, SOk []).
Proof. reflexivity. Qed.

(* F: compact(last + 1) rewinds first_index/last_index to the snapshot point *)
Example compact_all_example :
  let m := set_entries new [ex_entry 1 1 0; ex_entry 2 1 0; ex_entry 3 1 0] in
  exists m', compact m 4 = Ok m'
    /\ first_index m' = Ok 1 /\ last_index m' = 0
    /\ append m' [ex_entry 4 1 0] = Panic site_append_gap.
Proof. eexists. repeat split; vm_compute; reflexivity. Qed.

(* F: after compacting past snapshot index + 1, term(first_index - 1) is
   Compacted although the Storage doc retains that term *)
Example term_before_first_example :
  storage_term ex_state 3 = Ok (SErr Compacted)
  /\ storage_term ex_state 2 = Ok (SOk 1).
Proof. split; reflexivity. Qed.

(* F: Storage::snapshot(request_index) with request_index above the commit
   index relabels the snapshot: index = request_index, term = term(commit) *)
Example snapshot_relabel_example :
  exists s, storage_snapshot ex_state 6 1 = Ok (ex_state, SOk s)
    /\ s_index s = 6 /\ s_term s = 2
    /\ storage_term ex_state 6 = Ok (SOk 3).
Proof. eexists. repeat split; vm_compute; reflexivity. Qed.
