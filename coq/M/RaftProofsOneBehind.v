(* "A campaigning node's configuration is at most one membership change behind its log":
   the two node-local halves.  Statements are pinned in Props/C09.v (C09_onebehind_...).
   Entries are taken as in C09: all_ents l = every entry the log physically holds. *)
From RV Require Import Base.Prelude Base.IdSet M.Util M.Proto M.MemStorage M.Inflights
  M.Progress M.RaftLog M.Quorum M.ConfChange M.Msg M.Raft M.RawNode M.RaftProofs
  M.RaftProofsC17 M.RaftProofsC09.
From RecordUpdate Require Import RecordSet.
Import RecordSetNotations.

Local Open Scope N_scope.

(* ================================================================== *)
(* 0. definitions *)

(* at most one membership-change entry of the log lies above index k: of any two, the
   lower one is at or below k *)
Definition conf_gap (l : raft_log) (k : N) : Prop :=
  forall e1 e2, all_ents l e1 -> all_ents l e2 ->
    is_conf_entry e1 = true -> is_conf_entry e2 = true ->
    e_index e1 < e_index e2 -> e_index e1 <= k.

Lemma conf_gap_mono l k k' : k <= k' -> conf_gap l k -> conf_gap l k'.
Proof. intros Hk H e1 e2 A B C0 D E. specialize (H e1 e2 A B C0 D E). lia. Qed.

(* the message-side property: every membership-change entry of the sender's log below a
   membership-change entry the message ships is covered by the message's commit index *)
Definition ship_ok (l : raft_log) (x : msg) : Prop :=
  forall ei ej, all_ents l ei -> In ej (m_entries x) ->
    is_conf_entry ei = true -> is_conf_entry ej = true ->
    e_index ei < e_index ej -> e_index ei <= m_commit x.

Definition ships_log (l : raft_log) (x : msg) : Prop :=
  forall e, In e (m_entries x) -> all_ents l e.

(* a MsgAppend created now: current commit index, entries taken from the log *)
Definition fresh_append (r : raft) (x : msg) : Prop :=
  m_type x = MsgAppend /\ m_commit x = committed (r_log r) /\ ships_log (r_log r) x.

(* every queued MsgAppend ships log entries (needed because try_batching extends a queued
   message in place) *)
Definition queue_ships_log (r : raft) : Prop :=
  forall x, In x (r_msgs r) -> m_type x = MsgAppend -> ships_log (r_log r) x.

Lemma fresh_ship_ok r x :
  conf_gap (r_log r) (applied (r_log r)) -> applied (r_log r) <= committed (r_log r) ->
  fresh_append r x -> ship_ok (r_log r) x.
Proof.
  intros Hg Hac (_ & Hc & Hs) ei ej Hi Hj Ci Cj Hlt. rewrite Hc.
  pose proof (Hg ei ej Hi (Hs ej Hj) Ci Cj Hlt). lia.
Qed.

(* ================================================================== *)
(* 1. leader side: the append-sending path *)

Lemma send_keeps r m r' : send r m = Ok r' ->
  exists x, r' = r <| r_msgs := r_msgs r ++ [x] |> /\
    m_type x = m_type m /\ m_entries x = m_entries m /\ m_commit x = m_commit m.
Proof.
  unfold send. intros H. inv_bind H. inversion H; subst; clear H.
  eexists. split; [reflexivity|].
  assert (Hx1 : m_type x = m_type m /\ m_entries x = m_entries m /\ m_commit x = m_commit m).
  { destruct (is_vote_type _).
    - destruct (m_term _ =? 0); inversion Hx; subst.
      destruct (m_from m =? INVALID_ID); cbn; auto.
    - destruct (negb _); [discriminate|].
      destruct (_ && _); inversion Hx; subst; destruct (m_from m =? INVALID_ID); cbn; auto. }
  destruct Hx1 as (A & B & C0).
  destruct ((m_type x =? MsgRequestVote) || (m_type x =? MsgRequestPreVote));
    [destruct (0 <? r_priority r)%Z|]; cbn; auto.
Qed.

Lemma log_entries_incl l i max ents e :
  log_entries l i max = Ok (SOk ents) -> In e ents -> all_ents l e.
Proof.
  unfold log_entries. intros H He.
  destruct (last_index l <? i); [inversion H; subst; destruct He|].
  destruct (last_index l =? u64_max); [discriminate|].
  eapply slice_incl; eassumption.
Qed.

Lemma try_batching_fresh r to ents : forall msgs pr msgs' pr' b,
  try_batching r to msgs pr ents = Ok (msgs', pr', b) ->
  (forall e, In e ents -> all_ents (r_log r) e) ->
  (forall x, In x msgs -> m_type x = MsgAppend -> ships_log (r_log r) x) ->
  forall x, In x msgs' -> In x msgs \/ fresh_append r x.
Proof.
  induction msgs as [|m rest IH]; intros pr msgs' pr' b H He Hq x Hx; cbn [try_batching] in H.
  - inversion H; subst. destruct Hx.
  - destruct ((m_type m =? MsgAppend) && (m_to m =? to)) eqn:E.
    + apply andb_prop in E. destruct E as [E _]. apply N.eqb_eq in E.
      pose proof (Hq m (or_introl eq_refl) E) as Hm.
      destruct ents as [|e0 et].
      * inversion H; subst; clear H. destruct Hx as [<-|Hx]; [|left; right; exact Hx].
        right. split; [exact E|]. split; [reflexivity|]. exact Hm.
      * destruct (negb (is_continuous_ents m (e0 :: et))); [inversion H; subst; left; exact Hx|].
        inv_bind H. inversion H; subst; clear H. destruct Hx as [<-|Hx]; [|left; right; exact Hx].
        right. split; [exact E|]. split; [reflexivity|].
        intros e Hin. cbn in Hin. apply in_app_or in Hin. destruct Hin as [Hin|Hin]; [apply Hm; exact Hin|apply He; exact Hin].
    + inv_bind H. destruct x0 as [[rest' pr1] b1]. inversion H; subst; clear H.
      destruct Hx as [<-|Hx]; [left; left; reflexivity|].
      destruct (IH _ _ _ _ Hx0 He (fun y Hy => Hq y (or_intror Hy)) x Hx) as [K|K];
        [left; right; exact K|right; exact K].
Qed.

(* every message in the queue after maybe_send_append was there before, is a snapshot, or
   is a fresh append *)
Theorem maybe_send_append_fresh r to pr ae r' pr' b :
  maybe_send_append r to pr ae = Ok (r', pr', b) -> queue_ships_log r ->
  r_log r' = r_log r /\
  forall x, In x (r_msgs r') ->
    In x (r_msgs r) \/ m_type x = MsgSnapshot \/ fresh_append r x.
Proof.
  intros H Hq. unfold maybe_send_append in H.
  destruct (is_paused pr); [inversion H; subst; split; [reflexivity|intros x Hx; left; exact Hx]|].
  assert (Hsnap : forall r' pr' b,
    (x <- prepare_send_snapshot r (msg_default <| m_to := to |>) pr to ;;
     match x with
     | None => Ok (r, pr, false)
     | Some (m', pr') => r' <- send r m' ;; Ok (r', pr', true)
     end) = Ok (r', pr', b) ->
    r_log r' = r_log r /\
    forall x, In x (r_msgs r') -> In x (r_msgs r) \/ m_type x = MsgSnapshot \/ fresh_append r x).
  { clear H. intros r1 pr1 b1 H. apply bind_ok in H. destruct H as (o & Hp & H).
    destruct o as [[m1 p1]|].
    - apply bind_ok in H. destruct H as (rs & Hs & H). inversion H; subst; clear H.
      apply send_keeps in Hs. destruct Hs as (y & -> & Ty & _).
      split; [reflexivity|]. intros x Hx. cbn in Hx. apply in_app_or in Hx.
      destruct Hx as [Hx|[<-|[]]]; [left; exact Hx|]. right; left. rewrite Ty.
      eapply prepare_send_snapshot_type; exact Hp.
    - inversion H; subst. split; [reflexivity|]. intros x Hx. left; exact Hx. }
  destruct (negb (pending_request_snapshot pr =? INVALID_INDEX)); [eapply Hsnap; exact H|].
  apply bind_ok in H. destruct H as (oe & He & H).
  match type of H with (if ?c then _ else _) = _ => destruct c end;
    [inversion H; subst; split; [reflexivity|intros x Hx; left; exact Hx]|].
  destruct (next_idx pr =? 0); [discriminate|].
  apply bind_ok in H. destruct H as (ot & Ht & H).
  destruct ot as [t|e0]; destruct oe as [ents|e1];
    try (eapply Hsnap; exact H);
    try (destruct e1; first [eapply Hsnap; exact H
                            | inversion H; subst; split; [reflexivity|intros x Hx; left; exact Hx]]).
  assert (Hents : forall e, In e ents -> all_ents (r_log r) e)
    by (intros e Hin; eapply log_entries_incl; eassumption).
  apply bind_ok in H. destruct H as ([[msgs' pr1] batched] & Hb & H).
  destruct batched.
  - inversion H; subst; clear H. split; [reflexivity|]. intros x Hx.
    change (r_msgs (r <| r_msgs := msgs' |>)) with msgs' in Hx.
    destruct (r_batch_append r).
    + destruct (try_batching_fresh _ _ _ _ _ _ _ _ Hb Hents Hq x Hx) as [K|K]; auto.
    + inversion Hb.
  - apply bind_ok in H. destruct H as ([m1 p1] & Hp & H).
    apply bind_ok in H. destruct H as (rs & Hs & H). inversion H; subst; clear H.
    apply send_keeps in Hs. destruct Hs as (y & -> & Ty & Te & Tc).
    split; [reflexivity|]. intros x Hx. cbn in Hx. apply in_app_or in Hx.
    destruct Hx as [Hx|[<-|[]]]; [left; exact Hx|]. right; right.
    unfold prepare_send_entries in Hp. destruct (next_idx pr =? 0); [discriminate|].
    assert (Hm1 : m_type m1 = MsgAppend /\ m_entries m1 = ents /\ m_commit m1 = committed (r_log r)).
    { destruct ents as [|en et]; [inversion Hp; subst; cbn; auto|].
      inv_bind Hp. inversion Hp; subst. cbn. auto. }
    destruct Hm1 as (A & B & C0). split; [congruence|]. split; [congruence|].
    intros e Hin. rewrite Te, B in Hin. apply Hents. exact Hin.
Qed.

Lemma queue_ships_log_step r r' :
  r_log r' = r_log r ->
  (forall x, In x (r_msgs r') -> In x (r_msgs r) \/ m_type x = MsgSnapshot \/ fresh_append r x) ->
  queue_ships_log r -> queue_ships_log r'.
Proof.
  intros Hl Hm Hq x Hx Ty. rewrite Hl. destruct (Hm x Hx) as [K|[K|K]].
  - apply Hq; assumption.
  - rewrite Ty in K. discriminate.
  - apply K.
Qed.

(* the same for send_append / bcast_append: whatever they add to the queue is a snapshot or
   a fresh append of the (unchanged) log *)
Definition adds_fresh (r r' : raft) : Prop :=
  r_log r' = r_log r /\
  forall x, In x (r_msgs r') -> In x (r_msgs r) \/ m_type x = MsgSnapshot \/ fresh_append r x.

Lemma adds_fresh_refl r : adds_fresh r r.
Proof. split; [reflexivity|]. intros x Hx. left; exact Hx. Qed.

Lemma fresh_append_same_log r r1 x : r_log r1 = r_log r -> fresh_append r1 x -> fresh_append r x.
Proof. unfold fresh_append. intros ->. auto. Qed.

Lemma adds_fresh_trans a b c : adds_fresh a b -> adds_fresh b c -> adds_fresh a c.
Proof.
  intros [L1 M1] [L2 M2]. split; [congruence|]. intros x Hx.
  destruct (M2 x Hx) as [K|[K|K]]; [apply M1; exact K|right; left; exact K|].
  right; right. eapply fresh_append_same_log; eassumption.
Qed.

Theorem send_append_to_fresh r to r' :
  send_append_to r to = Ok r' -> queue_ships_log r -> adds_fresh r r'.
Proof.
  unfold send_append_to. intros H Hq. destruct (get_pr r to); [|discriminate].
  inv_bind H. destruct x as [[r1 p1] b]. inversion H; subst; clear H.
  apply maybe_send_append_fresh in Hx; [|exact Hq]. exact Hx.
Qed.

Theorem bcast_append_fresh r r' :
  bcast_append r = Ok r' -> queue_ships_log r -> adds_fresh r r'.
Proof.
  unfold bcast_append. generalize (pids (t_progress (r_prs r))) as ids. generalize (r_id r) as self.
  intros self ids. revert r. induction ids as [|id rest IH]; intros r H Hq; cbn [for_each_peer] in H.
  - inversion H; apply adds_fresh_refl.
  - destruct (id =? self); [apply IH; assumption|].
    inv_bind H. pose proof (send_append_to_fresh _ _ _ Hx Hq) as K1.
    eapply adds_fresh_trans; [exact K1|]. apply IH; [exact H|].
    destruct K1 as [L1 M1]. eapply queue_ships_log_step; eassumption.
Qed.

(* (1) every MsgAppend the append-sending path adds to the queue carries a commit index that
   covers all but the last membership-change entry it ships *)
Theorem leader_appends_cover_conf r r' :
  adds_fresh r r' ->
  conf_gap (r_log r) (applied (r_log r)) -> applied (r_log r) <= committed (r_log r) ->
  forall x, In x (r_msgs r') -> ~ In x (r_msgs r) -> m_type x = MsgAppend ->
    m_commit x = committed (r_log r) /\ ships_log (r_log r) x /\ ship_ok (r_log r) x.
Proof.
  intros [_ Hm] Hg Hac x Hx Hn Ty. destruct (Hm x Hx) as [K|[K|K]]; [contradiction|rewrite Ty in K; discriminate|].
  split; [apply K|]. split; [apply K|]. apply fresh_ship_ok; assumption.
Qed.

(* ================================================================== *)
(* 2. follower side: an accepted append raises the commit index at least to what the message
      says (bounded by what it shipped); the upper bound is C04_follower_commit_bound *)

Transparent log_append.
Lemma log_append_nil' l : log_append l [] = Ok (l, last_index l).
Proof. reflexivity. Qed.
Opaque log_append.

Lemma log_append_frame l ents l' z :
  log_append l ents = Ok (l', z) ->
  store l' = store l /\ applied l' = applied l /\ committed l' = committed l /\
  (forall e, In e (u_entries (unst l')) -> In e (u_entries (unst l)) \/ In e ents).
Proof.
  intros H. destruct ents as [|e0 et].
  - rewrite log_append_nil' in H. inversion H; subst. repeat split; auto.
  - apply log_append_spec in H; [|discriminate]. destruct H as (A & B & C0 & D & _). auto.
Qed.

Lemma In_skipn {A} (n : nat) : forall (l : list A) x, In x (skipn n l) -> In x l.
Proof.
  induction n as [|n IH]; intros l x H; [exact H|]. destruct l as [|a l]; [destruct H|].
  right. apply IH. exact H.
Qed.

Lemma commit_to_committed l tc l' :
  commit_to l tc = Ok l' ->
  committed l' = N.max (committed l) tc /\ store l' = store l /\ unst l' = unst l /\ applied l' = applied l.
Proof.
  unfold commit_to. intros H. destruct (tc <=? committed l) eqn:E.
  - inversion H; subst. apply N.leb_le in E. repeat split; auto. lia.
  - destruct (last_index l <? tc); [discriminate|]. inversion H; subst. apply N.leb_gt in E.
    cbn. repeat split; auto. lia.
Qed.

Theorem maybe_append_accept l i t cmt ents l' ci last_new :
  maybe_append l i t cmt ents = Ok (l', Some (ci, last_new)) ->
  last_new = i + N.of_nat (length ents) /\
  committed l' = N.max (committed l) (N.min cmt last_new) /\
  applied l' = applied l /\ store l' = store l /\
  (forall e, all_ents l' e -> all_ents l e \/ In e ents).
Proof.
  unfold maybe_append. intros H. apply bind_ok in H. destruct H as (b & _ & H).
  destruct (negb b); [discriminate|].
  apply bind_ok in H. destruct H as (c0 & _ & H).
  apply bind_ok in H. destruct H as (l1 & H1 & H).
  destruct (u64_max <? i + N.of_nat (length ents)); [discriminate|].
  apply bind_ok in H. destruct H as (l2 & H2 & H). inversion H; subst; clear H.
  apply commit_to_committed in H2. destruct H2 as (C1 & C2 & C3 & C4).
  assert (K : store l1 = store l /\ applied l1 = applied l /\ committed l1 = committed l /\
              (forall e, In e (u_entries (unst l1)) -> In e (u_entries (unst l)) \/ In e ents)).
  { destruct (ci =? 0); [inversion H1; subst; repeat split; auto|].
    destruct (ci <=? committed l); [discriminate|].
    destruct (i =? u64_max); [discriminate|].
    destruct (ci <? i + 1); [discriminate|].
    match type of H1 with (if ?c then _ else _) = _ => destruct c end; [discriminate|].
    apply bind_ok in H1. destruct H1 as ([la za] & Ha & H1). cbn [fst] in H1.
    apply log_append_frame in Ha. destruct Ha as (A & B & C0 & D).
    assert (D' : forall e, In e (u_entries (unst la)) -> In e (u_entries (unst l)) \/ In e ents).
    { intros e He. destruct (D e He) as [K|K]; [left; exact K|right]. eapply In_skipn. exact K. }
    destruct (ci - 1 <? persisted la); inversion H1; subst; repeat split; auto. }
  destruct K as (K1 & K2 & K3 & K4).
  split; [reflexivity|]. split; [rewrite C1, K3; reflexivity|].
  split; [congruence|]. split; [congruence|].
  intros e [He|He].
  - rewrite C3 in He. destruct (K4 e He) as [K|K]; [left; left; exact K|right; exact K].
  - rewrite C2, K1 in He. left; right; exact He.
Qed.

(* (2) the accepted case of handle_append_entries *)
Theorem follower_commit_lower r m r' :
  handle_append_entries r m = Ok r' ->
  r_pending_request_snapshot r = INVALID_INDEX ->
  committed (r_log r) <= m_index m ->
  match_term (r_log r) (m_index m) (m_log_term m) = Ok true ->
  let lastnew := m_index m + N.of_nat (length (m_entries m)) in
  committed (r_log r') = N.max (committed (r_log r)) (N.min (m_commit m) lastnew) /\
  N.min (m_commit m) lastnew <= committed (r_log r') /\
  committed (r_log r) <= committed (r_log r') /\
  applied (r_log r') = applied (r_log r) /\
  (forall e, all_ents (r_log r') e -> all_ents (r_log r) e \/ In e (m_entries m)).
Proof.
  intros H Hp Hc Hm lastnew. unfold handle_append_entries in H. rewrite Hp in H.
  change (INVALID_INDEX =? INVALID_INDEX) with true in H. cbn [negb] in H.
  assert (E : (m_index m <? committed (r_log r)) = false) by (apply N.ltb_ge; exact Hc).
  rewrite E in H. apply bind_ok in H. destruct H as ([l' res] & Ha & H).
  destruct res as [[ci ln]|].
  - apply send_keeps in H. destruct H as (y & -> & _).
    apply maybe_append_accept in Ha. destruct Ha as (A & B & C0 & D & F).
    change (r_log (r <| r_log := l' |> <| r_msgs := _ |>)) with l'.
    subst ln. fold lastnew in B. rewrite B. repeat split; auto; lia.
  - exfalso. unfold maybe_append in Ha. rewrite Hm in Ha. cbn [bind negb] in Ha.
    apply bind_ok in Ha. destruct Ha as (c0 & _ & Ha).
    apply bind_ok in Ha. destruct Ha as (l1 & _ & Ha).
    destruct (u64_max <? m_index m + N.of_nat (length (m_entries m))); [discriminate|].
    apply bind_ok in Ha. destruct Ha as (l2 & _ & Ha). inversion Ha.
Qed.

(* ================================================================== *)
(* 3. the combination, node-local *)

(* every membership-change entry of the log except possibly the last is committed *)
Definition FollowerConfGap (r : raft) : Prop := conf_gap (r_log r) (committed (r_log r)).

(* THE RESIDUAL CROSS-NODE HYPOTHESIS.  Of two membership-change entries of which at least
   one comes from the message (the other from the message or from the receiver's log), the
   lower one is covered by the message's commit index and lies within what the message
   ships.  On the sender's side this is ship_ok (theorem leader_appends_cover_conf); that it
   also holds against the RECEIVER's entries is agreement of the two logs up to the
   message's last index, i.e. cross-node log matching (protocol level, C05), which the node
   model alone cannot provide. *)
Definition prefix_conf_agree (l : raft_log) (m : msg) : Prop :=
  forall e1 e2,
    (all_ents l e1 \/ In e1 (m_entries m)) -> (all_ents l e2 \/ In e2 (m_entries m)) ->
    (In e1 (m_entries m) \/ In e2 (m_entries m)) ->
    is_conf_entry e1 = true -> is_conf_entry e2 = true -> e_index e1 < e_index e2 ->
    e_index e1 <= N.min (m_commit m) (m_index m + N.of_nat (length (m_entries m))).

Theorem follower_conf_gap_preserved_partial r m r' :
  handle_append_entries r m = Ok r' ->
  r_pending_request_snapshot r = INVALID_INDEX ->
  committed (r_log r) <= m_index m ->
  match_term (r_log r) (m_index m) (m_log_term m) = Ok true ->
  FollowerConfGap r -> prefix_conf_agree (r_log r) m ->
  FollowerConfGap r'.
Proof.
  intros H Hp Hc Hm Hg Hpa.
  destruct (follower_commit_lower _ _ _ H Hp Hc Hm) as (_ & L1 & L2 & _ & Hsub).
  intros e1 e2 A1 A2 C1 C2 Hlt.
  pose proof (Hsub e1 A1) as S1. pose proof (Hsub e2 A2) as S2.
  destruct S1 as [O1|N1]; destruct S2 as [O2|N2].
  - pose proof (Hg e1 e2 O1 O2 C1 C2 Hlt). lia.
  - pose proof (Hpa e1 e2 (or_introl O1) (or_intror N2) (or_intror N2) C1 C2 Hlt). lia.
  - pose proof (Hpa e1 e2 (or_intror N1) (or_introl O2) (or_introl N1) C1 C2 Hlt). lia.
  - pose proof (Hpa e1 e2 (or_intror N1) (or_intror N2) (or_introl N1) C1 C2 Hlt). lia.
Qed.

(* the other ways handle_append_entries answers leave the log alone *)
Theorem follower_conf_gap_other_cases r m r' :
  handle_append_entries r m = Ok r' ->
  (r_pending_request_snapshot r <> INVALID_INDEX \/ m_index m < committed (r_log r) \/
   match_term (r_log r) (m_index m) (m_log_term m) = Ok false) ->
  r_log r' = r_log r.
Proof.
  intros H Hc. unfold handle_append_entries in H.
  destruct (negb (r_pending_request_snapshot r =? INVALID_INDEX)) eqn:Ep.
  { unfold send_request_snapshot in H. inv_bind H. destruct x; [|discriminate].
    apply send_keeps in H. destruct H as (y & -> & _). reflexivity. }
  apply negb_false_iff, N.eqb_eq in Ep.
  destruct (m_index m <? committed (r_log r)) eqn:Elt.
  { apply send_keeps in H. destruct H as (y & -> & _). reflexivity. }
  apply N.ltb_ge in Elt. destruct Hc as [Hc|[Hc|Hc]]; [congruence|lia|].
  apply bind_ok in H. destruct H as ([l' res] & Ha & H).
  unfold maybe_append in Ha. rewrite Hc in Ha. cbn [bind negb] in Ha. inversion Ha; subst.
  apply bind_ok in H. destruct H as (y & _ & H). destruct y as [hi [ht|]]; [|discriminate].
  apply send_keeps in H. destruct H as (z & -> & _). reflexivity.
Qed.

(* with hup: when a campaign actually starts, at most one membership-change entry of the
   node's whole log lies above applied.  [window_clean] is what the scan of hup establishes
   (no membership change in (applied, committed]); it is a hypothesis here because the
   meaning of a negative scan needs slice correctness (see the header of Props/C09.v); it
   is vacuous when committed <= applied *)
Definition window_clean (l : raft_log) : Prop :=
  forall e, all_ents l e -> is_conf_entry e = true -> applied l < e_index e -> committed l < e_index e.

Lemma window_clean_caught_up l : committed l <= applied l -> window_clean l.
Proof. intros H e _ _ Ha. lia. Qed.

Theorem campaign_one_behind r tl r' :
  FollowerConfGap r -> hup r tl = Ok r' -> r' <> r -> window_clean (r_log r) ->
  is_leader r = false /\ r_promotable r = true /\ hup_scan r false /\
  conf_gap (r_log r) (applied (r_log r)).
Proof.
  intros Hg H Hne Hw. destruct (hup_guard _ _ _ H Hne) as (A & B & C0 & _).
  repeat split; try assumption.
  intros e1 e2 A1 A2 C1 C2 Hlt. pose proof (Hg e1 e2 A1 A2 C1 C2 Hlt) as K.
  destruct (N.le_gt_cases (e_index e1) (applied (r_log r))) as [L|L]; [exact L|].
  pose proof (Hw e1 A1 C1 L). lia.
Qed.

(* ================================================================== *)
(* 4. the literal clause "(1) follows from ConfBound alone" is false: a leader whose log it
      inherited holds two membership changes above its commit index ships both *)
Module OneBehindSamples.
Import C09Samples.

Definition w_log (cm ap : N) : raft_log :=
  mkLog (mkMem (mkHS 2 1 cm) (mkCS [1; 2; 3] [] [] [] false) [e_norm 1 1; e_cc 1 2; e_cc 2 3] 0 0
               false false None)
        (mkUn None [] 0 4) cm 3 ap 0.

Definition w_prs : Raft.tracker :=
  mkTr [(1, s_pr 3); (2, mkPr 1 2 Replicate false 0 0 true (Inflights.new 4) 0 0); (3, s_pr 3)]
       c3 [] 4 false.

(* two membership changes (2, 3) above commit = applied = 1, pending_conf_index = 3 *)
Definition w_leader_two : raft :=
  mkRaft 2 1 1 [] (w_log 1 1) 4 u64_max 0 Leader true 1 None 3 (ro_new 0) 0 0 false false false
         false false 1 10 15 10 20 0%Z u64_max 0 3 u64_max w_prs [] [12; 13; 14] None.

(* the healthy case: entry 2 applied, only entry 3 above applied *)
Definition w_leader_one : raft :=
  mkRaft 2 1 1 [] (w_log 2 2) 4 u64_max 0 Leader true 1 None 3 (ro_new 0) 0 0 false false false
         false false 1 10 15 10 20 0%Z u64_max 0 3 u64_max w_prs [] [12; 13; 14] None.

(* a follower holding entries 1, 2(cc) with commit 1, and the append [3(cc)] at commit 2 *)
Definition w_follower : raft :=
  mkRaft 2 1 2 []
    (mkLog (mkMem (mkHS 2 1 1) (mkCS [1; 2; 3] [] [] [] false) [e_norm 1 1; e_cc 1 2] 0 0
                  false false None) (mkUn None [] 0 3) 1 2 1 0)
    4 u64_max 0 Follower true 1 None 0 (ro_new 0) 0 0 false false false
    false false 1 10 15 10 20 0%Z u64_max 0 3 u64_max (s_prs c3) [] [12; 13; 14] None.

Definition w_append : msg :=
  msg_default <| m_type := MsgAppend |> <| m_from := 1 |> <| m_to := 2 |> <| m_term := 2 |>
    <| m_index := 2 |> <| m_log_term := 1 |> <| m_entries := [e_cc 2 3] |> <| m_commit := 2 |>.

End OneBehindSamples.

Theorem leader_cover_from_ConfBound_refuted :
  exists r r' x,
    r_state r = Leader /\ ConfBound r /\ applied (r_log r) <= committed (r_log r) /\
    send_append_to r 2 = Ok r' /\ In x (r_msgs r') /\ m_type x = MsgAppend /\
    ~ ship_ok (r_log r) x.
Proof.
  exists OneBehindSamples.w_leader_two.
  destruct (send_append_to OneBehindSamples.w_leader_two 2) as [r'|s] eqn:E;
    [|vm_compute in E; discriminate].
  exists r'. vm_compute in E. inversion E; subst r'; clear E.
  eexists. split; [reflexivity|]. split.
  { intros e [H|H] Hc Ha; vm_compute in H; [contradiction|].
    repeat destruct H as [H|H]; try contradiction; subst e; vm_compute; discriminate. }
  split; [vm_compute; discriminate|]. split; [reflexivity|].
  split; [left; reflexivity|]. split; [reflexivity|].
  intros K.
  specialize (K (C09Samples.e_cc 1 2) (C09Samples.e_cc 2 3)).
  assert (Hk : e_index (C09Samples.e_cc 1 2) <= 1).
  { apply K; [right; cbn; auto|cbn; auto|reflexivity|reflexivity|vm_compute; reflexivity]. }
  vm_compute in Hk. apply Hk. reflexivity.
Qed.

(* ================================================================== *)
(* 5. the leader's own proposals keep "at most one membership change above applied"
      (the filter argument): the hypothesis of leader_appends_cover_conf is preserved by
      the MsgPropose path; what a NEW leader inherits is protocol level *)

Transparent stamp.
Lemma stamp_In ents : forall t n e',
  In e' (stamp ents t n) ->
  exists k e, nth_error ents k = Some e /\ e_index e' = n + N.of_nat k /\
              is_conf_entry e' = is_conf_entry e.
Proof.
  induction ents as [|e0 rest IH]; intros t n e' H; cbn [stamp] in H; [destruct H|].
  destruct H as [<-|H].
  - exists 0%nat, e0. cbn. split; [reflexivity|]. split; [lia|reflexivity].
  - destruct (IH _ _ _ H) as (k & e & A & B & C0). exists (S k), e. cbn [nth_error].
    split; [exact A|]. split; [lia|exact C0].
Qed.
Opaque stamp.

Lemma filter_count_one {A} (f : A -> bool) l k a :
  nth_error l k = Some a -> f a = true -> (1 <= length (List.filter f l))%nat.
Proof.
  revert k. induction l as [|x l IH]; intros k H Hf; [destruct k; discriminate|].
  cbn [List.filter]. destruct k as [|k]; cbn [nth_error] in H.
  - inversion H; subst. rewrite Hf. cbn. lia.
  - specialize (IH k H Hf). destruct (f x); cbn; lia.
Qed.

Lemma filter_count_two {A} (f : A -> bool) l k1 k2 a b :
  nth_error l k1 = Some a -> nth_error l k2 = Some b -> (k1 < k2)%nat ->
  f a = true -> f b = true -> (2 <= length (List.filter f l))%nat.
Proof.
  revert k1 k2. induction l as [|x l IH]; intros k1 k2 H1 H2 Hlt Fa Fb; [destruct k1; discriminate|].
  cbn [List.filter]. destruct k1 as [|k1]; cbn [nth_error] in H1.
  - inversion H1; subst. rewrite Fa. destruct k2 as [|k2]; [lia|]. cbn [nth_error] in H2.
    pose proof (filter_count_one f l k2 b H2 Fb). cbn. lia.
  - destruct k2 as [|k2]; [lia|]. cbn [nth_error] in H2.
    specialize (IH k1 k2 H1 H2 ltac:(lia) Fa Fb). destruct (f x); cbn; lia.
Qed.

Theorem propose_keeps_conf_gap r m r' c :
  m_type m = MsgPropose -> step_leader r m = Ok (r', c) ->
  ConfBound r -> LogBounded (r_log r) -> applied (r_log r) <= last_index (r_log r) ->
  conf_gap (r_log r) (applied (r_log r)) ->
  conf_gap (r_log r') (applied (r_log r')).
Proof.
  intros Ht H Hcb Hlb Hal Hg. apply step_leader_propose_spec in H; [|exact Ht].
  destruct H as [(_ & Hl & _)|(_ & r1 & ents & l' & z & r2 & F & Hy & _ & Hl2 & Hfr)].
  { rewrite Hl. exact Hg. }
  destruct Hfr as (_ & _ & (U & S & Ap) & _).
  pose proof (log_append_frame _ _ _ _ Hy) as (A & B & _ & D).
  assert (Happ : applied (r_log r') = applied (r_log r)) by congruence.
  rewrite Happ.
  assert (Hsub : forall e, all_ents (r_log r') e ->
            all_ents (r_log r) e \/ In e (stamp ents (r_term r) (last_index (r_log r) + 1))).
  { intros e [He|He].
    - rewrite U, Hl2 in He. destruct (D e He) as [K|K]; [left; left; exact K|right; exact K].
    - rewrite S, Hl2, A in He. left; right; exact He. }
  intros e1 e2 A1 A2 C1 C2 Hlt.
  destruct (Hsub e1 A1) as [O1|N1]; destruct (Hsub e2 A2) as [O2|N2].
  - exact (Hg e1 e2 O1 O2 C1 C2 Hlt).
  - (* e1 old, e2 new: a new membership change passed the filter, so none was pending *)
    destruct (N.le_gt_cases (e_index e1) (applied (r_log r))) as [L|L]; [exact L|]. exfalso.
    pose proof (Hcb e1 O1 C1 L) as Hp.
    assert (Hpend : has_pending_conf r = true) by (unfold has_pending_conf; apply N.ltb_lt; lia).
    destruct (filter_pending_blocks _ _ _ _ _ _ F Hpend) as [Hz _].
    destruct (stamp_In _ _ _ _ N2) as (k & e & Hk & _ & Hc). rewrite C2 in Hc.
    pose proof (filter_count_one is_conf_entry ents k e Hk (eq_sym Hc)). unfold count_conf in *. lia.
  - (* e1 new, e2 old: impossible, new entries lie above the whole old log *)
    exfalso. destruct (stamp_In _ _ _ _ N1) as (k & e & _ & Hi & _).
    pose proof (Hlb e2 O2). lia.
  - (* both new: the filter lets at most one through *)
    exfalso. destruct (stamp_In _ _ _ _ N1) as (k1 & a & Hk1 & Hi1 & Hc1).
    destruct (stamp_In _ _ _ _ N2) as (k2 & b & Hk2 & Hi2 & Hc2).
    rewrite C1 in Hc1. rewrite C2 in Hc2.
    pose proof (one_conf_per_proposal _ _ _ _ _ _ F Hal) as Hone.
    pose proof (filter_count_two is_conf_entry ents k1 k2 a b Hk1 Hk2 ltac:(lia) (eq_sym Hc1) (eq_sym Hc2)).
    unfold count_conf in *. lia.
Qed.
