(* C17, completion clause: in a healthy three-voter cluster under a lock-step full-mesh
   schedule a requested leadership transfer completes within three rounds: the target
   leads the next term holding every entry the old leader had, and the old leader (and the
   third voter) follow it.  Per-node theorems are for all states; the cluster theorem
   composes them.  Statements are pinned in Props/C17.v. *)
From RV Require Import Base.Prelude Base.IdSet Base.IdSetProofs M.Util M.Proto M.MemStorage
  M.Inflights M.Progress M.RaftLog M.Quorum M.ConfChange M.Msg M.Raft M.RawNode
  M.RaftProofs M.RaftProofsC17 M.RaftProofsC09.
From RV Require M.QuorumProofs M.MemStorageProofs M.RaftLogProofs M.RaftLogProofsOps.
From RecordUpdate Require Import RecordSet.
Import RecordSetNotations.

Local Open Scope N_scope.

(* ================================================================== *)
(* 0. the schedule *)

Fixpoint msteps (r : raft) (ms : list msg) : Res raft :=
  match ms with
  | [] => Ok r
  | m :: t => x <- step r m ;; msteps (fst x) t
  end.

Fixpoint mmapM {A B} (g : A -> Res B) (xs : list A) : Res (list B) :=
  match xs with
  | [] => Ok []
  | x :: t => y <- g x ;; ys <- mmapM g t ;; Ok (y :: ys)
  end.

(* everything queued anywhere for node [id], sender after sender in list order *)
Definition inbox (id : N) (rs : list raft) : list msg :=
  flat_map (fun s => filter (fun m => m_to m =? id) (r_msgs s)) rs.

(* a node's own queue is handed to the network, then its inbox is stepped in order *)
Definition deliver (rs : list raft) (r : raft) : Res raft :=
  msteps (r <| r_msgs := [] |>) (inbox (r_id r) rs).

Definition tick1 (r : raft) : Res raft := x <- tick r ;; Ok (fst x).

(* one lock-step full-mesh round: every queued message of every node is delivered to its
   addressee; then every node ticks once *)
Definition mesh_round (rs : list raft) : Res (list raft) :=
  rs1 <- mmapM (deliver rs) rs ;; mmapM tick1 rs1.

Fixpoint mesh_rounds (n : nat) (rs : list raft) : Res (list raft) :=
  match n with
  | O => Ok rs
  | S k => rs1 <- mesh_round rs ;; mesh_rounds k rs1
  end.

(* ================================================================== *)
(* 1. reset, in full *)

Lemma reset_facts r t r' :
  reset r t = Ok r' ->
  r_state r' = r_state r /\ r_log r' = r_log r /\ conf_of r' = conf_of r /\ r_id r' = r_id r /\
  r_promotable r' = r_promotable r /\ r_term r' = t /\ r_msgs r' = r_msgs r /\
  r_priority r' = r_priority r /\ r_election_timeout r' = r_election_timeout r /\
  r_heartbeat_timeout r' = r_heartbeat_timeout r /\
  r_lead_transferee r' = None /\ r_election_elapsed r' = 0 /\ r_heartbeat_elapsed r' = 0 /\
  r_leader_id r' = INVALID_ID /\ t_votes (r_prs r') = [] /\
  r_draws r = r_randomized_election_timeout r' :: r_draws r' /\
  (r_term r <> t -> r_vote r' = INVALID_ID) /\ (r_term r = t -> r_vote r' = r_vote r).
Proof.
  unfold reset. intros H.
  destruct (N.eqb_spec (r_term r) t) as [Et|Et]; cbn [negb] in H;
  match type of H with match ?d with _ => _ end = _ => destruct d eqn:Ed end;
    try discriminate; inversion H; subst; cbn; repeat split; try reflexivity; try exact Ed;
    try (intros K; congruence).
Qed.

Lemma become_follower_facts r t l r' :
  become_follower r t l = Ok r' ->
  r_state r' = Follower /\ r_log r' = set_limit (r_log r) 0 /\ conf_of r' = conf_of r /\
  r_id r' = r_id r /\ r_promotable r' = r_promotable r /\ r_term r' = t /\ r_msgs r' = r_msgs r /\
  r_priority r' = r_priority r /\ r_election_timeout r' = r_election_timeout r /\
  r_heartbeat_timeout r' = r_heartbeat_timeout r /\
  r_lead_transferee r' = None /\ r_election_elapsed r' = 0 /\ r_leader_id r' = l /\
  r_draws r = r_randomized_election_timeout r' :: r_draws r' /\
  (r_term r <> t -> r_vote r' = INVALID_ID).
Proof.
  unfold become_follower. intros H. inv_bind H. inversion H; subst; clear H. cbn.
  apply reset_facts in Hx.
  destruct Hx as (A1 & A2 & A3 & A4 & A5 & A6 & A7 & A8 & A9 & A10 & A11 & A12 & _ & _ & _ & A16 & A17 & _).
  rewrite A2. repeat split; assumption.
Qed.

(* ================================================================== *)
(* 2. sending a vote request *)

Lemma send_vote_req r m r' :
  (m_type m = MsgRequestVote \/ m_type m = MsgRequestPreVote) -> m_from m = 0 ->
  send r m = Ok r' ->
  exists x, r' = r <| r_msgs := r_msgs r ++ [x] |> /\
    m_type x = m_type m /\ m_to x = m_to m /\ m_term x = m_term m /\ m_from x = r_id r /\
    m_index x = m_index m /\ m_log_term x = m_log_term m /\ m_context x = m_context m /\
    (m_priority m = 0%Z -> m_deprecated_priority m = 0 -> get_priority x = r_priority r).
Proof.
  intros Hty Hf H. unfold send in H. unfold INVALID_ID in H. rewrite Hf in H.
  change (0 =? 0) with true in H. cbn iota in H.
  change (m_type (m <| m_from := r_id r |>)) with (m_type m) in H.
  change (m_term (m <| m_from := r_id r |>)) with (m_term m) in H.
  assert (Hv : is_vote_type (m_type m) = true) by (destruct Hty as [E|E]; rewrite E; reflexivity).
  rewrite Hv in H. destruct (m_term m =? 0); [discriminate|]. cbn [bind] in H.
  change (m_type (m <| m_from := r_id r |>)) with (m_type m) in H.
  assert (Hrv : ((m_type m =? MsgRequestVote) || (m_type m =? MsgRequestPreVote)) = true)
    by (destruct Hty as [E|E]; rewrite E; reflexivity).
  rewrite Hrv in H. inversion H; subst; clear H.
  eexists. split; [reflexivity|].
  destruct (0 <? r_priority r)%Z eqn:Ep; cbn; repeat split; try reflexivity.
  - intros _ _. unfold get_priority. cbn. destruct (r_priority r =? 0)%Z eqn:E0; [lia|reflexivity].
  - intros P0 D0. unfold get_priority. cbn. destruct (r_priority r =? 0)%Z eqn:E0; [|reflexivity].
    rewrite D0. cbn. apply Z.eqb_eq in E0. symmetry. exact E0.
Qed.

(* a forced vote request from candidate [id] at term [t], for a log ending at (li, lt) *)
Record VoteReq (id li lt t : N) (prio : Z) (to : N) (x : msg) : Prop := mkVoteReq {
  vr_type : m_type x = MsgRequestVote;
  vr_to : m_to x = to;
  vr_term : m_term x = t;
  vr_from : m_from x = id;
  vr_index : m_index x = li;
  vr_lterm : m_log_term x = lt;
  vr_ctx : m_context x = CAMPAIGN_TRANSFER;
  vr_prio : get_priority x = prio
}.

Lemma send_vote_requests_exact t cmt ct : forall ids r r',
  send_vote_requests ids r MsgRequestVote t cmt ct true = Ok r' ->
  exists lt new,
    (filter (fun v => negb (v =? r_id r)) ids <> [] -> last_term (r_log r) = Ok lt) /\
    r' = r <| r_msgs := r_msgs r ++ new |> /\
    Forall2 (VoteReq (r_id r) (last_index (r_log r)) lt t (r_priority r))
            (filter (fun v => negb (v =? r_id r)) ids) new.
Proof.
  induction ids as [|id rest IH]; intros r r' H; cbn [send_vote_requests] in H.
  - inversion H; subst. exists 0, []. split; [intros K; exfalso; apply K; reflexivity|].
    split; [rewrite app_nil_r; destruct r'; reflexivity|constructor].
  - cbn [filter]. destruct (id =? r_id r) eqn:Eid; cbn [negb].
    + apply IH. exact H.
    + apply bind_ok in H. destruct H as (lt & Hlt & H).
      apply bind_ok in H. destruct H as (r1 & Hs & H).
      apply send_vote_req in Hs; [|left; reflexivity|reflexivity].
      destruct Hs as (x & -> & S1 & S2 & S3 & S4 & S5 & S6 & S7 & S8).
      apply IH in H. destruct H as (lt2 & new & Hl2 & -> & Hf).
      change (r_id (r <| r_msgs := r_msgs r ++ [x] |>)) with (r_id r) in *.
      change (r_log (r <| r_msgs := r_msgs r ++ [x] |>)) with (r_log r) in *.
      change (r_priority (r <| r_msgs := r_msgs r ++ [x] |>)) with (r_priority r) in *.
      exists lt, (x :: new). split; [intros _; exact Hlt|]. split.
      * cbn. rewrite <- app_assoc. destruct r; reflexivity.
      * constructor.
        -- constructor; cbn in *; auto.
        -- destruct (filter (fun v => negb (v =? r_id r)) rest) as [|v0 vt] eqn:Ef.
           ++ inversion Hf. constructor.
           ++ assert (E : lt2 = lt) by (specialize (Hl2 ltac:(discriminate)); congruence).
              subst lt2. exact Hf.
Qed.

(* ================================================================== *)
(* 3. counting votes among exactly three voters *)

Lemma count_false {A} (l : list A) : QuorumProofs.count (fun _ => false) l = 0%nat.
Proof. unfold QuorumProofs.count. induction l; cbn; auto. Qed.

Lemma count_eqb_notin x l : ~ In x l -> QuorumProofs.count (N.eqb x) l = 0%nat.
Proof.
  induction l as [|y l IH]; intros H; [reflexivity|]. rewrite QuorumProofs.count_cons.
  destruct (N.eqb_spec x y) as [E|E]; [exfalso; apply H; left; auto|].
  rewrite IH; [reflexivity|]. intros K. apply H. right. exact K.
Qed.

Lemma count_eqb_one x l : NoDup l -> In x l -> QuorumProofs.count (N.eqb x) l = 1%nat.
Proof.
  induction l as [|y l IH]; intros Hn Hi; [destruct Hi|]. inversion Hn; subst.
  rewrite QuorumProofs.count_cons. destruct (N.eqb_spec x y) as [E|E].
  - subst. rewrite count_eqb_notin by assumption. reflexivity.
  - destruct Hi as [Hi|Hi]; [congruence|]. rewrite IH by assumption. reflexivity.
Qed.

Lemma vote_self_pending vs id :
  NoDup vs -> In id vs -> length vs = 3%nat ->
  tracker_vote_result vs [] (record_vote [] id true) = VotePending.
Proof.
  intros Hn Hi Hl. unfold tracker_vote_result. rewrite QuorumProofs.joint_vote_result_empty_out.
  assert (Hne : vs <> []) by (destruct vs; [discriminate|discriminate]).
  rewrite (QuorumProofs.vote_result_unfold _ _ Hne). cbv zeta. rewrite Hl.
  change (majority 3) with 2%nat.
  pose proof (QuorumProofs.vote_partition vs (assoc (record_vote [] id true))) as Hp. rewrite Hl in Hp.
  assert (Hy : QuorumProofs.yes_count (assoc (record_vote [] id true)) vs = 1%nat).
  { unfold QuorumProofs.yes_count. rewrite <- (count_eqb_one id vs Hn Hi).
    apply QuorumProofs.count_ext_in. intros v _. unfold QuorumProofs.is_yes, record_vote. cbn.
    destruct (id =? v); reflexivity. }
  assert (Hno : QuorumProofs.no_count (assoc (record_vote [] id true)) vs = 0%nat).
  { unfold QuorumProofs.no_count. rewrite <- (count_false vs).
    apply QuorumProofs.count_ext_in. intros v _. unfold QuorumProofs.is_no, record_vote. cbn.
    destruct (id =? v); reflexivity. }
  rewrite Hy, Hno in Hp. rewrite Hy.
  replace (QuorumProofs.missing_count (assoc (record_vote [] id true)) vs) with 2%nat by lia.
  reflexivity.
Qed.

Lemma vote_two_won vs id v :
  NoDup vs -> In id vs -> In v vs -> v <> id -> length vs = 3%nat ->
  tracker_vote_result vs [] (record_vote [(id, true)] v true) = VoteWon.
Proof.
  intros Hn Hi Hv Hne Hl. unfold tracker_vote_result. rewrite QuorumProofs.joint_vote_result_empty_out.
  assert (Hne' : vs <> []) by (destruct vs; [discriminate|discriminate]).
  rewrite (QuorumProofs.vote_result_unfold _ _ Hne'). cbv zeta. rewrite Hl.
  change (majority 3) with 2%nat.
  assert (Er : record_vote [(id, true)] v true = [(v, true); (id, true)]).
  { unfold record_vote. cbn. destruct (N.eqb_spec id v); [congruence|reflexivity]. }
  rewrite Er.
  assert (Hy : (2 <= QuorumProofs.yes_count (assoc [(v, true); (id, true)]) vs)%nat).
  { unfold QuorumProofs.yes_count.
    (* the voters split into v, id and the rest *)
    clear Er Hl Hne'. induction vs as [|w vs IH]; [destruct Hi|].
    inversion Hn; subst. rewrite QuorumProofs.count_cons.
    destruct (N.eqb_spec v w) as [E1|E1].
    - subst w. destruct Hi as [Hi|Hi]; [congruence|].
      assert (Hh : QuorumProofs.is_yes (assoc [(v, true); (id, true)]) v = true)
        by (unfold QuorumProofs.is_yes; cbn [assoc]; rewrite N.eqb_refl; reflexivity).
      rewrite Hh.
      assert (K : (1 <= QuorumProofs.count (QuorumProofs.is_yes (assoc [(v, true); (id, true)])) vs)%nat).
      { rewrite <- (count_eqb_one id vs H2 Hi).
        apply QuorumProofs.count_mono. intros x _ Hx. unfold QuorumProofs.is_yes. cbn [assoc].
        apply N.eqb_eq in Hx. subst x. rewrite N.eqb_refl. destruct (v =? id); reflexivity. }
      lia.
    - destruct (N.eqb_spec id w) as [E2|E2].
      + subst w. destruct Hv as [Hv|Hv]; [congruence|].
        assert (Hh : QuorumProofs.is_yes (assoc [(v, true); (id, true)]) id = true)
          by (unfold QuorumProofs.is_yes; cbn [assoc]; rewrite N.eqb_refl; destruct (v =? id); reflexivity).
        rewrite Hh.
        assert (K : (1 <= QuorumProofs.count (QuorumProofs.is_yes (assoc [(v, true); (id, true)])) vs)%nat).
        { rewrite <- (count_eqb_one v vs H2 Hv).
          apply QuorumProofs.count_mono. intros x _ Hx. unfold QuorumProofs.is_yes. cbn [assoc].
          apply N.eqb_eq in Hx. subst x. rewrite N.eqb_refl. reflexivity. }
        lia.
      + destruct Hi as [Hi|Hi]; [congruence|]. destruct Hv as [Hv|Hv]; [congruence|].
        specialize (IH H2 Hi Hv). lia. }
  destruct (2 <=? QuorumProofs.yes_count (assoc [(v, true); (id, true)]) vs)%nat eqn:E; [reflexivity|].
  apply Nat.leb_gt in E. lia.
Qed.

(* ================================================================== *)
(* 4. the per-node steps of a transfer *)

(* the facts about a node that no step of the transfer changes *)
Definition same_static (r r' : raft) : Prop :=
  conf_of r' = conf_of r /\ r_id r' = r_id r /\ r_priority r' = r_priority r /\
  r_election_timeout r' = r_election_timeout r /\ r_heartbeat_timeout r' = r_heartbeat_timeout r /\
  r_promotable r' = r_promotable r.

Lemma same_static_refl r : same_static r r.
Proof. repeat split. Qed.
Lemma same_static_trans a b c : same_static a b -> same_static b c -> same_static a c.
Proof. unfold same_static. intuition congruence. Qed.

(* (b) the target, told to time out now, runs the forced campaign *)
Theorem target_campaigns T m T' c vs :
  r_state T = Follower -> r_promotable T = true ->
  m_type m = MsgTimeoutNow -> same_term_msg T m ->
  committed (r_log T) <= applied (r_log T) ->
  incoming (conf_of T) = vs -> outgoing (conf_of T) = [] ->
  NoDup vs -> In (r_id T) vs -> length vs = 3%nat ->
  step T m = Ok (T', c) ->
  same_static T T' /\
  r_state T' = Candidate /\ r_term T' = r_term T + 1 /\ r_vote T' = r_id T /\
  r_log T' = r_log T /\ t_votes (r_prs T') = [(r_id T, true)] /\
  r_lead_transferee T' = None /\ r_election_elapsed T' = 0 /\
  r_draws T = r_randomized_election_timeout T' :: r_draws T' /\
  exists lt new,
    last_term (r_log T) = Ok lt /\ r_msgs T' = r_msgs T ++ new /\
    Forall2 (VoteReq (r_id T) (last_index (r_log T)) lt (r_term T + 1) (r_priority T))
            (filter (fun v => negb (v =? r_id T)) vs) new.
Proof.
  intros Hs Hp Hty Hterm Hca Hin Hout Hnd Hid Hlen H.
  rewrite (step_main_same_term _ _ Hterm) in H. unfold step_main in H. rewrite Hty, Hs in H.
  change (MsgTimeoutNow =? MsgHup) with false in H.
  change (MsgTimeoutNow =? MsgRequestVote) with false in H.
  change (MsgTimeoutNow =? MsgRequestPreVote) with false in H. cbn [orb] in H.
  unfold step_follower in H. rewrite Hty, Hp in H.
  change (MsgTimeoutNow =? MsgPropose) with false in H.
  change (MsgTimeoutNow =? MsgAppend) with false in H.
  change (MsgTimeoutNow =? MsgHeartbeat) with false in H.
  change (MsgTimeoutNow =? MsgSnapshot) with false in H.
  change (MsgTimeoutNow =? MsgTransferLeader) with false in H.
  change (MsgTimeoutNow =? MsgTimeoutNow) with true in H. cbn iota in H.
  apply bind_ok in H. destruct H as (T1 & Hh & H). inversion H; subst T1 c; clear H.
  (* hup: not leader, promotable, nothing unapplied *)
  unfold hup in Hh. unfold is_leader in Hh. rewrite Hs, Hp in Hh. cbn [role_eqb negb] in Hh.
  apply bind_ok in Hh. destruct Hh as (low & _ & Hh).
  apply bind_ok in Hh. destruct Hh as (b & Hb & Hh).
  unfold has_unapplied_conf_changes in Hb.
  assert (Ec : (committed (r_log T) <=? applied (r_log T)) = true) by (apply N.leb_le; exact Hca).
  rewrite Ec in Hb. inversion Hb; subst b; clear Hb.
  (* campaign_real true *)
  unfold campaign_real in Hh.
  apply bind_ok in Hh. destruct Hh as (r1 & Hbc & Hh).
  apply bind_ok in Hh. destruct Hh as ([r2 res] & Hpoll & Hh).
  unfold become_candidate in Hbc. unfold is_leader in Hbc. rewrite Hs in Hbc. cbn [role_eqb] in Hbc.
  apply bind_ok in Hbc. destruct Hbc as (r0 & Hr & Hbc). inversion Hbc; subst r1; clear Hbc.
  apply reset_facts in Hr.
  destruct Hr as (R1 & R2 & R3 & R4 & R5 & R6 & R7 & R8 & R9 & R10 & R11 & R12 & R13 & R14 & R15 & R16 & _).
  (* the own vote: pending among three voters *)
  unfold poll_gen in Hpoll. cbv zeta in Hpoll.
  set (rc := r0 <| r_vote := r_id r0 |> <| r_state := Candidate |>) in *.
  change (t_votes (r_prs rc)) with (t_votes (r_prs r0)) in Hpoll. rewrite R15 in Hpoll.
  change (r_id rc) with (r_id r0) in Hpoll.
  match type of Hpoll with context [tracker_vote_result ?a ?b ?v] =>
    assert (Ev : tracker_vote_result a b v = VotePending) end.
  { change (conf_of (rc <| r_prs := r_prs rc <| t_votes := record_vote [] (r_id r0) true |> |>))
      with (conf_of r0). rewrite R3, Hin, Hout.
    apply vote_self_pending; [exact Hnd|rewrite R4; exact Hid|exact Hlen]. }
  rewrite Ev in Hpoll. inversion Hpoll; subst r2 res; clear Hpoll.
  (* the vote requests *)
  apply bind_ok in Hh. destruct Hh as (ci & _ & Hh).
  apply send_vote_requests_exact in Hh. destruct Hh as (lt & new & Hlt & -> & Hf).
  match type of Hf with Forall2 _ (filter _ ?ids) _ =>
    assert (Eids : ids = vs) end.
  { match goal with |- voter_ids (conf_of ?x) = _ => change (conf_of x) with (conf_of r0) end.
    unfold voter_ids. rewrite R3, Hin, Hout. apply union_nil_r. }
  rewrite Eids in Hf, Hlt. cbn in Hf, Hlt.
  change (r_id (rc <| r_prs := _ |>)) with (r_id r0) in *.
  rewrite R4 in Hf, Hlt. rewrite R2, R6, R8 in Hf. rewrite R2 in Hlt.
  split; [unfold same_static; cbn; repeat split; assumption|].
  cbn. rewrite R4, R2, R7, R6. repeat split; try assumption; try reflexivity.
  exists lt, new. split; [|split; [reflexivity|exact Hf]].
  apply Hlt. (* at least one other voter *)
  destruct vs as [|a [|b [|c0 [|? ?]]]]; try discriminate.
  cbn [filter]. inversion Hnd as [|? ? N1 N2]; subst. inversion N2 as [|? ? N3 N4]; subst.
  destruct (N.eqb_spec a (r_id T)); destruct (N.eqb_spec b (r_id T)); cbn [negb]; try discriminate.
  subst. exfalso. apply N1. left. reflexivity.
Qed.

Lemma send_vote_resp r m r' :
  (m_type m = MsgRequestVoteResponse \/ m_type m = MsgRequestPreVoteResponse) -> m_from m = 0 ->
  send r m = Ok r' ->
  exists x, r' = r <| r_msgs := r_msgs r ++ [x] |> /\
    m_type x = m_type m /\ m_to x = m_to m /\ m_term x = m_term m /\ m_from x = r_id r /\
    m_reject x = m_reject m.
Proof.
  intros Hty Hf H. unfold send in H. unfold INVALID_ID in H. rewrite Hf in H.
  change (0 =? 0) with true in H. cbn iota in H.
  change (m_type (m <| m_from := r_id r |>)) with (m_type m) in H.
  change (m_term (m <| m_from := r_id r |>)) with (m_term m) in H.
  assert (Hv : is_vote_type (m_type m) = true) by (destruct Hty as [E|E]; rewrite E; reflexivity).
  rewrite Hv in H. destruct (m_term m =? 0); [discriminate|]. cbn [bind] in H.
  change (m_type (m <| m_from := r_id r |>)) with (m_type m) in H.
  assert (Hrv : ((m_type m =? MsgRequestVote) || (m_type m =? MsgRequestPreVote)) = false)
    by (destruct Hty as [E|E]; rewrite E; reflexivity).
  rewrite Hrv in H. inversion H; subst; clear H.
  eexists. split; [reflexivity|]. cbn. repeat split.
Qed.

(* (c) any node, in any role and whatever its lease says, adopts the higher term of a forced
   vote request and grants it when the candidate's log is up to date and wins the tie-break *)
Theorem voter_grants_forced V m V' c :
  m_type m = MsgRequestVote -> m_context m = CAMPAIGN_TRANSFER -> r_term V < m_term m ->
  is_up_to_date (r_log V) (m_index m) (m_log_term m) = Ok true ->
  ((last_index (r_log V) <? m_index m) || (r_priority V <=? get_priority m)%Z) = true ->
  step V m = Ok (V', c) ->
  same_static V V' /\
  r_state V' = Follower /\ r_term V' = m_term m /\ r_vote V' = m_from m /\
  r_log V' = set_limit (r_log V) 0 /\ r_lead_transferee V' = None /\
  r_election_elapsed V' = 0 /\ r_leader_id V' = INVALID_ID /\
  r_draws V = r_randomized_election_timeout V' :: r_draws V' /\
  exists x, r_msgs V' = r_msgs V ++ [x] /\ m_type x = MsgRequestVoteResponse /\
    m_to x = m_from m /\ m_term x = m_term m /\ m_reject x = false /\ m_from x = r_id V.
Proof.
  intros Hty Hctx Hlt Hutd Hprio H. rewrite step_eq in H.
  assert (Hpre : step_pre V m = (r0 <- become_follower V (m_term m) INVALID_ID ;; Ok (inr r0))).
  { unfold step_pre. rewrite Hty, Hctx.
    assert (E0 : (m_term m =? 0) = false) by (apply N.eqb_neq; lia).
    assert (E1 : (r_term V <? m_term m) = true) by (apply N.ltb_lt; exact Hlt).
    rewrite E0, E1. reflexivity. }
  rewrite Hpre in H. apply bind_ok in H. destruct H as (pre & Hx & H).
  apply bind_ok in Hx. destruct Hx as (r0 & Hbf & Hx). inversion Hx; subst pre; clear Hx.
  apply become_follower_facts in Hbf.
  destruct Hbf as (B1 & B2 & B3 & B4 & B5 & B6 & B7 & B8 & B9 & B10 & B11 & B12 & B13 & B14 & B15).
  assert (Hv0 : r_vote r0 = INVALID_ID) by (apply B15; lia).
  unfold step_main in H. rewrite Hty in H.
  change (MsgRequestVote =? MsgHup) with false in H.
  change (MsgRequestVote =? MsgRequestVote) with true in H. cbn [orb] in H.
  rewrite B2, is_up_to_date_set_limit, Hutd in H. cbn [bind] in H.
  change (vote_resp_msg_type MsgRequestVote) with (Ok MsgRequestVoteResponse : Res N) in H.
  cbn [bind] in H.
  assert (Hg : vote_granted r0 m = true).
  { unfold vote_granted. rewrite Hv0, B13. change (INVALID_ID =? INVALID_ID) with true.
    cbn [andb]. rewrite orb_true_r. reflexivity. }
  assert (Hli : last_index (set_limit (r_log V) 0) = last_index (r_log V)) by reflexivity.
  rewrite Hg, Hli, B8, Hprio in H. cbn [andb] in H.
  apply bind_ok in H. destruct H as (r1 & Hs & H). inversion H; subst V' c; clear H.
  apply send_vote_resp in Hs; [|left; reflexivity|reflexivity].
  destruct Hs as (x & -> & S1 & S2 & S3 & S4 & S5). cbn in S1, S2, S3, S5.
  split; [unfold same_static; cbn; repeat split; assumption|].
  cbn. rewrite B7. repeat split; try assumption; try reflexivity.
  exists x. rewrite B4 in S4. repeat split; assumption.
Qed.

(* --- the log is not touched by replication traffic --- *)
Lemma maybe_send_append_log r to pr ae r' pr' b :
  maybe_send_append r to pr ae = Ok (r', pr', b) -> r_log r' = r_log r.
Proof.
  intros H. unfold maybe_send_append in H.
  destruct (is_paused pr); [inversion H; reflexivity|].
  assert (Hsnap : forall r' pr' b,
    (x <- prepare_send_snapshot r (msg_default <| m_to := to |>) pr to ;;
     match x with
     | None => Ok (r, pr, false)
     | Some (m', pr') => r' <- send r m' ;; Ok (r', pr', true)
     end) = Ok (r', pr', b) -> r_log r' = r_log r).
  { clear H. intros r1 pr1 b1 H. inv_bind H. destruct x as [[m1 p1]|].
    - inv_bind H. inversion H; subst; clear H. apply send_spec in Hx0.
      destruct Hx0 as (y & -> & _). reflexivity.
    - inversion H; reflexivity. }
  destruct (negb (pending_request_snapshot pr =? INVALID_INDEX)); [eapply Hsnap; exact H|].
  inv_bind H.
  match type of H with (if ?c then _ else _) = _ => destruct c end; [inversion H; reflexivity|].
  destruct (next_idx pr =? 0); [discriminate|].
  inv_bind H.
  destruct x0 as [t|e0]; destruct x as [ents|e1];
    try (eapply Hsnap; exact H);
    try (destruct e1; first [eapply Hsnap; exact H | inversion H; reflexivity]).
  inv_bind H. destruct x as [[msgs' pr1] batched].
  destruct batched.
  - inversion H; subst; reflexivity.
  - apply bind_ok in H. destruct H as ([m1 p1] & _ & H).
    apply bind_ok in H. destruct H as (rs & Hs & H). inversion H; subst; clear H.
    apply send_spec in Hs. destruct Hs as (y & -> & _). reflexivity.
Qed.

Lemma bcast_append_log r r' : bcast_append r = Ok r' -> r_log r' = r_log r.
Proof.
  unfold bcast_append. generalize (pids (t_progress (r_prs r))) as ids. generalize (r_id r) as self.
  intros self ids. revert r. induction ids as [|id rest IH]; intros r H; cbn [for_each_peer] in H.
  - inversion H; reflexivity.
  - destruct (id =? self); [apply IH; exact H|].
    inv_bind H. apply IH in H. rewrite H. clear H.
    unfold send_append_to in Hx. destruct (get_pr r id); [|discriminate].
    inv_bind Hx. destruct x0 as [[r1 p1] b]. inversion Hx; subst; clear Hx.
    apply maybe_send_append_log in Hx0. exact Hx0.
Qed.

Lemma become_leader_ctl r r' :
  become_leader r = Ok r' ->
  exists x, reset r (r_term r) = Ok x /\
    ctl r' = ctl (x <| r_leader_id := r_id x |> <| r_state := Leader |>) /\
    exists l' z,
      log_append (r_log r) (stamp [entry_default] (r_term r) (last_index (r_log r) + 1)) = Ok (l', z) /\
      r_log r' = l'.
Proof.
  unfold become_leader. intros H. destruct (role_eqb (r_state r) Follower); [discriminate|].
  inv_bind H. exists x. split; [exact Hx|].
  pose proof (reset_facts _ _ _ Hx) as (_ & Rl & _ & _ & _ & Rt & _).
  match type of H with match ?d with _ => _ end = _ => destruct d end; [|discriminate].
  inv_bind H. destruct x0 as [r6 ok]. destruct ok; [|discriminate]. inversion H; subst; clear H.
  pose proof (append_entry_tn _ _ _ _ Hx0) as Hcf.
  match type of Hcf with cf _ ?r5 _ =>
    assert (K : cf MsgTimeoutNow (x <| r_leader_id := r_id x |> <| r_state := Leader |>) r5)
      by cf_solve
  end.
  pose proof (cf_trans _ _ _ _ K Hcf) as [_ L]. split; [exact L|].
  apply append_entry_spec in Hx0. destruct Hx0 as (_ & _ & ([l' z] & Hy & Hl)).
  cbn in Hy. rewrite Rl, Rt in Hy. exists l', z. split; [exact Hy|exact Hl].
Qed.

(* (d) a candidate of a three-voter configuration that receives a grant from another voter
   has a quorum: it becomes leader of its term and appends its no-op entry *)
Theorem candidate_wins T m T' c vs :
  r_state T = Candidate -> m_type m = MsgRequestVoteResponse -> m_term m = r_term T ->
  m_reject m = false ->
  t_votes (r_prs T) = [(r_id T, true)] ->
  incoming (conf_of T) = vs -> outgoing (conf_of T) = [] ->
  NoDup vs -> In (r_id T) vs -> In (m_from m) vs -> m_from m <> r_id T -> length vs = 3%nat ->
  step T m = Ok (T', c) ->
  r_state T' = Leader /\ r_term T' = r_term T /\ r_id T' = r_id T /\ conf_of T' = conf_of T /\
  r_leader_id T' = r_id T /\ r_vote T' = r_vote T /\ r_lead_transferee T' = None /\
  r_election_elapsed T' = 0 /\ r_heartbeat_elapsed T' = 0 /\
  r_election_timeout T' = r_election_timeout T /\ r_heartbeat_timeout T' = r_heartbeat_timeout T /\
  exists z,
    log_append (r_log T) (stamp [entry_default] (r_term T) (last_index (r_log T) + 1))
      = Ok (r_log T', z).
Proof.
  intros Hs Hty Hterm Hrej Hvotes Hin Hout Hnd Hid Hfrom Hne Hlen H.
  rewrite (step_main_same_term _ _ (or_intror Hterm)) in H. unfold step_main in H.
  rewrite Hty, Hs in H.
  change (MsgRequestVoteResponse =? MsgHup) with false in H.
  change (MsgRequestVoteResponse =? MsgRequestVote) with false in H.
  change (MsgRequestVoteResponse =? MsgRequestPreVote) with false in H. cbn [orb] in H.
  unfold step_candidate in H. rewrite Hty, Hs in H.
  change (MsgRequestVoteResponse =? MsgPropose) with false in H.
  change (MsgRequestVoteResponse =? MsgAppend) with false in H.
  change (MsgRequestVoteResponse =? MsgHeartbeat) with false in H.
  change (MsgRequestVoteResponse =? MsgSnapshot) with false in H.
  change (MsgRequestVoteResponse =? MsgRequestPreVoteResponse) with false in H.
  change (MsgRequestVoteResponse =? MsgRequestVoteResponse) with true in H.
  cbn [orb andb negb role_eqb] in H.
  apply bind_ok in H. destruct H as (xp & Hp & H). destruct xp as [r2 vres]. cbn [fst] in H.
  apply bind_ok in H. destruct H as (r3 & Hm & H). inversion H; subst r3 c; clear H.
  rewrite Hrej in Hp. cbn [negb] in Hp.
  unfold poll, poll_gen in Hp. cbv zeta in Hp. rewrite Hvotes in Hp.
  set (r0 := T <| r_prs := r_prs T <| t_votes := record_vote [(r_id T, true)] (m_from m) true |> |>) in *.
  change (conf_of r0) with (conf_of T) in Hp. rewrite Hin, Hout in Hp.
  rewrite (vote_two_won vs (r_id T) (m_from m) Hnd Hid Hfrom Hne Hlen) in Hp.
  change (r_state r0) with (r_state T) in Hp. rewrite Hs in Hp. cbn [role_eqb] in Hp.
  apply bind_ok in Hp. destruct Hp as (r1 & Hbl & Hp).
  apply bind_ok in Hp. destruct Hp as (r2' & Hbc & Hp). inversion Hp; subst r2' vres; clear Hp.
  pose proof (bcast_append_log _ _ Hbc) as Hlog. apply bcast_append_tn in Hbc. destruct Hbc as [_ Hc2].
  apply become_leader_ctl in Hbl. destruct Hbl as (x & Hr & Hc1 & l' & z & Hy & Hl).
  apply reset_facts in Hr.
  destruct Hr as (R1 & R2 & R3 & R4 & R5 & R6 & R7 & R8 & R9 & R10 & R11 & R12 & R13 & R14 & R15 & R16 & _ & R18).
  assert (Hctl : ctl r2 = ctl (x <| r_leader_id := r_id x |> <| r_state := Leader |>)) by congruence.
  apply ctl_fields in Hctl. cbn in Hctl.
  destruct Hctl as (C1 & C2 & C3 & C4 & C5 & C6 & C7 & C8 & _ & C10 & C11 & C12).
  (* r2 is a leader: the commit fast-forward by vote does nothing *)
  assert (Hl2 : is_leader r2 = true) by (unfold is_leader; rewrite C1; reflexivity).
  rewrite (maybe_commit_by_vote_leader _ _ Hl2) in Hm. inversion Hm; subst T'; clear Hm.
  change (r_term r0) with (r_term T) in *. change (r_id r0) with (r_id T) in *.
  change (conf_of r0) with (conf_of T) in *. change (r_vote r0) with (r_vote T) in *.
  change (r_log r0) with (r_log T) in *.
  change (r_election_timeout r0) with (r_election_timeout T) in *.
  change (r_heartbeat_timeout r0) with (r_heartbeat_timeout T) in *.
  assert (R19 : r_vote x = r_vote T) by (apply R18; reflexivity).
  unfold conf_of in *.
  change (r_prs (x <| r_leader_id := r_id x |> <| r_state := Leader |>)) with (r_prs x) in C12.
  repeat (split; [congruence|]).
  exists z. rewrite Hlog, Hl. exact Hy.
Qed.

(* a leader ignores a further vote response of its own term *)
Theorem leader_ignores_vote_response T m :
  r_state T = Leader -> m_type m = MsgRequestVoteResponse -> m_term m = r_term T ->
  step T m = Ok (T, E_OK).
Proof.
  intros Hs Hty Hterm. rewrite (step_main_same_term _ _ (or_intror Hterm)). unfold step_main.
  rewrite Hty, Hs. unfold step_leader. rewrite Hty. reflexivity.
Qed.

(* (d') a follower that hears an append or a heartbeat of its own term follows the sender *)
Theorem follower_adopts_leader V m V' c :
  r_state V = Follower -> (m_type m = MsgAppend \/ m_type m = MsgHeartbeat) ->
  m_term m = r_term V -> step V m = Ok (V', c) ->
  r_leader_id V' = m_from m /\ r_state V' = Follower /\ r_term V' = r_term V /\
  r_vote V' = r_vote V /\ r_lead_transferee V' = r_lead_transferee V.
Proof.
  intros Hs Hty Hterm H. rewrite (step_main_same_term _ _ (or_intror Hterm)) in H.
  unfold step_main in H. rewrite Hs in H.
  assert (Hcf : cf MsgTimeoutNow (V <| r_election_elapsed := 0 |> <| r_leader_id := m_from m |>) V').
  { destruct Hty as [E|E]; rewrite E in H;
      [change (MsgAppend =? MsgHup) with false in H;
       change (MsgAppend =? MsgRequestVote) with false in H;
       change (MsgAppend =? MsgRequestPreVote) with false in H
      |change (MsgHeartbeat =? MsgHup) with false in H;
       change (MsgHeartbeat =? MsgRequestVote) with false in H;
       change (MsgHeartbeat =? MsgRequestPreVote) with false in H];
      cbn [orb] in H; unfold step_follower in H; rewrite E in H.
    - change (MsgAppend =? MsgPropose) with false in H.
      change (MsgAppend =? MsgAppend) with true in H. cbn iota in H.
      inv_bind H. inversion H; subst. eapply handle_append_entries_tn; exact Hx.
    - change (MsgHeartbeat =? MsgPropose) with false in H.
      change (MsgHeartbeat =? MsgAppend) with false in H.
      change (MsgHeartbeat =? MsgHeartbeat) with true in H. cbn iota in H.
      inv_bind H. inversion H; subst. eapply handle_heartbeat_tn; exact Hx. }
  destruct Hcf as [_ K]. apply ctl_fields in K. cbn in K.
  destruct K as (K1 & K2 & _ & _ & K5 & K6 & _ & K8 & _).
  repeat split; congruence.
Qed.

(* (a) the leader, asked to transfer to a caught-up voter, answers with MsgTimeoutNow at once *)
Theorem transfer_starts L m L' c pr :
  is_leader L = true -> r_lead_transferee L = None ->
  m_type m = MsgTransferLeader -> same_term_msg L m ->
  m_from m <> r_id L -> get_pr L (m_from m) = Some pr ->
  IdSet.mem (m_from m) (learners (conf_of L)) = false ->
  matched pr = last_index (r_log L) ->
  step L m = Ok (L', c) ->
  exists x, L' = (tl_start L (m_from m)) <| r_msgs := r_msgs L ++ [x] |> /\
    m_type x = MsgTimeoutNow /\ m_to x = m_from m /\ m_term x = r_term L.
Proof.
  intros Hl Hlt Hty Hterm Hne Hpr Hlr Hm H.
  rewrite (step_leader_transfer _ _ Hl Hty Hterm) in H.
  apply bind_ok in H. destruct H as (r1 & Hh & H). inversion H; subst r1 c; clear H.
  apply handle_transfer_leader_shape in Hh.
  destruct Hh as [[_ Hi]|[(Hs & _)|(_ & _ & _ & pr' & Hpr' & [[_ Hs]|[Hnm _]])]].
  - exfalso. destruct Hi as [Hi|[Hi|[Hi|[Hi _]]]]; congruence.
  - congruence.
  - apply send_timeout_now_spec in Hs. destruct Hs as (x & -> & A & B & C0).
    exists x. repeat split; assumption.
  - exfalso. rewrite Hpr in Hpr'. inversion Hpr'; subst. contradiction.
Qed.

(* ================================================================== *)
(* 5. ticks that do not fire *)

Lemma tick1_waits r :
  r_state r <> Leader -> r_election_elapsed r + 1 < r_randomized_election_timeout r ->
  tick1 r = Ok (r <| r_election_elapsed := r_election_elapsed r + 1 |>).
Proof.
  intros Hs Hw. unfold tick1.
  assert (Ht : tick r = tick_election r) by (unfold tick; destruct (r_state r); congruence).
  rewrite Ht. unfold tick_election, pass_election_timeout.
  change (r_randomized_election_timeout (r <| r_election_elapsed := r_election_elapsed r + 1 |>))
    with (r_randomized_election_timeout r).
  change (r_election_elapsed (r <| r_election_elapsed := r_election_elapsed r + 1 |>))
    with (r_election_elapsed r + 1).
  destruct (r_randomized_election_timeout r <=? r_election_elapsed r + 1) eqn:E; [lia|].
  reflexivity.
Qed.

Lemma tick1_waits_leader r :
  r_state r = Leader -> r_election_elapsed r + 1 < r_election_timeout r ->
  r_heartbeat_elapsed r + 1 < r_heartbeat_timeout r ->
  tick1 r = Ok (r <| r_heartbeat_elapsed := r_heartbeat_elapsed r + 1 |>
                  <| r_election_elapsed := r_election_elapsed r + 1 |>).
Proof.
  intros Hs He Hh. unfold tick1, tick. rewrite Hs. unfold tick_heartbeat.
  set (r1 := r <| r_heartbeat_elapsed := r_heartbeat_elapsed r + 1 |>
               <| r_election_elapsed := r_election_elapsed r + 1 |>).
  change (r_election_timeout r1) with (r_election_timeout r).
  change (r_election_elapsed r1) with (r_election_elapsed r + 1).
  destruct (r_election_timeout r <=? r_election_elapsed r + 1) eqn:E1; [lia|]. cbn [bind].
  assert (Hl : is_leader r1 = true) by (unfold is_leader; subst r1; cbn; rewrite Hs; reflexivity).
  rewrite Hl. cbn [negb].
  change (r_heartbeat_timeout r1) with (r_heartbeat_timeout r).
  change (r_heartbeat_elapsed r1) with (r_heartbeat_elapsed r + 1).
  destruct (r_heartbeat_timeout r <=? r_heartbeat_elapsed r + 1) eqn:E2; [lia|]. reflexivity.
Qed.

(* ================================================================== *)
(* 6. the inboxes of a three-node mesh *)

Definition to_node (id : N) (ms : list msg) : list msg := filter (fun m => m_to m =? id) ms.

Lemma inbox3 id A B C0 :
  inbox id [A; B; C0] = to_node id (r_msgs A) ++ to_node id (r_msgs B) ++ to_node id (r_msgs C0).
Proof. unfold inbox, to_node. cbn [flat_map]. rewrite app_nil_r. reflexivity. Qed.

Lemma mesh_round3 A B C0 out :
  mesh_round [A; B; C0] = Ok out ->
  exists a1 b1 c1 a2 b2 c2,
    deliver [A; B; C0] A = Ok a1 /\ deliver [A; B; C0] B = Ok b1 /\ deliver [A; B; C0] C0 = Ok c1 /\
    tick1 a1 = Ok a2 /\ tick1 b1 = Ok b2 /\ tick1 c1 = Ok c2 /\ out = [a2; b2; c2].
Proof.
  intros H. unfold mesh_round in H. apply bind_ok in H. destruct H as (rs1 & H1 & H2).
  cbn [mmapM] in H1.
  apply bind_ok in H1. destruct H1 as (a1 & Ha & H1).
  apply bind_ok in H1. destruct H1 as (l1 & H1 & E1).
  apply bind_ok in H1. destruct H1 as (b1 & Hb & H1).
  apply bind_ok in H1. destruct H1 as (l2 & H1 & E2).
  apply bind_ok in H1. destruct H1 as (c1 & Hc & H1).
  apply bind_ok in H1. destruct H1 as (l3 & H1 & E3).
  inversion H1; subst l3. inversion E3; subst l2. inversion E2; subst l1. inversion E1; subst rs1.
  cbn [mmapM] in H2.
  apply bind_ok in H2. destruct H2 as (a2 & Ha2 & H2).
  apply bind_ok in H2. destruct H2 as (k1 & H2 & F1).
  apply bind_ok in H2. destruct H2 as (b2 & Hb2 & H2).
  apply bind_ok in H2. destruct H2 as (k2 & H2 & F2).
  apply bind_ok in H2. destruct H2 as (c2 & Hc2 & H2).
  apply bind_ok in H2. destruct H2 as (k3 & H2 & F3).
  inversion H2; subst k3. inversion F3; subst k2. inversion F2; subst k1. inversion F1; subst out.
  exists a1, b1, c1, a2, b2, c2. repeat split; assumption.
Qed.

(* the vote requests of a candidate, sorted by addressee *)
Lemma vote_reqs_to id li lt t p : forall ids new v,
  Forall2 (VoteReq id li lt t p) ids new -> NoDup ids -> In v ids ->
  exists x, to_node v new = [x] /\ VoteReq id li lt t p v x.
Proof.
  induction ids as [|a ids IH]; intros new v Hf Hn Hi; [destruct Hi|].
  inversion Hf as [|? x0 ? new' Hx Hf']; subst. inversion Hn as [|? ? Na Nn]; subst.
  unfold to_node. cbn [filter]. rewrite (vr_to _ _ _ _ _ _ _ Hx).
  assert (Hnot : forall w, ~ In w ids -> filter (fun m => m_to m =? w) new' = []).
  { clear - Hf'. intros w Hw. induction Hf' as [|b y ids' new'' Hy Hf'' IH']; [reflexivity|].
    cbn [filter]. rewrite (vr_to _ _ _ _ _ _ _ Hy).
    destruct (N.eqb_spec b w) as [E|E]; [exfalso; apply Hw; left; exact E|].
    apply IH'. intros K. apply Hw. right. exact K. }
  destruct (N.eqb_spec a v) as [E|E].
  - subst a. exists x0. split; [|exact Hx]. rewrite (Hnot v Na). reflexivity.
  - destruct Hi as [Hi|Hi]; [congruence|].
    destruct (IH new' v Hf' Nn Hi) as (x & Hx1 & Hx2). exists x. split; [exact Hx1|exact Hx2].
Qed.

Lemma vote_reqs_not_to id li lt t p ids new v :
  Forall2 (VoteReq id li lt t p) ids new -> ~ In v ids -> to_node v new = [].
Proof.
  intros Hf Hv. induction Hf as [|b y ids' new' Hy Hf' IH]; [reflexivity|].
  unfold to_node. cbn [filter]. rewrite (vr_to _ _ _ _ _ _ _ Hy).
  destruct (N.eqb_spec b v) as [E|E]; [exfalso; apply Hv; left; exact E|].
  apply IH. intros K. apply Hv. right. exact K.
Qed.

(* ================================================================== *)
(* 7. the cluster theorem: three voters L (leader), T (target), X *)

Record Start (L T X : raft) (vs : idset) : Prop := mkStart {
  (* three distinct voters, the whole voter set; not a joint configuration *)
  st_lt : r_id L <> r_id T;
  st_lx : r_id L <> r_id X;
  st_tx : r_id T <> r_id X;
  st_nd : NoDup vs;
  st_len : length vs = 3%nat;
  st_inl : In (r_id L) vs;
  st_int : In (r_id T) vs;
  st_inx : In (r_id X) vs;
  st_conf_in : incoming (conf_of T) = vs;
  st_conf_out : outgoing (conf_of T) = [];
  (* L leads, no transfer pending; T and X follow it at its term; T can be promoted *)
  st_leader : is_leader L = true;
  st_nopending : r_lead_transferee L = None;
  st_tf : r_state T = Follower;
  st_tterm : r_term T = r_term L;
  st_tprom : r_promotable T = true;
  st_xf : r_state X = Follower;
  st_xterm : r_term X = r_term L;
  (* in L's eyes T is a caught-up voter *)
  st_pr : exists pr, get_pr L (r_id T) = Some pr /\ matched pr = last_index (r_log L);
  st_notlearner : IdSet.mem (r_id T) (learners (conf_of L)) = false;
  (* all three logs end at the same (index, term); T has applied what is committed *)
  st_li_l : last_index (r_log L) = last_index (r_log T);
  st_li_x : last_index (r_log X) = last_index (r_log T);
  st_lt_l : last_term (r_log L) = last_term (r_log T);
  st_lt_x : last_term (r_log X) = last_term (r_log T);
  st_applied : committed (r_log T) <= applied (r_log T);
  (* the priority tie-break does not veto T *)
  st_prio_l : (r_priority L <= r_priority T)%Z;
  st_prio_x : (r_priority X <= r_priority T)%Z;
  (* nothing in flight *)
  st_msgs_l : r_msgs L = [];
  st_msgs_t : r_msgs T = [];
  st_msgs_x : r_msgs X = [];
  (* no timer fires during the three rounds *)
  st_et_l : 1 < r_election_timeout L;
  st_hb_l : r_heartbeat_elapsed L + 1 < r_heartbeat_timeout L;
  st_et_t : 1 < r_election_timeout T;
  st_hb_t : 1 < r_heartbeat_timeout T;
  st_ee_x : r_election_elapsed X + 1 < r_randomized_election_timeout X;
  st_dr_l : forall d ds, r_draws L = d :: ds -> 2 < d;
  st_dr_t : forall d ds, r_draws T = d :: ds -> 2 < d;
  st_dr_x : forall d ds, r_draws X = d :: ds -> 2 < d
}.

Lemma is_up_to_date_same_end l l' :
  last_index l = last_index l' -> last_term l = last_term l' ->
  forall lt, last_term l' = Ok lt -> is_up_to_date l (last_index l') lt = Ok true.
Proof.
  intros Hi Ht lt Hl. unfold is_up_to_date. rewrite Ht, Hl. cbn [bind].
  rewrite Hi, N.ltb_irrefl, N.eqb_refl, N.leb_refl. reflexivity.
Qed.

Theorem transfer_completes L T X vs m L1 c out :
  Start L T X vs ->
  m_type m = MsgTransferLeader -> m_from m = r_id T -> same_term_msg L m ->
  step L m = Ok (L1, c) ->
  mesh_rounds 3 [L1; T; X] = Ok out ->
  exists L' T' X', out = [L'; T'; X'] /\
    (* the target leads the next term, its log is its old log plus the no-op *)
    r_state T' = Leader /\ r_term T' = r_term L + 1 /\ r_id T' = r_id T /\
    r_leader_id T' = r_id T /\
    (exists z, log_append (r_log T) (stamp [entry_default] (r_term L + 1) (last_index (r_log T) + 1))
               = Ok (r_log T', z)) /\
    (* the old leader follows at that term, voted for the target, transfer cleared *)
    r_state L' = Follower /\ r_term L' = r_term L + 1 /\ r_vote L' = r_id T /\
    r_lead_transferee L' = None /\ r_id L' = r_id L /\ r_log L' = set_limit (r_log L) 0 /\
    (* so does the third voter *)
    r_state X' = Follower /\ r_term X' = r_term L + 1 /\ r_vote X' = r_id T /\
    r_id X' = r_id X /\ r_log X' = set_limit (r_log X) 0.
Proof.
  intros S Hty Hfrom Hterm Hstep Hrun.
  destruct S.
  destruct st_pr0 as (pr & Hpr & Hmatched).
  (* step 0: the request *)
  rewrite <- Hfrom in Hpr, st_notlearner0.
  assert (Hne : m_from m <> r_id L) by congruence.
  destruct (transfer_starts _ _ _ _ _ st_leader0 st_nopending0 Hty Hterm Hne Hpr st_notlearner0 Hmatched Hstep)
    as (tn & -> & Tn1 & Tn2 & Tn3).
  rewrite st_msgs_l0 in *. cbn [app] in *. rewrite Hfrom in Tn2.
  set (La := tl_start L (m_from m) <| r_msgs := [tn] |>) in *.
  cbn [mesh_rounds] in Hrun.
  apply bind_ok in Hrun. destruct Hrun as (rs1 & R1 & Hrun).
  apply bind_ok in Hrun. destruct Hrun as (rs2 & R2 & Hrun).
  apply bind_ok in Hrun. destruct Hrun as (rs3 & R3 & Hrun). inversion Hrun; subst rs3; clear Hrun.
  (* ---------------- round 1 ---------------- *)
  apply mesh_round3 in R1.
  destruct R1 as (a1 & b1 & c1 & a2 & b2 & c2 & Da & Db & Dc & Ta & Tb & Tc & ->).
  unfold deliver in Da, Db, Dc. rewrite !inbox3 in Da, Db, Dc.
  change (r_msgs La) with [tn] in Da, Db, Dc. rewrite st_msgs_t0, st_msgs_x0 in Da, Db, Dc.
  change (r_id La) with (r_id L) in Da.
  unfold to_node in Da, Db, Dc. cbn [filter app] in Da, Db, Dc. rewrite Tn2 in Da, Db, Dc.
  assert (Etl : (r_id T =? r_id L) = false) by (apply N.eqb_neq; congruence).
  assert (Etx : (r_id T =? r_id X) = false) by (apply N.eqb_neq; congruence).
  rewrite Etl in Da. rewrite N.eqb_refl in Db. rewrite Etx in Dc.
  cbn [app msteps] in Da, Db, Dc. inversion Da; subst a1; clear Da. inversion Dc; subst c1; clear Dc.
  apply bind_ok in Db. destruct Db as ([b1' cb] & Db & E). cbn [fst] in E. inversion E; subst b1'; clear E.
  (* the target campaigns *)
  assert (Hst : same_term_msg (T <| r_msgs := [] |>) tn) by (right; cbn; congruence).
  set (Tq := T <| r_msgs := [] |>) in *.
  assert (F1 : r_state Tq = Follower) by exact st_tf0.
  assert (F2 : r_promotable Tq = true) by exact st_tprom0.
  assert (F3 : committed (r_log Tq) <= applied (r_log Tq)) by exact st_applied0.
  assert (F4 : incoming (conf_of Tq) = vs) by exact st_conf_in0.
  assert (F5 : outgoing (conf_of Tq) = []) by exact st_conf_out0.
  assert (F6 : In (r_id Tq) vs) by exact st_int0.
  destruct (target_campaigns Tq tn b1 cb vs F1 F2 Tn1 Hst F3 F4 F5 st_nd0 F6 st_len0 Db)
    as (B0 & B1 & B2 & B3 & B4 & B5 & B6 & B7 & B8 & ltm & new & B9 & B10 & B11).
  subst Tq.
  cbn in B2, B3, B4, B5, B8, B9, B10, B11.
  destruct B0 as (B01 & B02 & B03 & B04 & B05 & B06). cbn in B01, B02, B03, B04, B05, B06.
  (* ticks of round 1 *)
  assert (Ea2 : a2 = La <| r_msgs := [] |>
                   <| r_heartbeat_elapsed := r_heartbeat_elapsed L + 1 |>
                   <| r_election_elapsed := 1 |>).
  { rewrite tick1_waits_leader in Ta.
    - inversion Ta. reflexivity.
    - cbn. apply is_leader_state. exact st_leader0.
    - cbn. exact st_et_l0.
    - cbn. exact st_hb_l0. }
  assert (Eb2 : b2 = b1 <| r_election_elapsed := 1 |>).
  { rewrite tick1_waits in Tb.
    - inversion Tb. rewrite B7. reflexivity.
    - rewrite B1. discriminate.
    - rewrite B7. pose proof (st_dr_t0 _ _ B8). lia. }
  assert (Ec2 : c2 = X <| r_msgs := [] |> <| r_election_elapsed := r_election_elapsed X + 1 |>).
  { rewrite tick1_waits in Tc.
    - inversion Tc. reflexivity.
    - cbn. rewrite st_xf0. discriminate.
    - cbn. exact st_ee_x0. }
  clear Ta Tb Tc.
  (* what round 2 needs of a2 and c2 *)
  assert (A_id : r_id a2 = r_id L) by (rewrite Ea2; reflexivity).
  assert (A_ms : r_msgs a2 = []) by (rewrite Ea2; reflexivity).
  assert (A_tm : r_term a2 = r_term L) by (rewrite Ea2; reflexivity).
  assert (A_lg : r_log a2 = r_log L) by (rewrite Ea2; reflexivity).
  assert (A_pr : r_priority a2 = r_priority L) by (rewrite Ea2; reflexivity).
  assert (A_dr : r_draws a2 = r_draws L) by (rewrite Ea2; reflexivity).
  assert (C_id : r_id c2 = r_id X) by (rewrite Ec2; reflexivity).
  assert (C_ms : r_msgs c2 = []) by (rewrite Ec2; reflexivity).
  assert (C_tm : r_term c2 = r_term X) by (rewrite Ec2; reflexivity).
  assert (C_lg : r_log c2 = r_log X) by (rewrite Ec2; reflexivity).
  assert (C_pr : r_priority c2 = r_priority X) by (rewrite Ec2; reflexivity).
  assert (C_dr : r_draws c2 = r_draws X) by (rewrite Ec2; reflexivity).
  assert (B_id : r_id b2 = r_id T) by (rewrite Eb2; exact B02).
  assert (B_ms : r_msgs b2 = new) by (rewrite Eb2; exact B10).
  clear Ea2 Ec2. clear La Hstep.
  (* the vote requests, by addressee *)
  set (others := filter (fun v => negb (v =? r_id T)) vs) in *.
  assert (Hnd_o : NoDup others) by (apply NoDup_filter; exact st_nd0).
  assert (Hin_l : In (r_id L) others).
  { apply filter_In. split; [exact st_inl0|]. apply negb_true_iff, N.eqb_neq. exact st_lt0. }
  assert (Hin_x : In (r_id X) others).
  { apply filter_In. split; [exact st_inx0|]. apply negb_true_iff, N.eqb_neq. congruence. }
  assert (Hnin_t : ~ In (r_id T) others).
  { intros K. apply filter_In in K. destruct K as [_ K]. rewrite N.eqb_refl in K. discriminate. }
  destruct (vote_reqs_to _ _ _ _ _ _ _ _ B11 Hnd_o Hin_l) as (rvl & Hrvl & Vl).
  destruct (vote_reqs_to _ _ _ _ _ _ _ _ B11 Hnd_o Hin_x) as (rvx & Hrvx & Vx).
  pose proof (vote_reqs_not_to _ _ _ _ _ _ _ _ B11 Hnin_t) as Hrvt.
  (* ---------------- round 2 ---------------- *)
  apply mesh_round3 in R2.
  destruct R2 as (a3 & b3 & c3 & a4 & b4 & c4 & Da & Db2 & Dc & Ta & Tb & Tc & ->).
  unfold deliver in Da, Db2, Dc. rewrite !inbox3 in Da, Db2, Dc.
  rewrite A_ms, B_ms, C_ms in Da, Db2, Dc.
  rewrite A_id in Da. rewrite B_id in Db2. rewrite C_id in Dc.
  rewrite Hrvl in Da. rewrite Hrvt in Db2. rewrite Hrvx in Dc.
  cbn [to_node filter app msteps] in Da, Db2, Dc.
  inversion Db2; subst b3; clear Db2.
  apply bind_ok in Da. destruct Da as ([a3' ca] & Da & E). cbn [fst] in E. inversion E; subst a3'; clear E.
  apply bind_ok in Dc. destruct Dc as ([c3' cc] & Dc & E). cbn [fst] in E. inversion E; subst c3'; clear E.
  (* both voters grant *)
  assert (Grant : forall V idv rv V' cv,
     VoteReq (r_id T) (last_index (r_log T)) ltm (r_term T + 1) (r_priority T) idv rv ->
     r_term V = r_term L -> last_index (r_log V) = last_index (r_log T) ->
     last_term (r_log V) = last_term (r_log T) -> (r_priority V <= r_priority T)%Z ->
     step V rv = Ok (V', cv) ->
     same_static V V' /\ r_state V' = Follower /\ r_term V' = r_term L + 1 /\ r_vote V' = r_id T /\
     r_log V' = set_limit (r_log V) 0 /\ r_lead_transferee V' = None /\
     r_election_elapsed V' = 0 /\ r_leader_id V' = INVALID_ID /\
     r_draws V = r_randomized_election_timeout V' :: r_draws V' /\
     exists y, r_msgs V' = r_msgs V ++ [y] /\ m_type y = MsgRequestVoteResponse /\
       m_to y = r_id T /\ m_term y = r_term L + 1 /\ m_reject y = false /\ m_from y = r_id V).
  { intros V idv rv V' cv [v1 v2 v3 v4 v5 v6 v7 v8] Htm Hli Hltm Hp Hs.
    assert (U : is_up_to_date (r_log V) (m_index rv) (m_log_term rv) = Ok true).
    { rewrite v5, v6. apply is_up_to_date_same_end; assumption. }
    assert (P : ((last_index (r_log V) <? m_index rv) || (r_priority V <=? get_priority rv)%Z) = true).
    { rewrite v8. apply orb_true_iff. right. apply Z.leb_le. exact Hp. }
    assert (Lt : r_term V < m_term rv) by (rewrite v3, Htm, st_tterm0; lia).
    pose proof (voter_grants_forced V rv V' cv v1 v7 Lt U P Hs) as K.
    rewrite v3, v4, st_tterm0 in K. exact K. }
  match type of Da with step ?v _ = _ => set (a2q := v) in * end.
  match type of Dc with step ?v _ = _ => set (c2q := v) in * end.
  assert (Qa1 : r_term a2q = r_term L) by exact A_tm.
  assert (Qa2 : last_index (r_log a2q) = last_index (r_log T)).
  { change (r_log a2q) with (r_log a2). rewrite A_lg. exact st_li_l0. }
  assert (Qa3 : last_term (r_log a2q) = last_term (r_log T)).
  { change (r_log a2q) with (r_log a2). rewrite A_lg. exact st_lt_l0. }
  assert (Qa4 : (r_priority a2q <= r_priority T)%Z).
  { change (r_priority a2q) with (r_priority a2). rewrite A_pr. exact st_prio_l0. }
  assert (Qc1 : r_term c2q = r_term L).
  { change (r_term c2q) with (r_term c2). rewrite C_tm. exact st_xterm0. }
  assert (Qc2 : last_index (r_log c2q) = last_index (r_log T)).
  { change (r_log c2q) with (r_log c2). rewrite C_lg. exact st_li_x0. }
  assert (Qc3 : last_term (r_log c2q) = last_term (r_log T)).
  { change (r_log c2q) with (r_log c2). rewrite C_lg. exact st_lt_x0. }
  assert (Qc4 : (r_priority c2q <= r_priority T)%Z).
  { change (r_priority c2q) with (r_priority c2). rewrite C_pr. exact st_prio_x0. }
  destruct (Grant a2q _ _ _ _ Vl Qa1 Qa2 Qa3 Qa4 Da)
    as (GA0 & GA1 & GA2 & GA3 & GA4 & GA5 & GA6 & GA7 & GA8 & ya & GA9 & GA10 & GA11 & GA12 & GA13 & GA14).
  destruct (Grant c2q _ _ _ _ Vx Qc1 Qc2 Qc3 Qc4 Dc)
    as (GC0 & GC1 & GC2 & GC3 & GC4 & GC5 & GC6 & GC7 & GC8 & yc & GC9 & GC10 & GC11 & GC12 & GC13 & GC14).
  subst a2q c2q.
  cbn in GA4, GA8, GA9, GA14, GC4, GC8, GC9, GC14.
  destruct GA0 as (_ & GA01 & _). destruct GC0 as (_ & GC01 & _). cbn in GA01, GC01.
  rewrite A_lg in GA4. rewrite A_dr in GA8. rewrite A_id in GA14, GA01.
  rewrite C_lg in GC4. rewrite C_dr in GC8. rewrite C_id in GC14, GC01.
  (* ticks of round 2 *)
  assert (Ea4 : a4 = a3 <| r_election_elapsed := 1 |>).
  { rewrite tick1_waits in Ta.
    - inversion Ta. rewrite GA6. reflexivity.
    - rewrite GA1. discriminate.
    - rewrite GA6. pose proof (st_dr_l0 _ _ GA8). lia. }
  assert (Ec4 : c4 = c3 <| r_election_elapsed := 1 |>).
  { rewrite tick1_waits in Tc.
    - inversion Tc. rewrite GC6. reflexivity.
    - rewrite GC1. discriminate.
    - rewrite GC6. pose proof (st_dr_x0 _ _ GC8). lia. }
  assert (Eb4 : b4 = b2 <| r_msgs := [] |> <| r_election_elapsed := 2 |>).
  { rewrite tick1_waits in Tb.
    - inversion Tb. rewrite Eb2. reflexivity.
    - rewrite Eb2. cbn. rewrite B1. discriminate.
    - rewrite Eb2. cbn. pose proof (st_dr_t0 _ _ B8). lia. }
  clear Ta Tb Tc.
  (* ---------------- round 3 ---------------- *)
  apply mesh_round3 in R3.
  destruct R3 as (a5 & b5 & c5 & a6 & b6 & c6 & Da3 & Db3 & Dc3 & Ta & Tb & Tc & ->).
  unfold deliver in Da3, Db3, Dc3. rewrite !inbox3 in Da3, Db3, Dc3.
  assert (M_a4 : r_msgs a4 = [ya]) by (rewrite Ea4; exact GA9).
  assert (M_c4 : r_msgs c4 = [yc]) by (rewrite Ec4; exact GC9).
  assert (M_b4 : r_msgs b4 = []) by (rewrite Eb4; reflexivity).
  assert (I_a4 : r_id a4 = r_id L) by (rewrite Ea4; exact GA01).
  assert (I_c4 : r_id c4 = r_id X) by (rewrite Ec4; exact GC01).
  assert (I_b4 : r_id b4 = r_id T) by (rewrite Eb4, Eb2; exact B02).
  rewrite M_a4, M_b4, M_c4 in Da3, Db3, Dc3.
  rewrite I_a4 in Da3. rewrite I_b4 in Db3. rewrite I_c4 in Dc3.
  unfold to_node in Da3, Db3, Dc3. cbn [filter] in Da3, Db3, Dc3.
  rewrite GA11, GC11 in Da3, Db3, Dc3.
  rewrite Etl in Da3. rewrite N.eqb_refl in Db3. rewrite Etx in Dc3.
  cbn [app msteps] in Da3, Db3, Dc3.
  inversion Da3; subst a5; clear Da3. inversion Dc3; subst c5; clear Dc3.
  apply bind_ok in Db3. destruct Db3 as ([t1 ct1] & W1 & Db3). cbn [fst] in Db3.
  apply bind_ok in Db3. destruct Db3 as ([t2 ct2] & W2 & Db3). cbn [fst] in Db3.
  inversion Db3; subst t2; clear Db3.
  match type of W1 with step ?v _ = _ => set (b4q := v) in * end.
  assert (Q1 : r_state b4q = Candidate) by (subst b4q; rewrite Eb4, Eb2; exact B1).
  assert (Q2 : r_term b4q = r_term L + 1) by (subst b4q; rewrite Eb4, Eb2; cbn; rewrite B2, st_tterm0; reflexivity).
  assert (Q3 : t_votes (r_prs b4q) = [(r_id b4q, true)]).
  { subst b4q. rewrite Eb4, Eb2. cbn. rewrite B5, B02. reflexivity. }
  assert (Q4 : incoming (conf_of b4q) = vs).
  { subst b4q. rewrite Eb4, Eb2. change (incoming (conf_of b1) = vs). rewrite B01. exact st_conf_in0. }
  assert (Q5 : outgoing (conf_of b4q) = []).
  { subst b4q. rewrite Eb4, Eb2. change (outgoing (conf_of b1) = []). rewrite B01. exact st_conf_out0. }
  assert (Q6 : r_id b4q = r_id T) by (subst b4q; rewrite Eb4, Eb2; exact B02).
  assert (Q7 : r_log b4q = r_log T) by (subst b4q; rewrite Eb4, Eb2; exact B4).
  assert (Q8 : r_election_timeout b4q = r_election_timeout T) by (subst b4q; rewrite Eb4, Eb2; exact B04).
  assert (Q9 : r_heartbeat_timeout b4q = r_heartbeat_timeout T) by (subst b4q; rewrite Eb4, Eb2; exact B05).
  assert (Q10 : r_vote b4q = r_id T) by (subst b4q; rewrite Eb4, Eb2; exact B3).
  assert (W1' := candidate_wins b4q ya t1 ct1 vs Q1 GA10 ltac:(rewrite GA12, Q2; reflexivity) GA13 Q3 Q4 Q5
                   st_nd0 ltac:(rewrite Q6; exact st_int0) ltac:(rewrite GA14; exact st_inl0)
                   ltac:(rewrite GA14, Q6; exact st_lt0) st_len0 W1).
  destruct W1' as (D1 & D2 & D3 & D4 & D5 & D6 & D7 & D8 & D9 & D10 & D11 & z & D12).
  rewrite Q2 in D2, D12. rewrite Q6 in D3, D5. rewrite Q7 in D12. rewrite Q8 in D10. rewrite Q9 in D11.
  rewrite (leader_ignores_vote_response t1 yc D1 GC10 ltac:(rewrite GC12, D2; reflexivity)) in W2.
  inversion W2; subst b5 ct2; clear W2.
  (* ticks of round 3 *)
  assert (Eb6 : b6 = t1 <| r_heartbeat_elapsed := 1 |> <| r_election_elapsed := 1 |>).
  { rewrite tick1_waits_leader in Tb.
    - inversion Tb. rewrite D8, D9. reflexivity.
    - exact D1.
    - rewrite D8, D10. exact st_et_t0.
    - rewrite D9, D11. exact st_hb_t0. }
  assert (Ea6 : a6 = a4 <| r_msgs := [] |> <| r_election_elapsed := 2 |>).
  { rewrite tick1_waits in Ta.
    - inversion Ta. rewrite Ea4. reflexivity.
    - rewrite Ea4. cbn. rewrite GA1. discriminate.
    - rewrite Ea4. cbn. pose proof (st_dr_l0 _ _ GA8). lia. }
  assert (Ec6 : c6 = c4 <| r_msgs := [] |> <| r_election_elapsed := 2 |>).
  { rewrite tick1_waits in Tc.
    - inversion Tc. rewrite Ec4. reflexivity.
    - rewrite Ec4. cbn. rewrite GC1. discriminate.
    - rewrite Ec4. cbn. pose proof (st_dr_x0 _ _ GC8). lia. }
  exists a6, b6, c6. split; [reflexivity|].
  rewrite Eb6, Ea6, Ec6, Ea4, Ec4. cbn.
  repeat split; try assumption.
  exists z. exact D12.
Qed.

(* ================================================================== *)
(* 8. what the new leader's log holds (under C14's representation invariant) *)

Transparent stamp.
Lemma stamp_noop t n : stamp [entry_default] t n = [mkEntry EntryNormal t n [] []].
Proof. reflexivity. Qed.
Opaque stamp.

Theorem noop_append_abs rw l t l' z :
  RaftLogProofs.RepInv rw l -> persisted l <= last_index l -> last_index l + 2 <= u64_max ->
  log_append l (stamp [entry_default] t (last_index l + 1)) = Ok (l', z) ->
  RaftLogProofs.ll_base (RaftLogProofs.abs l') = RaftLogProofs.ll_base (RaftLogProofs.abs l) /\
  RaftLogProofs.ll_ents (RaftLogProofs.abs l') =
    RaftLogProofs.ll_ents (RaftLogProofs.abs l) ++ [mkEntry EntryNormal t (last_index l + 1) [] []] /\
  committed l' = committed l /\ RaftLogProofs.RepInv rw l'.
Proof.
  intros Hr Hp Hb H. rewrite stamp_noop in H.
  pose proof (RaftLogProofs.abs_last rw l Hr) as Hal.
  assert (Hcm : committed l <= RaftLogProofs.ll_last (RaftLogProofs.abs l)) by (destruct Hr; assumption).
  destruct (RaftLogProofsOps.log_append_ok rw l (mkEntry EntryNormal t (last_index l + 1) [] []) [] Hr)
    as (l2 & E & Hr2 & Habs & Hc & _); cbn [e_index length].
  - split; [reflexivity|exact I].
  - lia.
  - lia.
  - lia.
  - lia.
  - cbn [e_index length] in E. rewrite E in H. inversion H; subst l2 z; clear H.
    rewrite Habs. unfold RaftLogProofs.ll_append. cbn [RaftLogProofs.ll_base RaftLogProofs.ll_ents e_index].
    split; [reflexivity|]. split; [|split; assumption].
    f_equal. apply firstn_all2. rewrite Hal. unfold RaftLogProofs.ll_last. lia.
Qed.

(* the completion theorem with the log spelled out: the target's log is the common log plus
   its no-op, so it holds every entry the old leader had (committed or not) *)
Theorem transfer_completes_log L T X vs m L1 c out rw :
  Start L T X vs ->
  m_type m = MsgTransferLeader -> m_from m = r_id T -> same_term_msg L m ->
  step L m = Ok (L1, c) ->
  mesh_rounds 3 [L1; T; X] = Ok out ->
  RaftLogProofs.RepInv rw (r_log T) -> persisted (r_log T) <= last_index (r_log T) ->
  last_index (r_log T) + 2 <= u64_max ->
  RaftLogProofs.abs (r_log T) = RaftLogProofs.abs (r_log L) ->
  exists L' T' X', out = [L'; T'; X'] /\
    r_state T' = Leader /\ r_term T' = r_term L + 1 /\
    RaftLogProofs.ll_base (RaftLogProofs.abs (r_log T')) = RaftLogProofs.ll_base (RaftLogProofs.abs (r_log L)) /\
    RaftLogProofs.ll_ents (RaftLogProofs.abs (r_log T')) =
      RaftLogProofs.ll_ents (RaftLogProofs.abs (r_log L)) ++
      [mkEntry EntryNormal (r_term L + 1) (last_index (r_log L) + 1) [] []] /\
    committed (r_log T') = committed (r_log T) /\
    r_state L' = Follower /\ r_term L' = r_term L + 1 /\ r_vote L' = r_id T /\
    r_lead_transferee L' = None.
Proof.
  intros S Hty Hf Hterm Hs Hrun Hr Hp Hb Habs.
  pose proof (st_li_l _ _ _ _ S) as Hli.
  destruct (transfer_completes _ _ _ _ _ _ _ _ S Hty Hf Hterm Hs Hrun)
    as (L' & T' & X' & -> & A1 & A2 & _ & _ & (z & A5) & A6 & A7 & A8 & A9 & _).
  destruct (noop_append_abs _ _ _ _ _ Hr Hp Hb A5) as (B1 & B2 & B3 & _).
  exists L', T', X'. rewrite B1, B2, Habs, Hli. repeat split; assumption.
Qed.

(* ================================================================== *)
(* 9. a concrete healthy three-voter cluster (the states of RaftProofsC17, with
      heartbeat_timeout 3 so that no heartbeat falls into the three rounds) *)
Definition cx_leader : raft := ex_leader <| r_heartbeat_timeout := 3 |>.
Definition cx_target : raft := ex_follower 2 <| r_heartbeat_timeout := 3 |>.
Definition cx_third : raft := ex_follower 3 <| r_heartbeat_timeout := 3 |>.
Definition cx_request : msg := ex_tl_msg 2.
Definition cx_after_request : raft :=
  match step cx_leader cx_request with Ok (r, _) => r | Panic _ => cx_leader end.

Lemma cx_start : Start cx_leader cx_target cx_third [1; 2; 3].
Proof.
  constructor; try (vm_compute; reflexivity); try (vm_compute; discriminate).
  - repeat constructor; cbn; intuition discriminate.
  - left; reflexivity.
  - right; left; reflexivity.
  - right; right; left; reflexivity.
  - eexists. split; vm_compute; reflexivity.
  - intros d ds H. vm_compute in H. inversion H. reflexivity.
  - intros d ds H. vm_compute in H. inversion H. reflexivity.
  - intros d ds H. vm_compute in H. inversion H. reflexivity.
Qed.

(* the records unfolded, for the pinned statements *)
Lemma VoteReq_unfold id li lt t p to x : VoteReq id li lt t p to x <->
  (m_type x = MsgRequestVote /\ m_to x = to /\ m_term x = t /\ m_from x = id /\
   m_index x = li /\ m_log_term x = lt /\ m_context x = CAMPAIGN_TRANSFER /\ get_priority x = p).
Proof.
  split.
  - intros [A B C0 D E F G H]. repeat split; assumption.
  - intros (A & B & C0 & D & E & F & G & H). constructor; assumption.
Qed.

Lemma Start_unfold L T X vs : Start L T X vs ->
  (r_id L <> r_id T /\ r_id L <> r_id X /\ r_id T <> r_id X) /\
  (NoDup vs /\ length vs = 3%nat /\ In (r_id L) vs /\ In (r_id T) vs /\ In (r_id X) vs /\
   incoming (conf_of T) = vs /\ outgoing (conf_of T) = []) /\
  (is_leader L = true /\ r_lead_transferee L = None /\
   r_state T = Follower /\ r_term T = r_term L /\ r_promotable T = true /\
   r_state X = Follower /\ r_term X = r_term L) /\
  ((exists pr, get_pr L (r_id T) = Some pr /\ matched pr = last_index (r_log L)) /\
   IdSet.mem (r_id T) (learners (conf_of L)) = false) /\
  (last_index (r_log L) = last_index (r_log T) /\ last_index (r_log X) = last_index (r_log T) /\
   last_term (r_log L) = last_term (r_log T) /\ last_term (r_log X) = last_term (r_log T) /\
   committed (r_log T) <= applied (r_log T)) /\
  ((r_priority L <= r_priority T)%Z /\ (r_priority X <= r_priority T)%Z) /\
  (r_msgs L = [] /\ r_msgs T = [] /\ r_msgs X = []) /\
  (1 < r_election_timeout L /\ r_heartbeat_elapsed L + 1 < r_heartbeat_timeout L /\
   1 < r_election_timeout T /\ 1 < r_heartbeat_timeout T /\
   r_election_elapsed X + 1 < r_randomized_election_timeout X /\
   (forall d ds, r_draws L = d :: ds -> 2 < d) /\
   (forall d ds, r_draws T = d :: ds -> 2 < d) /\
   (forall d ds, r_draws X = d :: ds -> 2 < d)).
Proof. intros []. repeat split; assumption. Qed.
